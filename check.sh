#!/bin/sh
# usage: check.sh <property> <quick|thorough>
# Rebuilds the analyser if needed and decides the property on /repo's current working tree.
export GOFLAGS=-mod=mod GOPROXY=off GOSUMDB=off GOTOOLCHAIN=local
unset GOWORK
cd /verif/vcheck || exit 2
if [ ! -x /verif/bin/vcheck ] || [ -n "$(find . \( -name '*.go' -o -name 'reference.json' \) -newer /verif/bin/vcheck 2>/dev/null)" ]; then
  go build -o /verif/bin/vcheck . || exit 2
fi
cd /verif
exec /verif/bin/vcheck -p "$1" -tier "${2:-quick}"
