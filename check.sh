#!/bin/sh
# usage: check.sh <property> <quick|thorough>
# Rebuilds the analyser if needed and decides the property on /repo's current working tree.
export GOFLAGS=-mod=mod GOPROXY=off GOSUMDB=off GOTOOLCHAIN=local
unset GOWORK
cd /verif/vcheck || exit 2
mkdir -p /verif/bin
build() {
  if [ ! -x /verif/bin/vcheck ] || [ -n "$(find . \( -name '*.go' -o -name 'reference.json' \) -newer /verif/bin/vcheck 2>/dev/null)" ]; then
    # build beside the target and rename: checks running in parallel never execute a half-written binary
    go build -o /verif/bin/vcheck.new.$$ . && mv -f /verif/bin/vcheck.new.$$ /verif/bin/vcheck || { rm -f /verif/bin/vcheck.new.$$; return 2; }
  fi
}
if command -v flock >/dev/null 2>&1; then
  exec 9>/verif/bin/.build.lock
  flock 9
  build || exit 2
  flock -u 9
  exec 9>&-
else
  build || exit 2
fi
cd /verif
exec /verif/bin/vcheck -p "$1" -tier "${2:-quick}"
