#!/usr/bin/env python3
"""Regenerates /verif/MANIFEST.json from the table below (kept here so that claims, notes and the
not_applicable list stay consistent). Run after adding or withdrawing a check."""
import json

ENV = "GOFLAGS=-mod=mod GOPROXY=off GOSUMDB=off GOTOOLCHAIN=local"
COMMON_NOTE = ("Trusted base: go/packages + go/types + go/ssa (x/tools v0.29.0) model of the source; third-party "
               "libraries (badger, bigcache, msgpack, ed25519, AES-GCM, gRPC) behave as documented; "
               "call graph = static callees + VTA. Decides structural necessary conditions only, for all paths/schedules; "
               "the behaviour itself is NOT decided: ")

# id -> (design_ref, claim text, what is not decided, technique)
CLAIMS = {
 "C08": ("DESIGN.md §3 C08",
         "Static lock/channel-structure analysis: lock-holding stream producers are derived from heimdalr/dag's source; every consumer path drains the walker, "
         "never sends on the producer-closed stop channel, re-enters the graph lock only under the ledger lock, does no unguarded blocking channel operation "
         "under a lock, no send/lock wait-for cycle, every lock released on all paths, graph writers only under the exclusive ledger lock. "
         "These are necessary conditions of 'never wedges' that hold for every schedule and cancellation point at once, which no test run can show.",
         "termination of the walks themselves, blocking inside badger/logger/gRPC, fairness of RWMutex",
         "go/ssa path obligations (edge-cut reachability) + must-hold locksets + derived library lock summaries"),
 "C15": ("DESIGN.md §3 C15",
         "Static wire-input safety analysis over all message shapes at once: every slice→array conversion in the wire-facing packages is dominated by a length test on the same access path "
         "(directly, via validator ensures-summaries, or at every caller), every dereference through an optional protobuf sub-message is dominated by a nil test, len-relative slice bounds in address decoding are covered, "
         "handlers are discovered through types.Implements, and no validation is reachable after an effectful call in any handler. A test can only sample message shapes; the rule covers every path.",
         "panics unrelated to message shape, resource exhaustion, failures after validation (CreateLeaf error after awaiting entry removed), library internals",
         "go/ssa must-fact analysis (length / non-nil facts on access paths, edge-cut dominance, interprocedural ensures/requires summaries)"),
 "C20": ("DESIGN.md §3 C20",
         "Static analysis of the wallet read path: the nonce split in Decrypt is covered by a dominating length fact for every input length, plaintext is returned only as AEAD.Open's result behind its success edge, "
         "seal/open agree on the nonce size, and ReadWallet/ReadFromPem/DecodeGOBWallet report success only behind the success edge of every fallible step.",
         "round-trip equality, detection of wrong key / altered bytes (AES-GCM's guarantee, trusted), gob on hostile input",
         "go/ssa must-fact bounds analysis + error-discipline path obligations"),
 "C17": ("DESIGN.md §3 C17",
         "Static lockset and guard analysis of the awaiting-transaction cache: every read-modify-write method of the index holds the receiver's exclusive lock at every cache access (so no interleaving of overlapping calls can lose or invent a list entry), "
         "mutations in the removal path lie behind the receiver-address equality on the transaction decoded from the very entry being deleted, and both issuer and receiver keys flow into the list updates. Holds for all interleavings, which a concurrent test can only sample.",
         "sequential model equivalence of the list encoding, expiry/eviction, linearizability beyond mutual exclusion",
         "must-hold locksets + edge-cut guard dominance + origin (may-flow) analysis on go/ssa"),
 "C18": ("DESIGN.md §3 C18",
         "Static lockset discipline (Eraser/RacerD style) standing in for the race detector over all schedules: for every field of the node's long-lived structs written by an operation of the property's mix, all accesses reachable from those operations "
         "share one lock held exclusively at writes, or belong to one single-instance loop; goroutine-captured variables are not stored to after the go statement; published vertices/transactions are written only in their builders.",
         "races inside third-party packages, happens-before through channels, operations outside the property's mix (peer join, startup, shutdown)",
         "interprocedural must-hold locksets over the VTA call graph + per-field access classification on go/ssa"),
 "C03": ("DESIGN.md §3 C03",
         "Static pairing/dominance analysis of replay protection: each insertion into the live DAG lies behind the success edge of the index reservation bound to the inserted vertex; the reservation is a get-then-set on one badger transaction and has no other writers; "
         "it is rolled back on every failing path and on no succeeding path; every tentative-vertex deletion is paired with the removal of its index entry; truncation cannot reach the index removal; reservation runs under the exclusive ledger lock; "
         "the gossip path checks both stores. This covers every path and interleaving of the check-then-insert, which the three isolated index tests cannot.",
         "badger transaction semantics, hash collisions, the dynamic 'index points at the holder' invariant beyond pairing",
         "edge-cut guard dominance with access-path argument binding, path pairing obligations, who-may-write / call-graph reachability on go/ssa"),
 "C01": ("DESIGN.md §3 C01",
         "Static guard-dominance and role analysis of per-tip funds validation: an edge confirming a tip is added only from vertices that passed validateLeaf (value-bound) or were already confirmed; a failing tip is deleted with its index entry on every path; "
         "validateLeaf succeeds only for a root, in the non-spice/trusted branch fed solely by checkIsTrustedNode(signer), or behind the funds check; checkpoint funds, the tip and every walker item reach the funds check with consistent in/out roles; "
         "pourFunds classifies issuer→outflow / receiver→inflow with the same amount; no accounting error is dropped. Holds for every DAG shape and delivery order, which six fixed scenarios cannot show.",
         "that the library walker enumerates all ancestors, the arithmetic (C05), the post-truncation IsRoot shortcut, cross-node merge (C02)",
         "edge-cut guard dominance with value binding, origin (may-flow) analysis through slices/φ/named results, return classification on go/ssa"),
 "C09": ("DESIGN.md §3 C09",
         "Static binding/pairing analysis of graph construction: every insertion uses the vertex's own hash as id; every edge runs from a vertex looked up by (or equal to) a declared parent hash to the vertex just inserted; a failed linking rolls the vertex back; "
         "on the gossip path both declared parents must be found before the insertion (per-element decision over the constant-length range); a locally created vertex seals calcNewWeight of exactly the parents it references and NewVertex returns only signed values.",
         "acyclicity (library), arithmetic of calcNewWeight, post-truncation graph, digest recomputation (C04)",
         "access-path binding + origin analysis through ranged literals + edge-cut loop obligations on go/ssa"),
 "C10": ("DESIGN.md §3 C10",
         "Static guard-dominance table of the sealing rules on all entry points (local proposal, gossip, orphan replay, genesis, sync) with operands bound by access path, plus who-may-call closure facts showing that no other path inserts into the DAG.",
         "deployment facts (which wallet is genesis), imports other than the three entry points",
         "edge-cut guard dominance over comparison facts + who-may-call over resolved callees"),
 "C13": ("DESIGN.md §3 C13",
         "Static path obligations on the orphan path: the not-found branch parks the vertex on every path, mutates neither DAG nor index and reports ErrParentDoesNotExists exactly when parked; the buffer's append is behind its size and retry bounds with the counter incremented first; "
         "the retry loop feeds the buffer's subscription into the normal admission function and never touches the DAG itself.",
         "convergence over delivery permutations (schedule property), ticker timing, buffer ordering quality",
         "path obligations + guard dominance on go/ssa"),
 "C14": ("DESIGN.md §3 C14",
         "Static reachability analysis of all-or-nothing sync: the loaded flag store is unreachable from each of the cancel sites, every failing step (index reservation, vertex insertion, edge insertion, no root, already loaded) leads to cancel before any exit, "
         "the genesis address originates from a GetRoots() vertex's issuer.",
         "equality of vertex sets, balances and follow-up behaviour with the peer; truncated or multi-tip sources; stream order",
         "CFG reachability / must-reach-cancel obligations + origin analysis on go/ssa"),
 "C04": ("DESIGN.md §3 C04",
         "Static analysis of the verification chain and of what the signatures cover: gossip admission only behind vertex verification; each link (vertex → issuer/receiver signatures → sha256 equality, checksum-validated address, ed25519.Verify) reports success only as the result of the next link bound to the right fields; "
         "every stored/wire field of Vertex and Transaction contributes content to a signed digest or is a verification input (sibling-table agreement between struct and digest); injectivity of the signed encoding (≥2 variable-width fields need lengths); conditionally verified signatures must be bound by a digest. "
         "Two genuine defects found this way are recorded as known findings (field-boundary ambiguity of GetMessage; strippable receiver signature).",
         "cryptographic strength, bit-level behaviour of base58/ed25519, unchanged-ledger-after-rejection (covered structurally by C15/C03/C09)",
         "edge-cut guard dominance + return-propagation analysis + struct/digest field-coverage comparison on go/ssa and go/types"),
 "C11": ("DESIGN.md §3 C11",
         "Static guard-dominance analysis of the STRUCTURAL half of the statement only: items are processed behind the not-seen and self-not-in-verified-set edges; a vertex is forwarded only behind ledger admission (interprocedural summary of sendToAccountant→AddLeaf), a transaction only behind conversion + issuer verification; "
         "self is inserted into set and list before forwarding; forward loops skip every peer of the set under the peer-table lock; origins start with self listed. Delivery to every node, exactly-once and termination are NOT decided (model-checking questions).",
         "delivery to every node, exactly-once, termination over all delivery orders/topologies; the seen-before-accepted marking of HasHash",
         "edge-cut guard dominance, map-lookup facts, locksets on go/ssa"),
 "C12": ("DESIGN.md §3 C12",
         "Static binding/confinement analysis: an entry enters the verified set only behind Verify over (its own address ‖ the caller's item hash) with key, message and verification address on one access path; handlers bind the hash to the processed item; "
         "the raw Gossipers field is read only as verifyGossipers' argument; every skip decision looks up a map originating from verifyGossipers or the node's own fresh entry (origin analysis through parameters of the forward helpers).",
         "existence of an honest path (topology), delivery under all relay positions/orders",
         "guard dominance with access-path binding + who-may-read confinement + origin analysis on go/ssa"),
 "C16": ("DESIGN.md §3 C16",
         "Static authorisation table of the notary API: each protected effect of each handler lies behind the success edges of the required checks bound to the same request fields (issuer signature, contract split, issuer+receiver signatures plus receiver-keyed removal, signed rejection, server challenge + signature for reads), "
         "no ledger/awaiting effect exists outside the table, and ValidateData accepts only an existing, unexpired, byte-equal challenge.",
         "full call-sequence state machine, at-most-once under concurrent duplicates beyond C17/C03, expiry timing",
         "edge-cut guard dominance with access-path binding over resolved interface calls on go/ssa"),
 "C05": ("DESIGN.md §3 C05",
         "Static analysis of the atomicity and canonicality clauses only: abstract interpretation with constant trace partitioning over the range/switch of Supply/Transfer shows every error return leaves all operands restored on every feasible path; "
         "each addition into a supplementary part is followed by the carry step; Drain delegates with the right roles; every admission entry inserts only behind the canonicality predicate (SupplementaryCurrency < 10^18) on the admitted amount. "
         "EXACTNESS against unbounded integers is a numerical for-all-inputs statement and is NOT decided (out of this family's reach).",
         "exactness of the arithmetic (a known off-by-one in the carry guard is visible only to arithmetic reasoning), conservation over histories",
         "abstract interpretation (dirty-set dataflow with constant trace partitioning) + guard dominance on go/ssa"),
 "C06": ("DESIGN.md §3 C06",
         "Static effect and shape analysis: no mutator is reachable from the four read entry points and the ledger lock is taken in read mode only (decides 'querying never changes the ledger' for all inputs); CalculateBalance has the shape checkpoint + in − out over tip and every walker item with constant roles, both arithmetic errors gate the result.",
         "numerical equality with the reference sum, cross-node agreement, tip choice",
         "call-graph effect analysis + guard dominance + locksets on go/ssa"),
 "C07": ("DESIGN.md §3 C07",
         "Static order/pairing/lock analysis of truncate: identical cut for funds, storage and deletion; deletion only behind successful save walk and checkpoint write (tolerated ErrBreak handled as an edge); every counted vertex is saved; previous checkpoint loaded first; all under the exclusive ledger lock; "
         "no dropped Drain/Transfer error in ledger accounting (one genuine defect recorded as known finding).",
         "equality of balances and lookups before/after truncation (history property), cut choice with several tips",
         "edge-cut dominance, closure summaries, locksets, error-discipline on go/ssa"),
 "C19": ("DESIGN.md §3 C19",
         "Sibling-table agreement of the protobuf mapper pairs extracted from SSA: every stored/wire field (set derived from the struct definitions) is mapped in both directions to the same wire field with an inverse conversion pair, and the nested transaction mapping of the vertex mappers agrees with transformers. "
         "The msgpack (storage/cache) pairs are NOT decided: agreement of two encoder libraries over all values is not in the shape of this repository's code.",
         "msgpack encode/decode agreement, timestamp range limits, time.Time monotonic/location parts",
         "extraction and comparison of field-mapping tables from go/ssa"),
}

# clauses added after the plan, usually because an independent seeded change was missed (DESIGN.md §9.1/§9.4)
ADDED = {
 "C01": " The checkpoint write and the pruning of the checkpointed vertices happen without releasing the exclusive ledger lock in between; checkIsTrustedNode reports a sealer trusted only after reading the trusted-nodes store in that call. A checkpoint write covers every address of the checkpoint map (none is skipped), so no stale record of an earlier truncation survives. Gossip admission inserts a vertex only after every declared parent was found in the live graph (a vertex without edges is a root, and roots are exempt from the funds check). The funds a truncation folds into the checkpoint are those of the vertices its save walk visits: fundsMemMap.nextVertex is called only in the callback of that walk and the callback serves nothing else. Amounts are admitted only behind the canonicality predicate at every entry (shared with C05: the sums of the funds validation are Supply chains). The save walk's callback counts and stores the same vertex and succeeds only when both did (shared with C06/C07: a vertex pruned without having been folded takes its spend out of the checkpoint).",
 "C03": " Vertices are written to checkpoint storage only by the truncation walk callback, so none is both live and stored; an index entry is removed only as the roll-back of its own reservation or together with the deletion of its vertex. The index entry of a parent found invalid is released in the critical section that found it invalid (no unlock of the ledger lock between the failed validateLeaf and the release, and the released entry belongs to the validated value). The index functions touch nothing but the index database (no second copy of an answer). A vertex dropped outside a truncation takes its own index entry along on every path.",
 "C04": " The decoded wallet address is consumed completely (version, key, checksum tile [0,len) on every successful return), so no address with surplus bytes resolves to a key. Every exit of gossip admission after the index reservation gives the reservation back; the digest scratch buffers are large enough for what is written into them. No branch in a signed-message builder depends on the content of a signed field. A creation time is read into a signed message only with UnixNano and is written as read (no division, shift, mask or narrower conversion in between). No variable-length field of a vertex or transaction is copied into a destination of constant length (what is verified is what was offered).",
 "C05": " Every carry increment of the main currency lies behind the != MaxUint64 test of the same operand; the sink of every Drain in ledger accounting is private to that computation (no package-level sink). Every borrow decrement of the main currency lies behind a test that excludes zero on the same operand. The ledger's sufficiency verdict is the success of in.Drain(*out, sink) itself. pourFunds counts a transfer with its own amount on the issuer's and on the receiver's side, both in one execution when they are one wallet. Every address of the checkpoint map is rewritten at each truncation (a stale record is value that exists twice). A copyFrom into an operand of Supply / Transfer leads only to error returns. Every comparison with 10^18 in package spice is >= / <. The per-vertex fold of a truncation only adds (Supply); the one subtraction per wallet happens after the walk, so the folded result does not depend on the order of the walk. Only the vertices the save walk visits are folded into a checkpoint (a vertex folded from elsewhere would be counted in the checkpoint and live). The live fold and the checkpoint fold read of a vertex only the parties and the amount. Once validateLeaf has begun to account for a transfer it reports success only behind the sufficiency verdict over the very accumulators the pours fill.",
 "C06": " Checkpoint write and pruning are atomic under the ledger lock (shared with C01); the single tip poured outside the walk is the walk's start; every address of the funds map is re-written at each checkpoint (shared with C07). The flow classifier can perform the inflow and the outflow supply in one execution (a self-transfer counts on both sides). Checkpointed funds are written, read and enumerated under one key form of the address, and the enumeration skips the vertex records of the shared store. fundsMemMap.nextVertex leaves a vertex out of the checkpoint only when its transaction is not a spice transfer — the exemption pourFunds has. Every comparison with 10^18 in package spice is >= / < (a sum of exactly 10^18 is carried). The list of edge sources of a received vertex grows on every completed turn of the loop over its declared parents (whether a parent still is a tip decides validation, not linking). After a truncation each transfer is in exactly one of checkpoint and live graph: the fold sees only the walked vertices, the walk callback counts and stores the same vertex and succeeds only when both did, the deleted ids are the collected ones. pourFunds and fundsMemMap.nextVertex read of a vertex only Transaction.{IssuerAddress, ReceiverAddress, Spice}. In CalculateBalance no success return is reachable from the failure edge of a step (only an error told apart by name, such as 'no checkpoint yet', is a decision).",
 "C07": " Every read of the checkpointed funds happens under the ledger lock; every address of the funds map is written at each checkpoint; only the truncation walk writes vertices to storage. "
        "Truncation is analysed through a role model of its walks, wherever in truncate or its helpers they sit. Checkpointed funds are written, read and enumerated under one key form of the address, and the enumeration skips the vertex records of the shared store. nextVertex leaves a vertex out of the checkpoint only when its transaction is not a spice transfer. Every failure of ReadTransactionByHash's graph lookup reaches the storage read. The sink of every Drain belongs to its own computation / iteration. A received vertex is linked to every declared parent that was looked up (an unlinked one would be a root for validateLeaf, validated against nothing). nextVertex is called only in the callback of the save walk and that callback serves nothing else.",
 "C08": " While a walk is consumed neither its loop, nor helpers, nor callbacks take the graph lock in write mode. A select that sends on a long-lived channel under a lock is subject to the same wait-for-cycle test as a plain send. Where a function tests a stream call's error, every receive on the stream lies on the err == nil side. Channels handed out by accessor methods (subscribe) are resolved to their field for the send/lock wait-for-cycle test. Every storage scan advances its iterator between two looks at the current item.",
 "C09": " Outside truncation only childless vertices are deleted; truncation deletes exactly the ids gathered by a walk from the cut the save walk started at; in LoadDag no lookup decides to skip the link to a declared parent. The parents CreateLeaf links to originate only from getValidLeaves, which hands out a tip only behind the success of validateLeaf for that tip. Truncation's save callback lets the walk continue or stop quietly only after the vertex at hand was stored. Gossip admission inserts a vertex only behind the success of leaf.verify for that vertex on every path. The only exclusive-lock calls into the graph library are AddVertexByID, AddEdge and DeleteVertex. The edge-source list of gossip admission grows on every completed turn of the parent loop. A tip that is dropped takes its own index entry along (shared with C03).",
 "C10": " The genesis receiver compared with the node's own address is the very value handed to transaction.New. The *Vertex handed to AddLeaf by the serving packages is the caller's own allocation (the ledger parks and replays that pointer). No write that turns the loaded flag on is followed by the assignment of the genesis address. Transaction.IsContract / IsSpiceTransfer / IsEmpty read Data and Spice only. wallet.Helper.AddressToPubKey pins the version byte of an address to a constant: one key has one address string, which the string comparisons of the sealing guards rely on (defect F-C10-1, fixed). The address decoder is given the address parameter itself (no trimming or other normalisation in front of Base58Decode).",
 "C11": " The seen-cache test-and-mark is one critical section; verifyGossipers keeps every well-formed verifying upstream entry (the forwarded list is rebuilt from its result). Every refusal exit of a gossip handler ahead of the hand-over to the ledger is a shape, signature or seen-before refusal. No write of the peer table is reachable from the functions that receive, originate or forward items. The seen-mark of an item hash is removed by expiry only. Every HasHash reachable from a gossip handler is given the hash of that handler's item. Every sending method of pipe.Juggler hands the item over with a send that waits for room (no select that gives the item up through its default arm). In GossipTrx the forwarding stays reachable from the failure edge of the awaiting-cache save (the cache is not a gate of the protocol). The pure shape validators in front of the gossip handlers test the length only of fields that a mapper converts to a fixed-size array. No WaitGroup.Wait of package gossip runs with a repository lock held.",
 "C12": " Every listed entry is verified unless malformed and every verified entry enters the set; the signed statement is built from both the address and the item hash. No branch depends on the size of the verified set. Every peer-table write reachable from Announce / Discover is keyed by the verified request's own address. The statement bytes handed to the verifier are built without package-level state. One key has one address string (the version byte of a decoded address is pinned), so membership by address is membership by wallet.",
 "C13": " The retry order never prefers a newer parked vertex; the ticker loop publishes every vertex it pops; replays run under the subscriber loop's own context. Admission reaches the vertex verification on every path, replayed or not. The retry loop itself touches neither the DAG nor the transaction index; the vertex handed to AddLeaf is the caller's own allocation. buffer.insert reports success only when the vertex was appended. Every vertex taken from the buffer passes the admission call before the next wait; the parked list grows through insert only. The pop loop of the buffer waits on the ticker and the context only.",
 "C14": " Once a walk of the serving stream was abandoned nothing more is streamed; the errors of stream.Send / stream.Recv / vertex decoding can reach the results of the serving handler and of updateDag; LoadDag inserts a vertex only behind the duplicate-refusing reservation of its transaction. State that can bypass the link to a declared parent in LoadDag is created anew for every loaded vertex. The goroutine serving StreamDAG releases the ledger lock only by its deferred unlock. No vertex gets past LoadDag's checking loop without the IsEmpty test. Every send of a vertex on the StreamDAG channel happens with the ledger lock held. Every exit of the loop over the tips in StreamDAG is decided by the range, a ctx.Done() select, an error or a failed type assertion.",
 "C15": " ed25519.Verify is reached only with a key of length exactly 32; a gossiped vertex the ledger rejects leaves no index reservation behind (shared with C03); bounded random draws get a provably positive bound. Every operation on a map table of a request-serving struct that has a mutex (peer table, webhook table; aliases, nested tables, helpers, closures followed) runs with that mutex held, exclusively for writes. No value is dereferenced on a path from the branch edge where the same function found it nil. No entry is assigned in a map that is nil on some path (results of repo helpers included). No slice is made with a size that is an unguarded difference of two run-time quantities. Logger.Fatal is not reachable from any RPC handler. No slice is extended by re-slicing past its length without a cap test. A pointer or interface taken from a map lookup is used only behind the found-edge of the comma-ok form or a nil test. The outcome of truncate's depth walk decides a branch before its hash is used as the checkpoint vertex (a received vertex may claim any weight; defect F-C15-5, fixed). Indexes of the form x[len(x)-c] and string indexing are covered by the bounds rule, which now also looks at packages cache and webhooks. Every Unlock / RUnlock in the request-serving packages runs with the mutex in the must-hold lockset — explicit ones where they stand, deferred ones at every return reachable from the defer. Nothing is sent on the stop channel of a graph walk (the walker closes it).",
 "C16": " The awaited entry is removed atomically with the authorisation test; wallet.Helper.Verify itself reports success only behind ed25519.Verify under the key decoded from the given address (shared with C04); ProvideData stores only challenge bytes drawn in that call. No notary handler uses package-level mutable state while assembling its response. A per-address list written inside a loop derives from that iteration's read of that address (shared with C17): a waiting list never contains another address's list.",
 "C17": " Cache writes under index keys (encodeAddressKey / encodeTrxKey) occur only in the awaiting-index functions and those write under no other keys. What is pruned from an address list are exactly the hashes whose record lookup failed. A per-address list written inside a loop does not depend on a value carried over from an earlier iteration. After the entry is stored, an address is left unlisted only when a cache call fails. No list helper writes into a reslice of the list it is still splitting and walking. The 'already exists' answer of SaveAwaitedTransaction performs no cache write. A per-address list is deleted only behind len(list) == 0 of the list read under that key. A key hash supplied to the cache by the repository is not computed from a fixed-length part of the key (none is supplied today). Every key handed to the shared cache comes out of a key encoder with a constant prefix, and the prefixes are pairwise different (defect F-C17-2, fixed); ReadTransactions can return its list along a path without any cache write.",
 "C18": " No function returns (a reslice of) a written slice / map field of a tracked struct. No function returns memory owned by an object it puts back into a sync.Pool. A library method called on a struct field with only a read lock held does not store through its receiver unless it synchronises itself.",
 "C19": " The transcoding functions touch no package-level mutable state (their results cannot alias storage another call reuses); msgpack key tables are complete and unique per struct; every msgpack decode writes into a fresh zero value. The byte slice handed to the zero-copy decoder does not outlive the call in a reusable buffer. No field is rewritten between a value and the msgpack encoder or between the decoder and the value. A mapper that shares bytes with its pointer argument is not given the address of a variable a loop reassigns while the message is kept. msgpack tags carry no options (the two libraries derive different keys from them). An encoder method is not called on a local copy of the value with a reassigned field (the stored record is the value's own encoding).",
 "C20": " SaveWallet replaces the file (no write into an existing longer file); a PEM block is tested for nil before use; the functions producing / reading the wallet's stored form use no package-level state. No byte slice that originates from a field of the file helper is written to. A file renamed over the wallet file is a unique temporary or named from the complete wallet path. Nothing reachable from the read functions creates a key pair or writes a file. Encrypt and Decrypt build the AES key from the key parameter through the same derivation. Every file the helpers touch is named by a configured path itself or that path plus a constant suffix. The bytes handed to Decrypt are the bytes read from the file and the bytes written next to the wallet path are the bytes Encrypt returned, unchanged.",
}

NA = {
 "C02": "Ledger-wide conservation over all gossip interleavings: the code has no merge-time check (the property's own anchor says so), so no construct exists whose presence/placement a static rule could verify; the quantifier is over run-time histories. Per-tip validation is claimed under C01, arithmetic roll-back under C05.",
}

PENDING = "check under construction in this round (see DESIGN.md); will be claimed once its rules run"

def main():
    ids = [json.loads(l)["id"] for l in open("/verif/properties.jsonl")]
    checks = []
    na = []
    for i in ids:
        if i in CLAIMS:
            ref, text, notdec, tech = CLAIMS[i]
            checks.append({
                "property_id": i,
                "quick_cmd": f"/verif/check.sh {i} quick",
                "thorough_cmd": f"/verif/check.sh {i} thorough",
                "evidence_file": f"/verif/evidence/{i}.json",
                "replay_cmd_template": f"/verif/check.sh {i} quick  # violations are listed in {{path}}",
                "engine": "vcheck",
                "level_claimed": {"category": "other", "text": text + ADDED.get(i, ""), "design_ref": ref},
                "level_note": COMMON_NOTE + notdec,
                "technique": "static analysis: " + tech,
            })
        else:
            na.append({"property_id": i, "reason": NA.get(i, PENDING)})
    m = {
        "version": 1,
        "setup_cmd": f"mkdir -p /verif/bin /verif/evidence && cd /verif/vcheck && {ENV} go build -o /verif/bin/vcheck .",
        "hooks": {
            "guard": "verif",
            "enable": "no hooks: the analyser reads /repo/src as it is (build tag verif reserved, unused)",
            "baseline_off_cmd": "cd /repo/src && GOFLAGS=-mod=mod go test -vet=off -count=1 -timeout 25m ./...",
            "source_commits": [],
            "add_only": True,
        },
        "engines": [{
            "name": "vcheck", "path": "/verif/vcheck", "serves_properties": sorted(CLAIMS),
            "kind_free_text": "custom static analyser over go/packages + go/ssa (x/tools v0.29.0): edge-cut guard analysis, path obligations, "
                              "must-hold locksets, access-path bindings, sibling-table comparison; reads /repo/src on every run, executes nothing of the repository",
        }],
        "checks": checks,
        "not_applicable": na,
        "notes": "All claims are level 'other': structural necessary conditions decided statically (see DESIGN.md §0). "
                 "known_findings.txt lists recorded/repaired genuine defects; fix: commits in /repo are unguarded repairs, there are no hooks.",
    }
    json.dump(m, open("/verif/MANIFEST.json", "w"), indent=1)
    print(f"{len(checks)} checks, {len(na)} not applicable/pending")

main()
