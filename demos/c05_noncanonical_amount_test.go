package accountant

// Demonstration for finding F-C05-1: an amount whose supplementary part is not canonical
// (>= 10^18) is accepted into the ledger and creates value through wrap-around.
// A wallet holding (5, 0) proposes the amount (0, 2^64-1) — worth ~18.4 currency units.
// validateLeaf: Supply carries once, Drain wraps the borrow → accepted and built upon.
//   cp to src/accountant/zz_demo_test.go ; go test -run TestVerifDemoNonCanonicalAmount -count=1 ./accountant

import (
	"context"
	"math"
	"testing"

	"github.com/bartossh/Computantis/src/logging"
	"github.com/bartossh/Computantis/src/spice"
	"github.com/bartossh/Computantis/src/stdoutwriter"
	"github.com/bartossh/Computantis/src/transaction"
	"github.com/bartossh/Computantis/src/wallet"
)

func TestVerifDemoNonCanonicalAmount(t *testing.T) {
	ctx, cancel := context.WithCancel(context.Background())
	defer cancel()
	l := logging.New(func(error) {}, func(error) {}, &stdoutwriter.Logger{})
	verifier := wallet.NewVerifier()
	signer, _ := wallet.New()
	ab, _ := NewAccountingBook(ctx, Config{}, verifier, &signer, l)
	rich, _ := wallet.New()
	if _, err := ab.CreateGenesis("GENESIS", spice.New(1000, 0), []byte{}, rich.Address()); err != nil {
		t.Fatal(err)
	}
	holder, _ := wallet.New()
	other, _ := wallet.New()
	trx, _ := transaction.New("fund", spice.New(5, 0), []byte{}, holder.Address(), &rich)
	if _, err := ab.CreateLeaf(ctx, &trx); err != nil {
		t.Fatal(err)
	}
	bad := spice.Melange{Currency: 0, SupplementaryCurrency: math.MaxUint64}
	trx2, err := transaction.New("wrap", bad, []byte{}, other.Address(), &holder)
	if err != nil {
		t.Fatal(err)
	}
	_, err = ab.CreateLeaf(ctx, &trx2)
	if err == nil {
		// build on it so that it becomes confirmed, then look at the balances
		trx3, _ := transaction.New("next", spice.New(1, 0), []byte{}, holder.Address(), &rich)
		_, err3 := ab.CreateLeaf(ctx, &trx3)
		bo, _ := ab.CalculateBalance(ctx, other.Address())
		bh, _ := ab.CalculateBalance(ctx, holder.Address())
		t.Fatalf("non-canonical amount (0, 2^64-1) from a wallet holding 5.0 was ACCEPTED (next proposal err=%v); receiver now holds %v, sender %v", err3, bo.Spice, bh.Spice)
	}
	t.Logf("rejected: %v", err)
}
