package spice

// Demonstration for finding F-C05-2: the carry-overflow guard of Supply and Transfer is evaluated
// BEFORE the supplementary parts are added and uses '<' where the carry happens at '>=': when the
// supplementary parts add up to exactly 10^18 and the receiver's currency is 2^64-1, the operation
// reports success and the receiver wraps around to (0, 0) — 2^64 whole units vanish.
// All operands are canonical, so the ledger's canonicality check does not stop it.
//   cp to src/spice/zz_demo_test.go ; go test -run TestVerifDemoCarryOverflow -count=1 ./spice

import (
	"math"
	"testing"
)

func TestVerifDemoCarryOverflow(t *testing.T) {
	const max = MaxAmountPerSupplementaryCurrency
	m := Melange{Currency: math.MaxUint64, SupplementaryCurrency: max - 5}
	before := m
	if err := m.Supply(Melange{Currency: 0, SupplementaryCurrency: 5}); err == nil {
		t.Errorf("Supply: (2^64-1, 10^18-5) + (0, 5) reported success; receiver is now (%d, %d)", m.Currency, m.SupplementaryCurrency)
	} else if m != before {
		t.Errorf("Supply: failed but changed the receiver to (%d, %d)", m.Currency, m.SupplementaryCurrency)
	}
	to := Melange{Currency: math.MaxUint64, SupplementaryCurrency: max - 5}
	from := Melange{Currency: 1, SupplementaryCurrency: 5}
	toB, fromB := to, from
	if err := Transfer(Melange{Currency: 0, SupplementaryCurrency: 5}, &from, &to); err == nil {
		t.Errorf("Transfer: carry into a full currency reported success; to=(%d, %d) from=(%d, %d)", to.Currency, to.SupplementaryCurrency, from.Currency, from.SupplementaryCurrency)
	} else if to != toB || from != fromB {
		t.Errorf("Transfer: failed but changed an operand")
	}
	// borrow path of Transfer (amount.supp > from.supp)
	to2 := Melange{Currency: math.MaxUint64, SupplementaryCurrency: max - 7}
	from2 := Melange{Currency: 1, SupplementaryCurrency: 3}
	to2B, from2B := to2, from2
	if err := Transfer(Melange{Currency: 0, SupplementaryCurrency: 7}, &from2, &to2); err == nil {
		t.Errorf("Transfer (borrow path): carry into a full currency reported success; to=(%d, %d)", to2.Currency, to2.SupplementaryCurrency)
	} else if to2 != to2B || from2 != from2B {
		t.Errorf("Transfer (borrow path): failed but changed an operand")
	}
}
