package accountant

// Demonstration for finding F-C18-1: the orphan buffer's ticker goroutine (getNext: sorts and
// reslices members) races with the admission path (insert: reads len and appends).
//   cp to src/accountant/zz_demo_test.go ; go test -race -run TestVerifDemoBufferRace -count=1 ./accountant

import (
	"context"
	"testing"
	"time"
)

func TestVerifDemoBufferRace(t *testing.T) {
	ctx, cancel := context.WithCancel(context.Background())
	defer cancel()
	b, _ := newReplierBuffer(ctx, time.Microsecond*50)
	go func() {
		for range b.subscribe() {
		}
	}()
	for i := 0; i < 2000; i++ {
		b.insert(newMemory(&Vertex{CreatedAt: time.Now()}))
	}
}
