package wallet

// Demonstration for finding F-C15-3 (reported by a seeding sub-agent while studying the tree): an
// address that base58-decodes to version byte + a key of the wrong length + a VALID checksum passes
// AddressToPubKey, and ed25519.Verify panics on a public key that is not 32 bytes. Every RPC that
// verifies a signature for a caller-supplied address (notary, gossip, webhooks) reaches it.
//   cp to src/wallet/zz_demo_test.go ; go test -run TestVerifDemoShortKeyAddress -count=1 ./wallet

import (
	"crypto/sha256"
	"testing"

	"github.com/bartossh/Computantis/src/serializer"
)

func TestVerifDemoShortKeyAddress(t *testing.T) {
	for _, n := range []int{1, 5, 31, 33, 64} {
		func() {
			defer func() {
				if p := recover(); p != nil {
					t.Errorf("key length %d: PANIC %v", n, p)
				}
			}()
			payload := append([]byte{version}, make([]byte, n)...)
			full := append(payload, checksum(payload)...)
			addr := string(serializer.Base58Encode(full))
			msg := []byte("m")
			if err := NewVerifier().Verify(msg, make([]byte, 64), sha256.Sum256(msg), addr); err == nil {
				t.Errorf("key length %d: accepted", n)
			}
		}()
	}
}
