package accountant

// Demonstration for finding F-C07-1: fundsMemMap.saveToStorage drops the error of
// pf.in.Drain(pf.out, …). For an address whose checkpointed net flow is negative (the genesis issuer:
// it only ever sends) the failed drain leaves `in` untouched and the checkpoint stores (0,0).
// Before the truncation the balance query for that address fails (sum negative → error, as C06 demands);
// after it the same query returns the NUMBER 0: truncation changed an observable balance.
//   cp to src/accountant/zz_demo_test.go ; go test -run TestVerifDemoNegativeFlowCheckpoint -count=1 -timeout 10m ./accountant

import (
	"context"
	"fmt"
	"math"
	"os"
	"testing"
	"time"

	"github.com/bartossh/Computantis/src/logging"
	"github.com/bartossh/Computantis/src/spice"
	"github.com/bartossh/Computantis/src/stdoutwriter"
	"github.com/bartossh/Computantis/src/transaction"
	"github.com/bartossh/Computantis/src/wallet"
)

func TestVerifDemoNegativeFlowCheckpoint(t *testing.T) {
	ctx, cancel := context.WithCancel(context.Background())
	defer cancel()
	defer func() {
		for i := 0; i < 4; i++ {
			os.Remove(fmt.Sprintf("%s%v.bak", backupName, i))
		}
	}()
	l := logging.New(func(error) {}, func(error) {}, &stdoutwriter.Logger{})
	verifier := wallet.NewVerifier()
	signer, _ := wallet.New()
	ab, _ := NewAccountingBook(ctx, Config{Truncate: 2000}, verifier, &signer, l)
	holder, _ := wallet.New()
	if _, err := ab.CreateGenesis("GENESIS", spice.New(math.MaxUint64-1, 0), []byte{}, holder.Address()); err != nil {
		t.Fatal(err)
	}
	receiver, _ := wallet.New()
	_, errBefore := ab.CalculateBalance(ctx, signer.Address())
	for i := 0; i < 3005; i++ {
		trx, _ := transaction.New(fmt.Sprintf("t%d", i), spice.New(1, 0), []byte{}, receiver.Address(), &holder)
		if _, err := ab.CreateLeaf(ctx, &trx); err != nil {
			t.Fatalf("leaf %d: %v", i, err)
		}
	}
	deadline := time.Now().Add(90 * time.Second)
	for ab.dag.GetOrder() > 2100 && time.Now().Before(deadline) {
		time.Sleep(200 * time.Millisecond)
	}
	if ab.dag.GetOrder() > 2100 {
		t.Skipf("truncation did not run (order %d)", ab.dag.GetOrder())
	}
	bal, errAfter := ab.CalculateBalance(ctx, signer.Address())
	t.Logf("genesis issuer balance before truncation: err=%v; after: %v err=%v", errBefore, bal.Spice, errAfter)
	if (errBefore == nil) != (errAfter == nil) {
		t.Fatalf("TRUNCATION CHANGED A BALANCE: before err=%v, after balance=%v err=%v", errBefore, bal.Spice, errAfter)
	}
}
