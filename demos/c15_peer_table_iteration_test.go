// copy to: src/gossip/zz_c15_peer_table_iteration_test.go
// run:     cd src && go test -race -vet=off -count=1 -run 'TestC15FetchingParentsWhilePeersJoin' ./gossip      (race report)
//          cd src && C15_TIGHT=1 go test -vet=off -count=1 -run 'TestC15FetchingParentsWhilePeersJoin' ./gossip   (runtime abort:
//          "fatal error: concurrent map iteration and map write" in processLackingParent, observed on 437df7c)
//
// C15 (no request can crash a node; "the same holds for vertices received from a peer while … fetching
// missing parents"): processLackingParent ranges the peer table g.nodes WITHOUT g.mux while it performs one
// GetVertex RPC per peer. Announce / Discover — valid RPCs of joining peers — write that map under g.mux.
// The overlap is an unsynchronised map iteration + map write: the Go runtime aborts the process with
// "fatal error: concurrent map iteration and map write" (not recoverable, no interceptor helps); the race
// detector reports it deterministically, which is what this test relies on.
//
// The test uses the real gossiper, the real Discover handler, real wallets / verifier and real (non blocking)
// gRPC client connections for the joining peers. The peers that are asked for the missing parent answer through
// an in-process GossipAPIClient that takes a millisecond per call (a network round trip).
package gossip

import (
	"context"
	"errors"
	"fmt"
	"io"
	"os"
	"sync"
	"testing"
	"time"

	"google.golang.org/grpc"
	"google.golang.org/grpc/credentials/insecure"
	"google.golang.org/protobuf/types/known/emptypb"

	"github.com/bartossh/Computantis/src/logging"
	"github.com/bartossh/Computantis/src/protobufcompiled"
	"github.com/bartossh/Computantis/src/wallet"
)

type c15SlowPeer struct{}

func (c15SlowPeer) Alive(context.Context, *emptypb.Empty, ...grpc.CallOption) (*protobufcompiled.AliveData, error) {
	return nil, errors.New("n/a")
}
func (c15SlowPeer) LoadDag(context.Context, *emptypb.Empty, ...grpc.CallOption) (protobufcompiled.GossipAPI_LoadDagClient, error) {
	return nil, errors.New("n/a")
}
func (c15SlowPeer) Announce(context.Context, *protobufcompiled.ConnectionData, ...grpc.CallOption) (*emptypb.Empty, error) {
	return nil, errors.New("n/a")
}
func (c15SlowPeer) Discover(context.Context, *protobufcompiled.ConnectionData, ...grpc.CallOption) (*protobufcompiled.ConnectedNodes, error) {
	return nil, errors.New("n/a")
}
func (c15SlowPeer) GossipVrx(context.Context, *protobufcompiled.VrxMsgGossip, ...grpc.CallOption) (*emptypb.Empty, error) {
	return nil, errors.New("n/a")
}
func (c15SlowPeer) GossipTrx(context.Context, *protobufcompiled.TrxMsgGossip, ...grpc.CallOption) (*emptypb.Empty, error) {
	return nil, errors.New("n/a")
}
func (c15SlowPeer) GetVertex(context.Context, *protobufcompiled.SignedHash, ...grpc.CallOption) (*protobufcompiled.Vertex, error) {
	if os.Getenv("C15_TIGHT") == "" {
		time.Sleep(time.Millisecond)
	} // one network round trip: the peer does not hold the vertex
	return nil, errors.New("vertex not found")
}

func TestC15FetchingParentsWhilePeersJoin(t *testing.T) {
	w, err := wallet.New()
	if err != nil {
		t.Fatal(err)
	}
	log := logging.New(func(error) {}, func(error) {}, io.Discard)
	g := &gossiper{
		verifier:      wallet.NewVerifier(),
		signer:        &w,
		log:           &log,
		nodes:         make(map[string]nodeData),
		url:           "127.0.0.1:1",
		clientOptions: []grpc.DialOption{grpc.WithTransportCredentials(insecure.NewCredentials())},
		timeout:       time.Second,
	}
	defer g.closeAllNodesConnections()
	for i := 0; i < 40; i++ {
		conn, err := grpc.Dial(fmt.Sprintf("127.0.0.1:%d", 30000+i), grpc.WithTransportCredentials(insecure.NewCredentials()))
		if err != nil {
			t.Fatal(err)
		}
		g.nodes[fmt.Sprintf("known-peer-%d", i)] = nodeData{url: fmt.Sprintf("127.0.0.1:%d", 30000+i), conn: conn, client: c15SlowPeer{}}
	}

	ctx := context.Background()
	var wg sync.WaitGroup
	joined := make(chan struct{})
	// a vertex arrived before its parent: the node asks its peers for the parent (one call per peer, ~40 ms in total)
	wg.Add(1)
	go func() {
		defer wg.Done()
		rounds := 5
		if os.Getenv("C15_TIGHT") != "" {
			rounds = 200000
		}
		for i := 0; i < rounds; i++ {
			select {
			case <-joined: // tight mode: stop asking once the peers have joined
				return
			default:
			}
			g.processLackingParent(ctx, [32]byte{byte(i + 1)})
		}
	}()
	// meanwhile new peers join with perfectly valid Discover requests
	wg.Add(1)
	go func() {
		defer wg.Done()
		defer close(joined)
		joins := 20
		if os.Getenv("C15_TIGHT") != "" {
			joins = 3000
		}
		for i := 0; i < joins; i++ {
			pw, err := wallet.New()
			if err != nil {
				t.Error(err)
				return
			}
			url := fmt.Sprintf("127.0.0.1:%d", 31000+i)
			now := uint64(time.Now().UnixNano())
			digest, signature := pw.Sign(initConnectionData(pw.Address(), url, now))
			if _, err := g.Discover(ctx, &protobufcompiled.ConnectionData{PublicAddress: pw.Address(), Url: url, CreatedAt: now, Digest: digest[:], Signature: signature}); err != nil {
				t.Errorf("valid Discover request refused: %s", err)
				return
			}
			if os.Getenv("C15_TIGHT") == "" {
				time.Sleep(2 * time.Millisecond)
			}
		}
	}()
	wg.Wait()
}
