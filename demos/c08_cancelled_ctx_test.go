package accountant

// Demonstration for findings F-C08-1 (abandoned graph walker keeps the graph read lock) and
// F-C08-5 (inverted nil test in CreateLeaf). Copy into src/accountant of a scratch worktree and run
//   go test -run TestVerifDemoCancelledCtx -count=1 ./accountant
// Pinned tree: the cancelled proposal never returns (walker leaked → DeleteVertex blocks with the
// ledger lock held). With only the drain fix: nil dereference under the ledger lock.
// With both fixes: the cancelled proposal returns an error and the next proposal succeeds.

import (
	"context"
	"fmt"
	"math"
	"testing"
	"time"

	"github.com/bartossh/Computantis/src/logging"
	"github.com/bartossh/Computantis/src/spice"
	"github.com/bartossh/Computantis/src/stdoutwriter"
	"github.com/bartossh/Computantis/src/transaction"
	"github.com/bartossh/Computantis/src/wallet"
)

func TestVerifDemoCancelledCtx(t *testing.T) {
	ctx, cancel := context.WithCancel(context.Background())
	defer cancel()
	l := logging.New(func(error) {}, func(error) {}, &stdoutwriter.Logger{})
	verifier := wallet.NewVerifier()
	signer, _ := wallet.New()
	ab, err := NewAccountingBook(ctx, Config{}, verifier, &signer, l)
	if err != nil {
		t.Fatal(err)
	}
	holder, _ := wallet.New()
	if _, err := ab.CreateGenesis("GENESIS", spice.New(math.MaxUint64-1, 0), []byte{}, holder.Address()); err != nil {
		t.Fatal(err)
	}
	receiver, _ := wallet.New()
	for i := 0; i < 4; i++ {
		trx, _ := transaction.New(fmt.Sprintf("t%d", i), spice.New(1, 0), []byte{}, receiver.Address(), &holder)
		if _, err := ab.CreateLeaf(ctx, &trx); err != nil {
			t.Fatal(err)
		}
	}
	done := make(chan error, 1)
	go func() {
		defer func() {
			if p := recover(); p != nil {
				done <- fmt.Errorf("PANIC: %v", p)
			}
		}()
		cctx, ccancel := context.WithCancel(ctx)
		ccancel()
		trx, _ := transaction.New("cancelled", spice.New(1, 0), []byte{}, receiver.Address(), &holder)
		_, err := ab.CreateLeaf(cctx, &trx)
		done <- err
	}()
	select {
	case err := <-done:
		if err == nil {
			t.Fatal("cancelled proposal unexpectedly succeeded")
		}
		if len(err.Error()) >= 5 && err.Error()[:5] == "PANIC" {
			t.Fatalf("cancelled proposal panicked under the ledger lock: %v", err)
		}
		t.Logf("cancelled proposal returned: %v", err)
	case <-time.After(5 * time.Second):
		t.Fatal("WEDGED: CreateLeaf with a cancelled context did not return within 5s")
	}
	// the node must still work
	ok := make(chan error, 1)
	go func() {
		_, err := ab.CalculateBalance(ctx, receiver.Address())
		ok <- err
	}()
	select {
	case <-ok:
	case <-time.After(5 * time.Second):
		t.Fatal("WEDGED: balance query after the cancelled proposal did not return within 5s")
	}
}
