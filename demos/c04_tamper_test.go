package accountant

// Demonstration for the two recorded C04 findings (not repaired: both need a change of the signed
// wire format shared with the C client, the wasm wallet and every stored signature).
//   cp to src/accountant/zz_demo_test.go ; go test -run TestVerifDemoTamper -count=1 ./accountant
//
// F-C04-1  Transaction.GetMessage concatenates Subject|Data|Issuer|Receiver without lengths:
//          moving a byte across the Subject/Data boundary of a valid transaction changes two signed
//          fields but neither the message, the hash nor the signatures: the altered vertex is admitted.
// F-C04-2  Vertex.verify checks the receiver signature only if it is present and no digest covers its
//          presence: stripping it from a countersigned transaction yields a vertex every node admits.

import (
	"context"
	"math"
	"testing"

	"github.com/bartossh/Computantis/src/logging"
	"github.com/bartossh/Computantis/src/spice"
	"github.com/bartossh/Computantis/src/stdoutwriter"
	"github.com/bartossh/Computantis/src/transaction"
	"github.com/bartossh/Computantis/src/wallet"
)

func TestVerifDemoTamper(t *testing.T) {
	ctx, cancel := context.WithCancel(context.Background())
	defer cancel()
	l := logging.New(func(error) {}, func(error) {}, &stdoutwriter.Logger{})
	verifier := wallet.NewVerifier()
	nodeA, _ := wallet.New() // seals
	nodeB, _ := wallet.New() // receives gossip
	holder, _ := wallet.New()
	receiver, _ := wallet.New()

	a, _ := NewAccountingBook(ctx, Config{}, verifier, &nodeA, l)
	gen, err := a.CreateGenesis("GENESIS", spice.New(math.MaxUint64-1, 0), []byte{}, holder.Address())
	if err != nil {
		t.Fatal(err)
	}
	b, _ := NewAccountingBook(ctx, Config{}, verifier, &nodeB, l)
	ch := make(chan *Vertex, 1)
	ch <- &gen
	close(ch)
	cctx, ccancel := context.WithCancelCause(ctx)
	b.LoadDag(ccancel, ch)
	if cctx.Err() != nil || !b.DagLoaded() {
		t.Fatalf("setup: node B did not load: %v", context.Cause(cctx))
	}

	// F-C04-1: boundary shift between Subject and Data
	trx, _ := transaction.New("ab", spice.New(1, 0), []byte("c"), receiver.Address(), &holder)
	if _, err := trx.Sign(&receiver, verifier); err != nil {
		t.Fatal(err)
	}
	vrx, err := a.CreateLeaf(ctx, &trx)
	if err != nil {
		t.Fatal(err)
	}
	mut := vrx
	mut.Transaction.Subject = "a"
	mut.Transaction.Data = []byte("bc")
	if err := b.AddLeaf(ctx, &mut); err == nil {
		t.Errorf("F-C04-1: vertex with Subject %q→%q and Data %q→%q (two signed fields altered) was ADMITTED by another node",
			vrx.Transaction.Subject, mut.Transaction.Subject, vrx.Transaction.Data, mut.Transaction.Data)
	}

	// F-C04-2: receiver signature stripped
	trx2, _ := transaction.New("contract", spice.New(1, 0), []byte("payload"), receiver.Address(), &holder)
	if _, err := trx2.Sign(&receiver, verifier); err != nil {
		t.Fatal(err)
	}
	vrx2, err := a.CreateLeaf(ctx, &trx2)
	if err != nil {
		t.Fatal(err)
	}
	stripped := vrx2
	stripped.Transaction.ReceiverSignature = nil
	c, _ := NewAccountingBook(ctx, Config{}, verifier, &nodeB, l)
	ch2 := make(chan *Vertex, 2)
	ch2 <- &gen
	ch2 <- &vrx
	close(ch2)
	cctx2, ccancel2 := context.WithCancelCause(ctx)
	c.LoadDag(ccancel2, ch2)
	if cctx2.Err() != nil {
		t.Fatalf("setup: node C did not load: %v", context.Cause(cctx2))
	}
	if err := c.AddLeaf(ctx, &stripped); err == nil {
		t.Errorf("F-C04-2: countersigned transaction with its receiver signature STRIPPED was admitted by another node")
	}
}
