package gossip

// Demonstration for finding F-C15-1 on the gossip service: digests/hashes of the wrong length and
// absent sub-messages panic the handlers and the sync / missing-parent conversion.
//   cp to src/gossip/zz_demo_test.go ; go test -run TestVerifDemoGossip -count=1 ./gossip

import (
	"context"
	"testing"

	"github.com/bartossh/Computantis/src/protobufcompiled"
	"github.com/bartossh/Computantis/src/wallet"
)

func noPanic(t *testing.T, name string, f func()) {
	defer func() {
		if p := recover(); p != nil {
			t.Errorf("%s: PANIC %v", name, p)
		}
	}()
	f()
}

func TestVerifDemoGossip(t *testing.T) {
	w, _ := wallet.New()
	g := &gossiper{verifier: wallet.NewVerifier(), signer: &w, nodes: map[string]nodeData{}}
	ctx := context.Background()
	noPanic(t, "Announce short digest", func() { g.Announce(ctx, &protobufcompiled.ConnectionData{Digest: []byte{1, 2}}) })
	noPanic(t, "Discover short digest", func() { g.Discover(ctx, &protobufcompiled.ConnectionData{Digest: []byte{1, 2}}) })
	noPanic(t, "GetVertex short hash", func() { g.GetVertex(ctx, &protobufcompiled.SignedHash{Hash: []byte{1}}) })
	noPanic(t, "sync: vertex without transaction", func() { mapProtoVertexToAccountantVertex(&protobufcompiled.Vertex{}) })
	noPanic(t, "sync: vertex with short hashes", func() {
		mapProtoVertexToAccountantVertex(&protobufcompiled.Vertex{Transaction: &protobufcompiled.Transaction{Hash: make([]byte, 32), Spice: &protobufcompiled.Spice{}}, Hash: []byte{1}})
	})
}
