package accountant

// Demonstration for findings F-C08-2/3: a DAG stream whose consumer goes away (a joining peer that
// disconnects; gossip.LoadDag cancels the context it passed) leaves the streaming goroutine parked
// in `cVrx <- vrx` while the graph walker holds the graph read lock for it: the next proposal
// blocks in AddVertexByID with the ledger lock held and the node is wedged.
//   go test -run TestVerifDemoAbandonedStream -count=1 ./accountant

import (
	"context"
	"fmt"
	"math"
	"testing"
	"time"

	"github.com/bartossh/Computantis/src/logging"
	"github.com/bartossh/Computantis/src/spice"
	"github.com/bartossh/Computantis/src/stdoutwriter"
	"github.com/bartossh/Computantis/src/transaction"
	"github.com/bartossh/Computantis/src/wallet"
)

func TestVerifDemoAbandonedStream(t *testing.T) {
	ctx, cancel := context.WithCancel(context.Background())
	defer cancel()
	l := logging.New(func(error) {}, func(error) {}, &stdoutwriter.Logger{})
	verifier := wallet.NewVerifier()
	signer, _ := wallet.New()
	ab, err := NewAccountingBook(ctx, Config{}, verifier, &signer, l)
	if err != nil {
		t.Fatal(err)
	}
	holder, _ := wallet.New()
	if _, err := ab.CreateGenesis("GENESIS", spice.New(math.MaxUint64-1, 0), []byte{}, holder.Address()); err != nil {
		t.Fatal(err)
	}
	receiver, _ := wallet.New()
	for i := 0; i < 150; i++ { // more than the stream buffer (100)
		trx, _ := transaction.New(fmt.Sprintf("t%d", i), spice.New(1, 0), []byte{}, receiver.Address(), &holder)
		if _, err := ab.CreateLeaf(ctx, &trx); err != nil {
			t.Fatal(err)
		}
	}
	sctx, scancel := context.WithCancel(ctx)
	c := ab.StreamDAG(sctx)
	<-c       // the peer reads one vertex …
	scancel() // … and goes away (gossip.LoadDag: defer cancel())
	time.Sleep(200 * time.Millisecond)

	done := make(chan error, 1)
	go func() {
		trx, _ := transaction.New("after", spice.New(1, 0), []byte{}, receiver.Address(), &holder)
		_, err := ab.CreateLeaf(ctx, &trx)
		done <- err
	}()
	select {
	case err := <-done:
		if err != nil {
			t.Fatalf("proposal after abandoned stream failed: %v", err)
		}
	case <-time.After(5 * time.Second):
		t.Fatal("WEDGED: proposal after an abandoned DAG stream did not return within 5s")
	}
}
