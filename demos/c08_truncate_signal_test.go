package accountant

// Demonstration for finding F-C08-4: `truncateSignal <- w` (buffer 50) is executed with the ledger
// lock held, while the only receiver (runTruncate) needs the ledger lock inside truncate() before it
// receives again. Schedule: truncation becomes due while more than 50 proposals are already queued on
// the ledger lock ahead of truncate(); each of them sends one signal, the 51st blocks in the send with
// the lock held, truncate() never gets the lock, nothing ever receives: node wedged.
// The test holds the ledger lock itself to build that queue deterministically (it stands for one slow
// admission) and injects the weight signal a vertex of weight 5000 would have produced.
//   go test -run TestVerifDemoTruncateSignal -count=1 ./accountant

import (
	"context"
	"fmt"
	"math"
	"sync"
	"testing"
	"time"

	"github.com/bartossh/Computantis/src/logging"
	"github.com/bartossh/Computantis/src/spice"
	"github.com/bartossh/Computantis/src/stdoutwriter"
	"github.com/bartossh/Computantis/src/transaction"
	"github.com/bartossh/Computantis/src/wallet"
)

func TestVerifDemoTruncateSignal(t *testing.T) {
	ctx, cancel := context.WithCancel(context.Background())
	defer cancel()
	l := logging.New(func(error) {}, func(error) {}, &stdoutwriter.Logger{})
	verifier := wallet.NewVerifier()
	signer, _ := wallet.New()
	ab, err := NewAccountingBook(ctx, Config{Truncate: 2000}, verifier, &signer, l)
	if err != nil {
		t.Fatal(err)
	}
	holder, _ := wallet.New()
	if _, err := ab.CreateGenesis("GENESIS", spice.New(math.MaxUint64-1, 0), []byte{}, holder.Address()); err != nil {
		t.Fatal(err)
	}
	receiver, _ := wallet.New()

	ab.mux.Lock() // one slow admission holds the ledger lock
	const n = 70
	var wg sync.WaitGroup
	for i := 0; i < n; i++ {
		wg.Add(1)
		go func(i int) {
			defer wg.Done()
			trx, _ := transaction.New(fmt.Sprintf("t%d", i), spice.New(1, 0), []byte{}, receiver.Address(), &holder)
			ab.CreateLeaf(ctx, &trx)
		}(i)
	}
	time.Sleep(300 * time.Millisecond) // all proposals are queued on the ledger lock
	ab.truncateSignal <- 5000          // truncation becomes due: runTruncate → truncate() queues behind them
	time.Sleep(300 * time.Millisecond)
	ab.mux.Unlock()

	done := make(chan struct{})
	go func() { wg.Wait(); close(done) }()
	select {
	case <-done:
	case <-time.After(20 * time.Second):
		t.Fatal("WEDGED: proposals queued ahead of a due truncation never completed (sender blocked on truncateSignal with the ledger lock held)")
	}
}
