package accountant

// Demonstration for finding F-C10-1: one wallet has 256 valid addresses, the sealing guards compare strings.
// An address is base58(version ‖ public key ‖ checksum(version ‖ public key)). wallet.Helper.AddressToPubKey
// reads the version byte, feeds it into the checksum and never compares it with the wallet version (0):
// for every other version byte the same public key has another address string that verifies.
// The guards of C10 (issuer ≠ sealer, issuer ≠ genesis wallet) compare address strings, so the wallet that
// runs a node issues a transaction under an alias of its own address and seals it itself — locally
// (CreateLeaf) and as seen by every other node (AddLeaf).
//   go test -run TestVerifDemoAliasAddress -count=1 ./accountant

import (
	"bytes"
	"context"
	"crypto/sha256"
	"math"
	"testing"

	"github.com/bartossh/Computantis/src/logging"
	"github.com/bartossh/Computantis/src/serializer"
	"github.com/bartossh/Computantis/src/spice"
	"github.com/bartossh/Computantis/src/stdoutwriter"
	"github.com/bartossh/Computantis/src/transaction"
	"github.com/bartossh/Computantis/src/wallet"
)

type aliasSigner struct {
	w     *wallet.Wallet
	alias string
}

func (a aliasSigner) Sign(message []byte) ([32]byte, []byte) { return a.w.Sign(message) }
func (a aliasSigner) Address() string                        { return a.alias }

func aliasOf(w *wallet.Wallet, version byte) string {
	payload := append([]byte{version}, w.Public...)
	h1 := sha256.Sum256(payload)
	h2 := sha256.Sum256(h1[:])
	return string(serializer.Base58Encode(append(payload, h2[:w.ChecksumLength()]...)))
}

func TestVerifDemoAliasAddress(t *testing.T) {
	ctx, cancel := context.WithCancel(context.Background())
	defer cancel()
	l := logging.New(func(error) {}, func(error) {}, &stdoutwriter.Logger{})
	verifier := wallet.NewVerifier()
	node, _ := wallet.New()
	ab, err := NewAccountingBook(ctx, Config{Truncate: 2000}, verifier, &node, l)
	if err != nil {
		t.Fatal(err)
	}
	holder, _ := wallet.New()
	genesis, err := ab.CreateGenesis("GENESIS", spice.New(math.MaxUint64-1, 0), []byte{}, holder.Address())
	if err != nil {
		t.Fatal(err)
	}
	receiver, _ := wallet.New()

	alias := aliasOf(&node, 1)
	if alias == node.Address() {
		t.Fatal("alias equals the address")
	}
	key, err := verifier.AddressToPubKey(alias)
	if err != nil {
		t.Skipf("the alias address is refused (%v): one key has one address", err)
	}
	if !bytes.Equal(key, node.Public) {
		t.Fatal("alias resolves to another key")
	}

	// control: under its own address the node's wallet is refused
	own, _ := transaction.New("own", spice.New(0, 0), []byte("contract"), receiver.Address(), &node)
	if _, err := ab.CreateLeaf(ctx, &own); err != ErrCannotTransferFoundsViaOwnedNode {
		t.Fatalf("control: expected the self-sealing refusal, got %v", err)
	}

	trx, err := transaction.New("self", spice.New(0, 0), []byte("contract"), receiver.Address(), aliasSigner{&node, alias})
	if err != nil {
		t.Fatal(err)
	}
	vrx, err := ab.CreateLeaf(ctx, &trx)
	if err == nil {
		t.Errorf("SELF-SEALED: the node sealed vertex %x carrying a transaction issued by its own wallet (issuer %s and sealer %s resolve to the same key)", vrx.Hash[:4], trx.IssuerAddress, vrx.SignerPublicAddress)
	}

	// a second node admits the self-sealed vertex from gossip
	other, _ := wallet.New()
	ab2, err := NewAccountingBook(ctx, Config{Truncate: 2000}, verifier, &other, l)
	if err != nil {
		t.Fatal(err)
	}
	ch := make(chan *Vertex, 1)
	ch <- &genesis
	close(ch)
	ctxL, cancelL := context.WithCancelCause(ctx)
	ab2.LoadDag(cancelL, ch)
	if !ab2.DagLoaded() {
		t.Fatalf("second node did not load: %v", context.Cause(ctxL))
	}
	if err == nil {
		if err2 := ab2.AddLeaf(ctx, &vrx); err2 == nil {
			t.Errorf("SELF-SEALED vertex admitted from gossip by another node")
		}
	}
}
