package notaryserver

// Demonstration for finding F-C17-2: anybody can remove somebody else's awaiting contract.
// The awaiting cache keeps three kinds of records in ONE key space: "trx-<hex hash>" (the transaction),
// "address-<address>" (the per-address list) and the cached balance of an address under the bare address
// string. After sealing a spice transfer the notary invalidates the cached balances of both parties with
// cache.RemoveBalance(trx.ReceiverAddress) — a Delete under a string the issuer chose freely: nothing
// checks that the receiver address of a transfer is an address. A transfer "to" the string
// "trx-<hex of the hash of an awaiting contract>" (68 characters, longer than the minimal address length)
// deletes that contract's record: it disappears from the waiting lists of its issuer and receiver, the
// receiver can neither confirm nor reject it any more. A transfer "to" "address-<victim>" drops the
// victim's whole list. The attacker needs a wallet and nothing else (the funds of a proposed transfer are
// validated only when the next vertex is built on it).
//   go test -run TestVerifDemoBalanceKeyClobbersAwaiting -count=1 ./notaryserver

import (
	"context"
	"encoding/hex"
	"testing"
	"time"

	"github.com/bartossh/Computantis/src/accountant"
	"github.com/bartossh/Computantis/src/cache"
	"github.com/bartossh/Computantis/src/dataprovider"
	"github.com/bartossh/Computantis/src/protobufcompiled"
	"github.com/bartossh/Computantis/src/spice"
	"github.com/bartossh/Computantis/src/transaction"
	"github.com/bartossh/Computantis/src/transformers"
	"github.com/bartossh/Computantis/src/wallet"
)

type demoNopLogger struct{}

func (demoNopLogger) Debug(string) {}
func (demoNopLogger) Info(string)  {}
func (demoNopLogger) Warn(string)  {}
func (demoNopLogger) Error(string) {}
func (demoNopLogger) Fatal(string) {}

type demoNopTele struct{}

func (demoNopTele) CreateUpdateObservableHistogram(string, string) {}
func (demoNopTele) RecordHistogramTime(string, time.Duration) bool { return true }
func (demoNopTele) RecordHistogramValue(string, float64) bool      { return true }

type demoPipe struct{}

func (demoPipe) SendTrx(*protobufcompiled.Transaction) bool { return true }
func (demoPipe) SendVrx(*accountant.Vertex) bool            { return true }

// demoServer wires the notary server with the real awaited transactions cache, the real flashback,
// the real signature verifier, the real challenge store and a real accounting book holding a genesis vertex.
func demoServer(t *testing.T, ctx context.Context) (*server, *accountant.AccountingBook, *cache.Hippocampus) {
	t.Helper()
	node, err := wallet.New()
	if err != nil {
		t.Fatal(err)
	}
	ab, err := accountant.NewAccountingBook(ctx, accountant.Config{}, wallet.NewVerifier(), &node, demoNopLogger{})
	if err != nil {
		t.Fatal(err)
	}
	genesisReceiver, err := wallet.New()
	if err != nil {
		t.Fatal(err)
	}
	if _, err := ab.CreateGenesis("GENESIS", spice.New(1_000_000, 0), []byte{}, genesisReceiver.Address()); err != nil {
		t.Fatal(err)
	}
	hippo, err := cache.New(32*10_000, 128)
	if err != nil {
		t.Fatal(err)
	}
	flash, err := cache.NewFlash()
	if err != nil {
		t.Fatal(err)
	}
	s := &server{
		randDataProv: dataprovider.New(ctx, dataprovider.Config{Longevity: 60}),
		tele:         demoNopTele{},
		log:          demoNopLogger{},
		verifier:     wallet.NewVerifier(),
		acc:          ab,
		cache:        hippo,
		flash:        flash,
		piper:        demoPipe{},
		dataSize:     1 << 20,
	}
	return s, ab, hippo
}

func demoAwaiting(hippo *cache.Hippocampus, address string, hash [32]byte) bool {
	trxs, _ := hippo.ReadTransactions(address)
	for _, trx := range trxs {
		if trx.Hash == hash {
			return true
		}
	}
	return false
}

func TestVerifDemoBalanceKeyClobbersAwaiting(t *testing.T) {
	ctx, cancel := context.WithCancel(context.Background())
	defer cancel()
	s, _, hippo := demoServer(t, ctx)

	issuer, _ := wallet.New()
	receiver, _ := wallet.New()
	attacker, _ := wallet.New()

	contract, err := transaction.New("contract", spice.New(10, 0), []byte("the receiver has to agree to this"), receiver.Address(), &issuer)
	if err != nil {
		t.Fatal(err)
	}
	pc, err := transformers.TrxToProtoTrx(contract)
	if err != nil {
		t.Fatal(err)
	}
	if _, err := s.Propose(ctx, pc); err != nil {
		t.Fatalf("propose of the contract failed: %s", err)
	}
	if !demoAwaiting(hippo, receiver.Address(), contract.Hash) || !demoAwaiting(hippo, issuer.Address(), contract.Hash) {
		t.Fatal("the proposed contract is not awaiting")
	}

	// the attacker proposes a plain transfer whose "receiver address" is the cache key of the contract
	target := "trx-" + hex.EncodeToString(contract.Hash[:])
	transfer, err := transaction.New("transfer", spice.New(1, 0), []byte{}, target, &attacker)
	if err != nil {
		t.Fatal(err)
	}
	pt, err := transformers.TrxToProtoTrx(transfer)
	if err != nil {
		t.Fatal(err)
	}
	if _, err := s.Propose(ctx, pt); err != nil {
		t.Skipf("the transfer to a string that is no address is refused (%v): the key spaces cannot meet", err)
	}
	time.Sleep(300 * time.Millisecond) // the invalidation of the cached balances runs in a goroutine

	if !demoAwaiting(hippo, receiver.Address(), contract.Hash) {
		t.Errorf("REMOVED BY A STRANGER: the contract %x is no longer awaiting its receiver, who never confirmed nor rejected it", contract.Hash[:4])
	}
	if !demoAwaiting(hippo, issuer.Address(), contract.Hash) {
		t.Errorf("REMOVED BY A STRANGER: the contract %x is no longer listed for its issuer", contract.Hash[:4])
	}
}
