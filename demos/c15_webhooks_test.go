package webhooksserver

// Demonstration for finding F-C15-1 on the webhooks service.
//   cp to src/webhooksserver/zz_demo_test.go ; go test -run TestVerifDemoWebhooks -count=1 ./webhooksserver

import (
	"context"
	"testing"

	"github.com/bartossh/Computantis/src/protobufcompiled"
	"github.com/bartossh/Computantis/src/wallet"
)

func TestVerifDemoWebhooks(t *testing.T) {
	defer func() {
		if p := recover(); p != nil {
			t.Fatalf("PANIC %v", p)
		}
	}()
	a := &app{ver: wallet.NewVerifier()}
	a.Webhooks(context.Background(), &protobufcompiled.SignedHash{Hash: []byte{1, 2, 3}})
}
