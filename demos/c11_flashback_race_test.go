package cache

// Demonstration for finding F-C11-1 (reported by a seeding sub-agent): Flashback.HasHash is a
// non-atomic Get followed by a deferred Set. Two copies of the same gossip item delivered to a node at
// the same time both read "not seen" and both are processed and forwarded: for an awaiting transaction
// (whose second save is only logged) the node forwards the same item twice inside one suppression window.
//   cp to src/cache/zz_demo_test.go ; go test -run TestVerifDemoFlashbackRace -count=1 ./cache

import (
	"crypto/sha256"
	"fmt"
	"sync"
	"sync/atomic"
	"testing"
)

func TestVerifDemoFlashbackRace(t *testing.T) {
	f, err := NewFlash()
	if err != nil {
		t.Fatal(err)
	}
	dups := 0
	for round := 0; round < 3000; round++ {
		h := sha256.Sum256([]byte(fmt.Sprintf("item-%d", round)))
		var notSeen atomic.Int32
		var wg sync.WaitGroup
		start := make(chan struct{})
		for g := 0; g < 16; g++ {
			wg.Add(1)
			go func() {
				defer wg.Done()
				<-start
				if seen, _ := f.HasHash(h[:]); !seen {
					notSeen.Add(1)
				}
			}()
		}
		close(start)
		wg.Wait()
		if notSeen.Load() > 1 {
			dups++
		}
	}
	if dups > 0 {
		t.Fatalf("in %d of 3000 rounds more than one of 16 simultaneous deliveries of the same hash was told 'not seen yet'", dups)
	}
}
