package accountant

// Demonstration for finding F-C15-5: one accepted vertex gossip stops the node.
// The weight of a received vertex is the sender's claim: admission only bounds it from below
// (isValidWeight) and the signature covers whatever the sealer wrote. An admitted vertex signals its
// weight to runTruncate; with a claimed weight above the truncate mark the truncation starts on a
// ledger that is shallower than truncateDiff, the depth walk ends without reaching the depth, the
// zero hash it hands back is not a vertex, the ancestors walk fails with "id unknown" and
// runTruncate reports that with log.Fatal - which cmd/node turns into a panic in a goroutine.
// Any wallet holder that can dial the gossip port can send that vertex (GossipVrx → AddLeaf);
// the RPC itself is answered with success.
//   go test -run TestVerifDemoClaimedWeight -count=1 ./accountant

import (
	"context"
	"fmt"
	"math"
	"sync/atomic"
	"testing"
	"time"

	"github.com/bartossh/Computantis/src/logging"
	"github.com/bartossh/Computantis/src/spice"
	"github.com/bartossh/Computantis/src/stdoutwriter"
	"github.com/bartossh/Computantis/src/transaction"
	"github.com/bartossh/Computantis/src/wallet"
)

func TestVerifDemoClaimedWeight(t *testing.T) {
	ctx, cancel := context.WithCancel(context.Background())
	defer cancel()
	var fatal atomic.Value
	l := logging.New(func(error) {}, func(err error) { fatal.Store(err.Error()) }, &stdoutwriter.Logger{})
	verifier := wallet.NewVerifier()
	signer, _ := wallet.New()
	ab, err := NewAccountingBook(ctx, Config{Truncate: 2000}, verifier, &signer, l)
	if err != nil {
		t.Fatal(err)
	}
	holder, _ := wallet.New()
	if _, err := ab.CreateGenesis("GENESIS", spice.New(math.MaxUint64-1, 0), []byte{}, holder.Address()); err != nil {
		t.Fatal(err)
	}
	receiver, _ := wallet.New()
	var tips [2][32]byte
	for i := 0; i < 6; i++ {
		trx, _ := transaction.New(fmt.Sprintf("t%d", i), spice.New(1, 0), []byte{}, receiver.Address(), &holder)
		v, err := ab.CreateLeaf(ctx, &trx)
		if err != nil {
			t.Fatal(err)
		}
		tips[i%2] = v.Hash
	}

	stranger, _ := wallet.New() // not this node, not a trusted node: just a wallet
	someone, _ := wallet.New()
	trx, _ := transaction.New("contract", spice.New(0, 0), []byte("data"), receiver.Address(), &someone)
	vrx, err := NewVertex(trx, tips[0], tips[1], 1<<40, &stranger)
	if err != nil {
		t.Fatal(err)
	}
	if err := ab.AddLeaf(ctx, &vrx); err != nil {
		t.Fatalf("the vertex was expected to be admitted, got %v", err)
	}
	time.Sleep(2 * time.Second)
	if msg := fatal.Load(); msg != nil {
		t.Fatalf("NODE STOPPED: an admitted vertex with a claimed weight of 2^40 on a ledger of 8 vertices made the truncate loop call log.Fatal(%q); cmd/node panics on it", msg)
	}
	trx2, _ := transaction.New("after", spice.New(1, 0), []byte{}, receiver.Address(), &holder)
	if _, err := ab.CreateLeaf(ctx, &trx2); err != nil {
		t.Fatalf("the node does not take proposals any more: %v", err)
	}
}
