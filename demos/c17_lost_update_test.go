package cache

// Demonstration for finding F-C17-1: concurrent saves for the same receiver lose entries of the
// per-address list (read-modify-write on the concurrent cache without a lock).
//   cp to src/cache/zz_demo_test.go ; go test -run TestVerifDemoLostUpdate -count=1 ./cache

import (
	"crypto/sha256"
	"fmt"
	"sync"
	"testing"
	"time"

	"github.com/bartossh/Computantis/src/transaction"
)

func TestVerifDemoLostUpdate(t *testing.T) {
	h, err := New(4096, 64)
	if err != nil {
		t.Fatal(err)
	}
	const workers, per = 8, 40
	var wg sync.WaitGroup
	for w := 0; w < workers; w++ {
		wg.Add(1)
		go func(w int) {
			defer wg.Done()
			for i := 0; i < per; i++ {
				trx := transaction.Transaction{
					CreatedAt: time.Now(), Subject: "s", IssuerAddress: fmt.Sprintf("issuer%d", w), ReceiverAddress: "receiver",
					Hash: sha256.Sum256([]byte(fmt.Sprintf("%d-%d", w, i))), IssuerSignature: []byte{1}, Data: []byte{1},
				}
				if err := h.SaveAwaitedTransaction(&trx); err != nil {
					t.Errorf("save: %v", err)
				}
			}
		}(w)
	}
	wg.Wait()
	trxs, err := h.ReadTransactions("receiver")
	if err != nil {
		t.Fatal(err)
	}
	if len(trxs) != workers*per {
		t.Fatalf("LOST ENTRIES: %d awaiting transactions saved for the receiver, %d listed", workers*per, len(trxs))
	}
}
