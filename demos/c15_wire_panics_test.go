package transformers

// Demonstration for findings F-C15-1/2: protobuf-decodable requests crash the handler.
// notary Propose/Confirm and gossip GossipTrx pass the request straight to ProtoTrxToTrx:
// a 3-byte hash panics the slice→array conversion, an absent spice sub-message is a nil dereference.
// The gRPC servers are created without a recovery interceptor, so the process dies.
//   cp to src/transformers/zz_demo_test.go ; go test -run TestVerifDemoWire -count=1 ./transformers

import (
	"testing"

	"github.com/bartossh/Computantis/src/protobufcompiled"
)

func try(t *testing.T, name string, in *protobufcompiled.Transaction) {
	defer func() {
		if p := recover(); p != nil {
			t.Errorf("%s: PANIC %v", name, p)
		}
	}()
	if _, err := ProtoTrxToTrx(in); err == nil {
		t.Errorf("%s: malformed message accepted", name)
	}
}

func TestVerifDemoWire(t *testing.T) {
	base := func() *protobufcompiled.Transaction {
		return &protobufcompiled.Transaction{Subject: "s", IssuerAddress: "a", ReceiverAddress: "b", CreatedAt: 1,
			IssuerSignature: []byte{1}, Hash: make([]byte, 32), Spice: &protobufcompiled.Spice{}}
	}
	short := base()
	short.Hash = []byte{1, 2, 3}
	try(t, "short hash", short)
	nospice := base()
	nospice.Spice = nil
	try(t, "absent spice", nospice)
}
