package aeswrapper

// Demonstration for finding F-C20-1: an encrypted wallet file truncated below the nonce size (what a
// crash during save leaves behind) panics Decrypt / ReadWallet instead of returning an error.
//   cp to src/aeswrapper/zz_demo_test.go ; go test -run TestVerifDemoShortFile -count=1 ./aeswrapper

import "testing"

func TestVerifDemoShortFile(t *testing.T) {
	key := make([]byte, 32)
	for n := 0; n < 12; n++ {
		func() {
			defer func() {
				if p := recover(); p != nil {
					t.Errorf("len %d: PANIC %v", n, p)
				}
			}()
			if _, err := New().Decrypt(key, make([]byte, n)); err == nil {
				t.Errorf("len %d: accepted", n)
			}
		}()
	}
}
