#!/bin/sh
# Re-runs everything that produces committed artefacts: every check (quick tier → evidence/<id>.json),
# the sensitivity suite (evidence/sensitivity.json), the neutral-edit suite (evidence/neutral.json) and
# the seed × check matrix (seeded/*/meta.json). Nothing here changes a verdict.
export GOFLAGS=-mod=mod GOPROXY=off GOSUMDB=off GOTOOLCHAIN=local
unset GOWORK
cd /verif/vcheck && go build -o /verif/bin/vcheck . || exit 2
cd /verif
rc=0
for p in $(/verif/bin/vcheck -list); do
  /verif/bin/vcheck -p "$p" -tier quick | head -1 || rc=1
done
[ "$1" = "--checks-only" ] && exit $rc
python3 mutants/run.py -j 8 | tail -1
python3 mutants/neutral.py -j 3 | grep -v "^silent" ; echo "neutral done"
python3 seeded/matrix.py -j 4
exit $rc
