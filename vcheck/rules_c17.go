package main

// C17 — the awaiting-transaction index never loses or invents entries (structural part).

import (
	"fmt"
	"go/constant"
	"go/token"
	"go/types"
	"strings"

	"golang.org/x/tools/go/ssa"
)

const hipMux = "cache.Hippocampus.mux"

func init() {
	register("C17", []string{"./cache"},
		"Structural necessary conditions of the awaiting-transaction index being exact under concurrency: every Hippocampus method that reads the shared cache and later writes it (read-modify-write of the per-address lists) "+
			"holds one exclusive lock of the receiver at every cache access; the entry is deleted only behind the 'caller is the receiver' comparison on the decoded transaction; "+
			"both the issuer's and the receiver's address keys flow into the list updates of save and remove. Sequential equivalence with a map model and expiry are not decided.",
		runC17)
}

func runC17(w *World, r *Report) {
	r.NotDecided = []string{"sequential model equivalence (list encoding/decoding correctness)", "expiry / eviction by bigcache", "linearizability of reads against writes beyond mutual exclusion"}
	fns := w.RepoFuncs("cache")
	scope := func(fn *ssa.Function) bool { return fn.Pkg != nil && fn.Pkg.Pkg.Path() == modPath+"/cache" }
	li := ComputeLocks(w, scope)

	memCall := func(c ssa.CallInstruction) string {
		n := calleeName(c)
		pre := "(*" + bigPkg + ".BigCache)."
		if strings.HasPrefix(n, pre) {
			recv, _ := callArgs(c)
			if recv != nil && strings.HasSuffix(pathOf(recv), ".mem") {
				return strings.TrimPrefix(n, pre)
			}
		}
		return ""
	}
	r.rule("rmw-atomic", "a Hippocampus method that both reads and writes the shared cache holds the receiver's exclusive lock at every cache access", 8)
	nRMW := 0
	for _, fn := range fns {
		if fn.Parent() != nil || fn.Signature.Recv() == nil || !strings.Contains(fn.Signature.Recv().Type().String(), "Hippocampus") {
			continue
		}
		r.seen(shortFn(fn))
		var reads, writes []ssa.CallInstruction
		for _, f := range WithAnon(fn) {
			instrsOf(f, func(in ssa.Instruction) {
				if c, ok := in.(ssa.CallInstruction); ok {
					switch memCall(c) {
					case "Get":
						reads = append(reads, c)
					case "Set", "Delete", "Append":
						writes = append(writes, c)
					}
				}
			})
		}
		if len(reads) == 0 || len(writes) == 0 {
			continue
		}
		nRMW++
		for _, c := range append(reads, writes...) {
			held := li.At(c)
			r.check(held.Has(hipMux, "W"), "rmw-atomic", shortFn(fn)+"/mem."+memCall(c), lineOf(w, c),
				"cache access inside a read-modify-write method holds "+hipMux+" exclusively", "lockset "+held.String()+": two overlapping calls can interleave between Get and Set and lose an entry")
		}
	}
	r.Extra["rmw_methods"] = nRMW
	if nRMW < 3 {
		r.bad("rmw-atomic", "methods", "-", "SaveAwaitedTransaction, RemoveAwaitedTransaction and ReadTransactions are read-modify-write methods", fmt.Sprintf("found %d", nRMW))
	}

	// receiver-only removal
	r.rule("receiver-only-removal", "the awaiting entry is deleted only behind the equality of the decoded transaction's ReceiverAddress with the caller-supplied address", 1)
	rem := w.Func("cache", "Hippocampus", "RemoveAwaitedTransaction")
	save := w.Func("cache", "Hippocampus", "SaveAwaitedTransaction")
	if rem == nil || save == nil {
		r.bad("analyser", "cache.Hippocampus", "-", "anchor methods must resolve", "not found")
		return
	}
	addrParam := rem.Params[len(rem.Params)-1]
	eq := edgesWhere(rem, func(f fact) bool {
		if f.kind != fEq {
			return false
		}
		px, py := pathOf(f.x), pathOf(f.y)
		a := addrParam.Name()
		return (strings.HasSuffix(px, ".ReceiverAddress") && py == a) || (strings.HasSuffix(py, ".ReceiverAddress") && px == a)
	})
	// the compared transaction must be the one decoded from the entry read under the same key
	for _, c := range callsTo(rem) {
		_ = c
	}
	nDel := 0
	instrsOf(rem, func(in ssa.Instruction) {
		c, ok := in.(ssa.CallInstruction)
		if !ok {
			return
		}
		switch memCall(c) {
		case "Delete", "Set":
			nDel++
			r.check(len(eq) > 0 && mustCross(rem, c.Block(), eq), "receiver-only-removal", "RemoveAwaitedTransaction/mem."+memCall(c), lineOf(w, c),
				"every mutation in RemoveAwaitedTransaction lies behind trx.ReceiverAddress == address", "mutation reachable without passing the receiver comparison")
		}
	})
	// binding: the compared trx originates from Decode(Get(trxKey)) and the deleted key is that trxKey
	bindOK := false
	var why string
	for _, e := range eq {
		for _, f := range edgeFacts(e) {
			if f.kind != fEq {
				continue
			}
			for _, side := range []ssa.Value{f.x, f.y} {
				p := pathOf(side)
				if !strings.HasSuffix(p, ".ReceiverAddress") {
					continue
				}
				// base of the compared field: a local struct variable assigned from Decode(...)
				var decodeCalls []*ssa.Call
				if ld, ok := side.(*ssa.UnOp); ok {
					if fa, ok := ld.X.(*ssa.FieldAddr); ok {
						if al, ok := fa.X.(*ssa.Alloc); ok {
							for _, ref := range *al.Referrers() {
								if st, ok := ref.(*ssa.Store); ok && st.Addr == ssa.Value(al) {
									for _, o := range origins(st.Val) {
										if ex, ok := o.(*ssa.Extract); ok {
											if dc, ok := ex.Tuple.(*ssa.Call); ok && calleeName(dc) == cn("transaction", "", "Decode") {
												decodeCalls = append(decodeCalls, dc)
											}
										}
									}
								}
							}
						}
					}
				}
				if len(decodeCalls) == 0 {
					why = "compared transaction is not the decoded entry: " + p
				}
				for _, dc := range decodeCalls {
					_, args := callArgs(dc)
					if len(args) != 1 {
						continue
					}
					for _, o := range origins(args[0]) {
						ex, ok := o.(*ssa.Extract)
						if !ok {
							continue
						}
						gc, ok := ex.Tuple.(*ssa.Call)
						if !ok || memCall(gc) != "Get" {
							continue
						}
						_, gargs := callArgs(gc)
						instrsOf(rem, func(in ssa.Instruction) {
							if c, ok := in.(ssa.CallInstruction); ok && memCall(c) == "Delete" {
								_, dargs := callArgs(c)
								if len(dargs) == 1 && len(gargs) == 1 && sameVal(dargs[0], gargs[0]) {
									bindOK = true
								}
							}
						})
					}
				}
			}
		}
	}
	r.check(bindOK, "receiver-only-removal", "RemoveAwaitedTransaction/binding", w.Pos(rem.Pos()),
		"the compared transaction is decoded from the entry stored under the very key that is deleted", why)

	// both sides listed
	r.rule("both-sides-listed", "in save and remove both trx.IssuerAddress and trx.ReceiverAddress flow through encodeAddressKey into the key of a per-address list update", 4)
	for _, fn := range []*ssa.Function{save, rem} {
		keys := map[string]bool{}
		for _, d := range deepCalls(fn, func(c ssa.CallInstruction) bool { return memCall(c) == "Set" }, deepDepth) {
			_, args := callArgs(d.c)
			for _, o := range origins(d.argValue(args[0])) {
				if kc, ok := o.(*ssa.Call); ok && strings.HasSuffix(calleeName(kc), ".encodeAddressKey") {
					p := pathOf(kc.Call.Args[0])
					if i := strings.LastIndex(p, "."); i >= 0 {
						keys[p[i+1:]] = true
					}
				}
			}
		}
		for _, side := range []string{"IssuerAddress", "ReceiverAddress"} {
			r.check(keys[side], "both-sides-listed", shortFn(fn)+"/"+side, w.Pos(fn.Pos()),
				"the list stored under encodeAddressKey(trx."+side+") is updated", "no mem.Set whose key originates from encodeAddressKey(trx."+side+")")
		}
	}

	// reading prunes only what is really gone: a hash leaves the list because ITS transaction entry was not found
	r.rule("prune-only-the-missing", "ReadTransactions rewrites an address list only by removing hashes whose own transaction entry was missing (or by keeping hashes whose entry was found): position in the list decides nothing", 1)
	if rt := w.Func("cache", "Hippocampus", "ReadTransactions"); rt != nil {
		fns := withHelpers(rt, 1)
		isTrxGet := func(c ssa.CallInstruction) bool {
			if calleeName(c) != "(*"+bigPkg+".BigCache).Get" {
				return false
			}
			_, a := callArgs(c)
			for _, o := range origins(a[0]) {
				if kc, ok := o.(*ssa.Call); ok && strings.HasSuffix(calleeName(kc), ".encodeTrxKey") {
					return true
				}
			}
			return false
		}
		lookup := func(pass func(ssa.CallInstruction) []Edge) gspec {
			return func(fn2 *ssa.Function, _ resolver) []Edge {
				var es []Edge
				instrsOf(fn2, func(in ssa.Instruction) {
					if c, ok := in.(ssa.CallInstruction); ok && isTrxGet(c) {
						es = append(es, pass(c)...)
					}
				})
				return es
			}
		}
		// edges of each function on which "the entry of this hash was found / was missing" is known — directly or through a
		// helper that reports it (error result, or an `ok` among several results)
		foundIn := map[*ssa.Function][]Edge{}
		missingIn := map[*ssa.Function][]Edge{}
		for _, fn := range fns {
			for _, ff := range WithAnon(fn) {
				foundIn[ff] = deepEdges(ff, idRes, lookup(passErrNil), 1)
				missingIn[ff] = deepEdges(ff, idRes, lookup(failErrNonNil), 1)
			}
		}
		nMut := 0
		for _, fn := range fns {
			for _, c := range callsToDeep(fn, cn("cache", "", "remove"), cn("cache", "", "add"), cn("cache", "", "set")) {
				nMut++
				name := shortCallee(c)
				_, a := callArgs(c)
				ok := false
				why := ""
				switch name {
				case "remove":
					// the removed hash was collected behind the not-found edge of its own entry lookup
					h := a[len(a)-1]
					// either the removal itself sits behind the not-found edge of the lookup, or the hash is an element of
					// a local list every append to which sits behind such an edge
					missing := missingIn[c.Parent()]
					ok = behind(c.(ssa.Instruction), missing)
					if !ok {
						if ld, isLd := h.(*ssa.UnOp); isLd {
							if ia, isIA := ld.X.(*ssa.IndexAddr); isIA {
								apps := appendsFeeding(ia.X)
								if prm, isParam := ia.X.(*ssa.Parameter); isParam { // the list of stale hashes is handed in by the caller
									hfn := prm.Parent()
									for k, p2 := range hfn.Params {
										if p2 != prm {
											continue
										}
										for _, cs := range staticCallers(w, hfn) {
											if k < len(cs.Common().Args) {
												apps = append(apps, appendsFeeding(cs.Common().Args[k])...)
											}
										}
									}
								}
								ok = len(apps) > 0
								for _, ap := range apps {
									if !behind(ap, missingIn[ap.Parent()]) {
										ok = false
									}
								}
							}
						}
					}
					why = "the removed hash was not collected behind the not-found edge of its own transaction lookup"
				default:
					// a list rebuilt from the hashes that were found
					ok = behind(c.(ssa.Instruction), foundIn[c.Parent()])
					why = "a hash is kept in the rewritten list without its transaction having been found in this read"
				}
				r.check(ok, "prune-only-the-missing", "ReadTransactions/"+name, lineOf(w, c), "the list is rewritten hash by hash, by what the lookup of that hash returned", why)
			}
		}
		if nMut == 0 {
			r.ok("prune-only-the-missing", "ReadTransactions/none", w.Pos(rt.Pos()), "ReadTransactions does not rewrite lists")
		}
	}

	listUpdateIterationLocal(w, r, "list-update-is-iteration-local")

	// the cache keeps ONE entry per 64-bit key hash and drops the older of two keys with the same hash without comparing
	// them: a key hash supplied by the repository has to depend on the whole key
	r.rule("key-hash-covers-the-whole-key", "no Sum64(key string) uint64 method of the repository (a bigcache.Hasher) returns a value computed from a fixed-length part of the key (a reslice with constant bounds, or a tail key[len(key)-c:])", 0)
	nHash := 0
	for _, fn := range w.RepoFuncs() {
		if fn.Name() != "Sum64" || fn.Signature.Recv() == nil || fn.Signature.Params().Len() != 1 || fn.Signature.Results().Len() != 1 {
			continue
		}
		if b, ok := fn.Signature.Params().At(0).Type().Underlying().(*types.Basic); !ok || b.Kind() != types.String {
			continue
		}
		nHash++
		why := partialKeyHash(w, fn)
		r.check(why == "", "key-hash-covers-the-whole-key", shortFn(fn), w.Pos(fn.Pos()), "the key hash depends on the whole key", why+" keys that agree on that part get the same hash, and the cache silently replaces the entry of the first by the second")
	}
	if nHash == 0 {
		r.ok("key-hash-covers-the-whole-key", "none", "-", "the repository supplies no key hash: the cache uses its own (FNV-1a over the whole key)")
	}

	// one cache, several kinds of records: every key is built by an encoder that puts the kind in front, and the kinds differ.
	// A record kept under a bare caller-supplied string (the cached balance under the address) shares the key space of the
	// index: whoever chooses that string chooses which record a write or a delete hits
	r.rule("cache-key-spaces-are-disjoint", "every key the Hippocampus methods hand to the shared cache (Get / Set / Delete / Append) comes out of a key encoder of package cache — a function returning fmt.Sprintf(\"%s-%s\", <constant prefix>, …) — and the prefixes of the encoders are pairwise different: no record kind is addressed by a bare string of the caller", 9)
	{
		encPrefix := map[*ssa.Function]string{}
		for _, fn := range fns {
			if fn.Parent() != nil || fn.Signature.Recv() != nil || fn.Signature.Results().Len() != 1 {
				continue
			}
			rets := returnsOf(fn)
			if len(rets) != 1 {
				continue
			}
			sc, ok := rets[0].Results[0].(*ssa.Call)
			if !ok || calleeName(sc) != "fmt.Sprintf" {
				continue
			}
			if k, ok := sc.Call.Args[0].(*ssa.Const); !ok || k.Value == nil || constant.StringVal(k.Value) != "%s-%s" {
				continue
			}
			parts := sliceLitElems(sc.Call.Args[1])
			if len(parts) != 2 {
				continue
			}
			p0 := parts[0]
			if mi, ok := p0.(*ssa.MakeInterface); ok {
				p0 = mi.X
			}
			if k, ok := p0.(*ssa.Const); ok && k.Value != nil && k.Value.Kind() == constant.String {
				encPrefix[fn] = constant.StringVal(k.Value)
			}
		}
		seenPrefix := map[string]string{}
		dup := ""
		for fn, p := range encPrefix {
			if other, ok := seenPrefix[p]; ok {
				dup += fmt.Sprintf(" %s and %s both use the prefix %q;", other, shortFn(fn), p)
			}
			seenPrefix[p] = shortFn(fn)
		}
		r.check(dup == "" && len(encPrefix) >= 2, "cache-key-spaces-are-disjoint", "encoders", "-", fmt.Sprintf("%d key encoders with pairwise different constant prefixes", len(encPrefix)), dup)
		for _, fn := range fns {
			if fn.Signature.Recv() == nil && fn.Parent() == nil {
				continue
			}
			top := fn
			for top.Parent() != nil {
				top = top.Parent()
			}
			if top.Signature.Recv() == nil || !strings.Contains(top.Signature.Recv().Type().String(), "Hippocampus") {
				continue
			}
			instrsOf(fn, func(in ssa.Instruction) {
				c, ok := in.(ssa.CallInstruction)
				if !ok {
					return
				}
				op := memCall(c)
				if op != "Get" && op != "Set" && op != "Delete" && op != "Append" {
					return
				}
				_, a := callArgs(c)
				if len(a) == 0 {
					return
				}
				var bare []string
				var visit func(v ssa.Value, d int)
				visit = func(v ssa.Value, d int) {
					for _, o := range origins(v) {
						switch x := o.(type) {
						case *ssa.Call:
							if cal := x.Call.StaticCallee(); cal != nil && encPrefix[cal] != "" {
								continue
							}
							bare = append(bare, calleeName(x))
						case *ssa.Parameter:
							if (x.Parent() != top || x.Parent().Object() != nil && !x.Parent().Object().Exported()) && d < 2 && len(staticCallers(w, x.Parent())) > 0 { // a helper that is handed the key: what its callers pass
								for _, cs := range staticCallers(w, x.Parent()) {
									for k, p2 := range x.Parent().Params {
										if p2 == x && k < len(cs.Common().Args) {
											visit(cs.Common().Args[k], d+1)
										}
									}
								}
								continue
							}
							bare = append(bare, "the caller's string "+x.Name())
						default:
							bare = append(bare, pathOf(o))
						}
					}
				}
				visit(a[0], 0)
				r.check(len(bare) == 0, "cache-key-spaces-are-disjoint", shortFn(top)+"/mem."+op+"("+pathOf(a[0])+")", lineOf(w, c), "the key is built by a key encoder", "the key is "+strings.Join(uniqStrings(bare), ", ")+": a string the caller chooses can be the key of an awaiting transaction or of an address list")
			})
		}
	}

	// reading a list whose entries are all there writes nothing: the cache is a ring per shard, every write appends a copy
	// and pushes the oldest entries of that shard out — a read path that always writes turns polling into eviction of
	// other parties' awaiting transactions
	r.rule("consistent-list-is-read-without-writing", "ReadTransactions can return a non-nil list of transactions along a path on which no cache write (Set / Delete / Append) is executed: the rewrite of the list depends on something having been found missing", 1)
	if rt := w.Func("cache", "Hippocampus", "ReadTransactions"); rt != nil {
		clean := false
		walkFrom(nil, rt.Blocks[0], nil, func(x ssa.Instruction) bool {
			if c, ok := x.(ssa.CallInstruction); ok {
				switch memCall(c) {
				case "Set", "Delete", "Append":
					return true
				}
				if h := samePkgHelper(rt, c); h != nil {
					// a helper counts as a write when no way through it avoids writing (a helper that writes once per
					// missing hash writes nothing when nothing is missing)
					avoid := false
					walkFrom(nil, h.Blocks[0], nil, func(y ssa.Instruction) bool {
						if hc, ok := y.(ssa.CallInstruction); ok {
							switch memCall(hc) {
							case "Set", "Delete", "Append":
								return true
							}
						}
						if _, isRet := y.(*ssa.Return); isRet {
							avoid = true
							return true
						}
						return false
					})
					if !avoid {
						return true
					}
				}
			}
			if ret, ok := x.(*ssa.Return); ok && len(ret.Results) > 0 {
				vals, zero := resultVals(ret, 0)
				if !zero {
					for _, v := range vals {
						if k, isK := v.(*ssa.Const); !isK || k.Value != nil {
							clean = true
						}
					}
				}
				return true
			}
			return false
		})
		r.check(clean, "consistent-list-is-read-without-writing", "ReadTransactions", w.Pos(rt.Pos()), "a read that finds every listed transaction leaves the cache untouched", "every path that returns a list passes a cache write: each poll of a list appends a copy of it to its shard and pushes older entries — other parties' awaiting transactions — out")
	}

	// the list of an address goes away only when it is empty
	r.rule("index-key-deleted-only-when-empty", "a per-address list (a key built by encodeAddressKey) is deleted from the cache only behind the test that the list just read under that key is empty (len == 0): a shortcut that takes a short list for 'only the hash being removed' drops whatever else the list holds", 2)
	nDel = 0
	for _, fn := range fns {
		instrsOf(fn, func(in ssa.Instruction) {
			c, ok := in.(ssa.CallInstruction)
			if !ok || memCall(c) != "Delete" {
				return
			}
			_, a := callArgs(c)
			if len(a) < 1 {
				return
			}
			isAddrKey := false
			var keyOrigins []ssa.Value
			for _, o := range origins(a[0]) {
				if prm, isPrm := o.(*ssa.Parameter); isPrm { // the key is handed to a helper: what the callers pass
					for _, cs := range staticCallers(w, prm.Parent()) {
						for k, p2 := range prm.Parent().Params {
							if p2 == prm && k < len(cs.Common().Args) {
								keyOrigins = append(keyOrigins, origins(cs.Common().Args[k])...)
							}
						}
					}
					continue
				}
				keyOrigins = append(keyOrigins, o)
			}
			for _, o := range keyOrigins {
				if kc, ok := o.(*ssa.Call); ok && strings.HasSuffix(calleeName(kc), ".encodeAddressKey") {
					isAddrKey = true
				}
			}
			if !isAddrKey {
				return
			}
			nDel++
			// the lists read under this key in this function
			var lists []string
			instrsOf(in.Parent(), func(in2 ssa.Instruction) {
				if g, ok := in2.(ssa.CallInstruction); ok && memCall(g) == "Get" {
					_, ga := callArgs(g)
					if len(ga) > 0 && pathOf(ga[0]) == pathOf(a[0]) {
						if rv := resultAt(g, 0); rv != nil {
							lists = append(lists, pathOf(rv))
						}
					}
				}
			})
			var empty []Edge
			for _, b := range in.Parent().Blocks {
				for i := range b.Succs {
					e := Edge{b, i}
					for _, pf := range pfactsOnEdge(e) {
						if pf.kind != kLenMax0 {
							continue
						}
						for _, l := range lists {
							if pf.path == l {
								empty = append(empty, e)
							}
						}
					}
				}
			}
			r.check(len(empty) > 0 && behind(in, empty), "index-key-deleted-only-when-empty", shortFn(in.Parent())+"/mem.Delete("+pathOf(a[0])+")", lineOf(w, c),
				"the list is deleted only when the list read under the same key is empty", "the deletion of the list is not behind len(list) == 0 for the list read under that key: entries of other transactions of this address go with it")
		})
	}
	if nDel == 0 {
		r.ok("index-key-deleted-only-when-empty", "none", "-", "no per-address list is ever deleted")
	}

	// once the transaction entry is written, every address of the transaction gets its list entry unless the cache itself
	// fails: a refusal decided from the content or size of a list at that point leaves one party listed and the other not
	r.rule("listing-not-refused-after-the-entry-is-stored", "in SaveAwaitedTransaction an iteration of the loop over the two addresses reaches the next one without writing the list only on the failure edge of a cache call (or for an empty key): no data-dependent skip", 1)
	if sv := w.Func("cache", "Hippocampus", "SaveAwaitedTransaction"); sv != nil {
		var cut []Edge
		instrsOf(sv, func(in ssa.Instruction) {
			if c, ok := in.(ssa.CallInstruction); ok && memCall(c) != "" {
				cut = append(cut, failErrNonNil(c)...)
			}
		})
		for _, b := range sv.Blocks {
			for i := range b.Succs {
				for _, ft := range edgeFacts(Edge{b, i}) {
					if ft.kind == fEq {
						for _, v := range []ssa.Value{ft.x, ft.y} {
							if k, ok := v.(*ssa.Const); ok && k.Value != nil && k.Value.ExactString() == `""` {
								cut = append(cut, Edge{b, i})
							}
						}
					}
				}
			}
		}
		nLoops := 0
		for _, hdr := range sv.Blocks {
			if hdr.Comment != "rangeindex.loop" || len(hdr.Succs) != 2 {
				continue
			}
			nLoops++
			skipped := 0
			// a helper that writes the list on every way to its return that is not a cache failure counts as the write
			helperWrites := func(h *ssa.Function) bool {
				var hcut []Edge
				instrsOf(h, func(in ssa.Instruction) {
					if c, ok := in.(ssa.CallInstruction); ok && memCall(c) != "" {
						hcut = append(hcut, failErrNonNil(c)...)
					}
				})
				bare := 0
				walkFrom(nil, h.Blocks[0], edgeSet(hcut), func(x ssa.Instruction) bool {
					if c, ok := x.(ssa.CallInstruction); ok && memCall(c) == "Set" {
						return true
					}
					if _, isRet := x.(*ssa.Return); isRet {
						bare++
						return true
					}
					return false
				})
				return bare == 0
			}
			walkFrom(nil, hdr.Succs[0], edgeSet(cut), func(x ssa.Instruction) bool {
				if c, ok := x.(ssa.CallInstruction); ok && memCall(c) == "Set" {
					return true
				}
				if c, ok := x.(ssa.CallInstruction); ok {
					if h := samePkgHelper(sv, c); h != nil && helperWrites(h) {
						return true
					}
				}
				if x.Block() == hdr {
					skipped++
					return true
				}
				return false
			})
			r.check(skipped == 0, "listing-not-refused-after-the-entry-is-stored", "SaveAwaitedTransaction/address-loop", w.Pos(sv.Pos()), "each address is listed unless the cache fails", fmt.Sprintf("%d ways to the next address without writing the list that are not cache failures", skipped))
		}
		if nLoops == 0 {
			r.ok("listing-not-refused-after-the-entry-is-stored", "SaveAwaitedTransaction/no-loop", w.Pos(sv.Pos()), "the addresses are not handled in a loop")
		}
	}

	// a repeated save changes nothing: the entry and the two lists were written together and expire together; rewriting
	// one of them on the "already exists" answer lets it outlive the others
	r.rule("repeated-save-writes-nothing", "in SaveAwaitedTransaction the edge on which the transaction's entry is found to exist reaches the return without any cache write", 1)
	if sv := w.Func("cache", "Hippocampus", "SaveAwaitedTransaction"); sv != nil {
		var firstGet ssa.CallInstruction
		var existsEdges []Edge
		instrsOf(sv, func(in ssa.Instruction) {
			c, ok := in.(ssa.CallInstruction)
			if !ok || firstGet != nil {
				return
			}
			if memCall(c) == "Get" {
				firstGet = c
				existsEdges = passErrNil(c)
				return
			}
			// the existence test in a read-only helper that answers (found bool, err error)
			if h := samePkgHelper(sv, c); h != nil && h.Signature.Results().Len() >= 1 && isBoolType(h.Signature.Results().At(0).Type()) {
				gets, wr := 0, 0
				instrsOf(h, func(y ssa.Instruction) {
					if hc, ok := y.(ssa.CallInstruction); ok {
						switch memCall(hc) {
						case "Get":
							gets++
						case "Set", "Delete", "Append":
							wr++
						}
					}
				})
				if gets > 0 && wr == 0 {
					firstGet = c
					existsEdges = passBool(c, 0, true)
				}
			}
		})
		if firstGet == nil {
			r.bad("repeated-save-writes-nothing", "SaveAwaitedTransaction/exists-test", w.Pos(sv.Pos()), "the existence test of the entry is found", "no Get")
		} else {
			writes := 0
			for _, e := range existsEdges {
				walkFrom(nil, e.To(), nil, func(x ssa.Instruction) bool {
					if c, ok := x.(ssa.CallInstruction); ok {
						switch memCall(c) {
						case "Set", "Delete", "Append":
							writes++
							return true
						}
					}
					_, isRet := x.(*ssa.Return)
					return isRet
				})
			}
			r.check(writes == 0 && len(existsEdges) > 0, "repeated-save-writes-nothing", "SaveAwaitedTransaction/exists-edge", lineOf(w, firstGet), "the 'already exists' answer leaves the cache as it was", fmt.Sprintf("%d cache writes are reachable from the edge on which the entry exists", writes))
		}
	}

	// a list helper does not build its result inside the list it is still reading (bytes.Split returns sub-slices of its
	// argument: writing into a reslice of that argument rewrites the parts not yet visited)
	r.rule("list-rebuilt-outside-its-input", "in the cache package no function appends into, or stores through, a reslice of a []byte parameter that it also splits and walks (the in-place filter overwrites entries it has not read yet when a separator is put in front)", 0)
	nSplit := 0
	for _, fn := range fns {
		for _, prm := range fn.Params {
			if st, ok := prm.Type().Underlying().(*types.Slice); !ok || !isByte(st.Elem()) {
				continue
			}
			split := false
			for _, ref := range *prm.Referrers() {
				if c, ok := ref.(*ssa.Call); ok {
					n := calleeName(c)
					if strings.HasPrefix(n, "bytes.Split") || strings.HasPrefix(n, "bytes.Fields") || strings.HasPrefix(n, "bytes.Cut") {
						split = true
					}
				}
			}
			if !split {
				continue
			}
			nSplit++
			var at ssa.Instruction
			for _, ref := range *prm.Referrers() {
				sl, ok := ref.(*ssa.Slice)
				if !ok || sl.X != ssa.Value(prm) {
					continue
				}
				seen := map[ssa.Value]bool{}
				var follow func(v ssa.Value)
				follow = func(v ssa.Value) {
					if v == nil || seen[v] || at != nil {
						return
					}
					seen[v] = true
					for _, r2 := range *v.Referrers() {
						switch x := r2.(type) {
						case *ssa.Phi:
							follow(x)
						case *ssa.Slice:
							follow(x)
						case *ssa.Call:
							if b, ok := x.Call.Value.(*ssa.Builtin); ok && b.Name() == "append" && len(x.Call.Args) > 0 && x.Call.Args[0] == v {
								at = x
								return
							}
							if b, ok := x.Call.Value.(*ssa.Builtin); ok && b.Name() == "copy" && len(x.Call.Args) > 0 && x.Call.Args[0] == v {
								at = x
								return
							}
						case *ssa.IndexAddr:
							for _, r3 := range *x.Referrers() {
								if stx, ok := r3.(*ssa.Store); ok && stx.Addr == ssa.Value(x) {
									at = stx
									return
								}
							}
						}
					}
				}
				follow(sl)
			}
			why := ""
			if at != nil {
				why = fmt.Sprintf("%s splits %s and walks the parts while it writes into a reslice of %s at %s", shortFn(fn), prm.Name(), prm.Name(), lineOf(w, at))
			}
			r.check(at == nil, "list-rebuilt-outside-its-input", shortFn(fn)+"/"+prm.Name(), w.Pos(fn.Pos()), "the result is built in storage of its own", why)
		}
	}
	if nSplit == 0 {
		r.ok("list-rebuilt-outside-its-input", "none", "-", "no function splits a byte-slice parameter")
	}

	// the awaiting index owns its key space: nothing else in the cache writes under an index key
	r.rule("index-keys-private", "every write to the cache under a key built by encodeAddressKey / encodeTrxKey sits in the awaiting-index functions, and those functions write under no other keys (the balance entries share the cache: a shared key would let one clobber the other)", 6)
	indexFns := map[string]bool{"SaveAwaitedTransaction": true, "RemoveAwaitedTransaction": true, "ReadTransactions": true}
	nWrites := 0
	for _, fn := range w.RepoFuncs("cache") {
		owner := fn
		for owner.Parent() != nil {
			owner = owner.Parent()
		}
		instrsOf(fn, func(in ssa.Instruction) {
			c, ok := in.(ssa.CallInstruction)
			if !ok {
				return
			}
			op := memCall(c)
			if op != "Set" && op != "Delete" && op != "Append" {
				return
			}
			_, args := callArgs(c)
			var isEncoded func(v ssa.Value, inFn *ssa.Function, depth int) bool
			isEncoded = func(v ssa.Value, inFn *ssa.Function, depth int) bool {
				for _, o := range origins(v) {
					if kc, ok := o.(*ssa.Call); ok && (strings.HasSuffix(calleeName(kc), ".encodeAddressKey") || strings.HasSuffix(calleeName(kc), ".encodeTrxKey")) {
						return true
					}
					// the key is a parameter of an unexported helper: every call site must pass an encoded key
					if prm, ok := o.(*ssa.Parameter); ok && depth < 2 && inFn.Object() != nil && !inFn.Object().Exported() {
						callers := staticCallers(w, inFn)
						all := len(callers) > 0
						for _, cs := range callers {
							found := false
							for k, p := range inFn.Params {
								if p == prm && k < len(cs.Common().Args) {
									found = isEncoded(cs.Common().Args[k], ownerFn(cs.Parent()), depth+1)
								}
							}
							if !found {
								all = false
							}
						}
						if all {
							return true
						}
					}
				}
				return false
			}
			encoded := isEncoded(args[0], owner, 0)
			nWrites++
			isIndex := indexFns[refName(owner)]
			// helpers extracted from the index functions are reached only from them
			if !isIndex && owner.Object() != nil && !owner.Object().Exported() {
				callers := staticCallers(w, owner)
				isIndex = len(callers) > 0
				for _, cs := range callers {
					top := cs.Parent()
					for top.Parent() != nil {
						top = top.Parent()
					}
					if !indexFns[refName(top)] {
						isIndex = false
					}
				}
			}
			r.check(encoded == isIndex, "index-keys-private", shortFn(fn)+"/"+op, lineOf(w, c),
				"index keys are written only by the awaiting-index functions; other entries use other keys", fmt.Sprintf("key-built-by-index-encoder=%v in-index-function=%v", encoded, isIndex))
		})
	}
	if nWrites == 0 {
		r.bad("index-keys-private", "cache/writes", "-", "the cache is written", "no Set/Delete found")
	}
}

func ownerFn(fn *ssa.Function) *ssa.Function {
	for fn.Parent() != nil {
		fn = fn.Parent()
	}
	return fn
}

// loopCarried: does value v (followed through helper calls, append, slicing, conversions and φ) depend on a φ at the
// header of a loop that contains block at — i.e. on what an earlier iteration computed — or on a variable that lives
// outside that loop and is assigned inside it?
func loopCarried(v ssa.Value, at *ssa.BasicBlock, seen map[ssa.Value]bool, d int) string {
	if v == nil || seen[v] || d > 12 {
		return ""
	}
	seen[v] = true
	switch x := v.(type) {
	case *ssa.Phi:
		hb := x.Block()
		header := false
		for _, p := range hb.Preds {
			if hb.Dominates(p) {
				header = true
			}
		}
		if header && onCycleWith(hb, at) {
			for i, e := range x.Edges {
				if hb.Dominates(hb.Preds[i]) && e != ssa.Value(x) {
					if _, isConst := e.(*ssa.Const); !isConst {
						return "value " + x.Name() + " (" + x.Comment + ") is carried from one iteration of the loop to the next"
					}
				}
			}
		}
		for _, e := range x.Edges {
			if s := loopCarried(e, at, seen, d+1); s != "" {
				return s
			}
		}
	case *ssa.Call:
		for _, a := range x.Call.Args {
			switch a.Type().Underlying().(type) {
			case *types.Slice, *types.Map, *types.Pointer:
				if s := loopCarried(a, at, seen, d+1); s != "" {
					return s
				}
			}
		}
	case *ssa.Slice:
		return loopCarried(x.X, at, seen, d+1)
	case *ssa.ChangeType:
		return loopCarried(x.X, at, seen, d+1)
	case *ssa.Convert:
		return loopCarried(x.X, at, seen, d+1)
	case *ssa.Extract:
		return loopCarried(x.Tuple, at, seen, d+1)
	case *ssa.UnOp:
		if al, ok := x.X.(*ssa.Alloc); ok && x.Op == token.MUL && isSourceVar(al) {
			if !onCycleWith(al.Block(), at) { // declared outside the loop
				for _, ref := range *al.Referrers() {
					if st, ok := ref.(*ssa.Store); ok && st.Addr == ssa.Value(al) && onCycleWith(st.Block(), at) {
						return "variable " + al.Comment + " is declared outside the loop and assigned inside it"
					}
				}
			}
		}
	}
	return ""
}

func isByte(t types.Type) bool {
	b, ok := t.Underlying().(*types.Basic)
	return ok && b.Kind() == types.Uint8
}

// bigMemCall: the bigcache operation behind a call on a `.mem` field ("" otherwise).
func bigMemCall(c ssa.CallInstruction) string {
	n := calleeName(c)
	pre := "(*" + bigPkg + ".BigCache)."
	if strings.HasPrefix(n, pre) {
		recv, _ := callArgs(c)
		if recv != nil && strings.HasSuffix(pathOf(recv), ".mem") {
			return strings.TrimPrefix(n, pre)
		}
	}
	return ""
}

// listUpdateIterationLocal: what one address is told about must not come from another address's list (shared by C16: the
// waiting list of a caller holds only the caller's transactions; and C17).
func listUpdateIterationLocal(w *World, r *Report, rule string) {
	// a list written inside a loop over addresses is built from what was read for THAT address in this iteration
	r.rule(rule, "a per-address list written inside a loop does not depend on a value carried over from an earlier iteration of that loop (another address's list)", 1)
	nLoopSets := 0
	for _, fn := range w.RepoFuncs("cache") {
		instrsOf(fn, func(in ssa.Instruction) {
			c, ok := in.(ssa.CallInstruction)
			if !ok || bigMemCall(c) != "Set" {
				return
			}
			sb := in.Block()
			if !onCycleWith(sb, sb) {
				return
			}
			nLoopSets++
			_, a := callArgs(c)
			if len(a) < 2 {
				return
			}
			carried := loopCarried(a[1], sb, map[ssa.Value]bool{}, 0)
			r.check(carried == "", rule, shortFn(fn)+"/mem.Set("+pathOf(a[0])+")", lineOf(w, c),
				"the list stored for an address derives from this iteration's read of that address (or is fresh)", carried)
		})
	}
	if nLoopSets == 0 {
		r.ok(rule, "none", "-", "no list is written inside a loop")
	}

}

// partialKeyHash: does a return value of the key hash fn depend on the key only through a reslice with constant bounds
// (a fixed-length part of the key)? Keys that agree on that part collide whatever else they contain; bigcache drops the
// older entry of two keys with the same 64-bit hash without comparing the keys.
func partialKeyHash(w *World, fn *ssa.Function) string {
	if len(fn.Params) == 0 {
		return ""
	}
	key := fn.Params[len(fn.Params)-1]
	out := ""
	for _, ret := range returnsOf(fn) {
		if len(ret.Results) == 0 {
			continue
		}
		whole, partial := false, ""
		seen := map[ssa.Value]bool{}
		var walk func(v ssa.Value, cut string, d int)
		walk = func(v ssa.Value, cut string, d int) {
			if v == nil || d > 14 || seen[v] && cut == "" {
				return
			}
			seen[v] = true
			switch x := v.(type) {
			case *ssa.Parameter:
				if x == key {
					if cut == "" {
						whole = true
					} else if partial == "" {
						partial = cut
					}
				}
			case *ssa.Slice:
				c2 := cut
				_, loK := intConst(x.Low)
				_, hiK := intConst(x.High)
				lowRel := false
				if x.Low != nil {
					if b := boundOf(x.Low); b.ok && b.isLen && b.c < 0 {
						lowRel = true // x[len(x)-c:]: a fixed-length tail
					}
				}
				if x.High != nil && hiK || x.Low != nil && loK && x.High != nil || lowRel {
					c2 = "the reslice at " + lineOf(w, x)
				}
				walk(x.X, c2, d+1)
			case *ssa.Call:
				for _, a := range x.Call.Args {
					walk(a, cut, d+1)
				}
			case *ssa.Extract:
				walk(x.Tuple, cut, d+1)
			case *ssa.BinOp:
				walk(x.X, cut, d+1)
				walk(x.Y, cut, d+1)
			case *ssa.UnOp:
				walk(x.X, cut, d+1)
			case *ssa.Convert:
				walk(x.X, cut, d+1)
			case *ssa.ChangeType:
				walk(x.X, cut, d+1)
			case *ssa.Phi:
				for _, e := range x.Edges {
					walk(e, cut, d+1)
				}
			case *ssa.Lookup:
				walk(x.X, cut, d+1)
				walk(x.Index, cut, d+1)
			case *ssa.Index:
				walk(x.X, cut, d+1)
			case *ssa.IndexAddr:
				walk(x.X, cut, d+1)
			}
		}
		walk(ret.Results[0], "", 0)
		_ = whole
		if partial != "" {
			out += fmt.Sprintf(" the value returned at %s depends on the key through %s (a fixed-length part of it);", lineOf(w, ret), partial)
		}
	}
	return out
}
