package main

// C20 — a wallet file yields the original wallet or an error, never anything else (structural part).

import (
	"fmt"
	"go/token"
	"go/types"
	"os"
	"strings"

	"golang.org/x/tools/go/ssa"
)

// noDroppedErrors: in fn every fallible step (call returning error, comma-ok type assertion) is
// checked: no return that may report success is reachable from the step without crossing its
// success edge, unless the return propagates the step's own error.
func noDroppedErrors(w *World, r *Report, rule string, fn *ssa.Function) {
	ei := errIndex(fn)
	if ei < 0 {
		return
	}
	maySucceed := func(ret *ssa.Return, own ssa.Value) bool {
		vals, zero := resultVals(ret, ei)
		if zero {
			return true
		}
		for _, v := range vals {
			if own != nil && sameVal(v, own) {
				continue // propagates the step's error
			}
			if k, _ := classifyErr(v, ret.Block()); k != nNonNil {
				return true
			}
		}
		return false
	}
	instrsOf(fn, func(in ssa.Instruction) {
		switch x := in.(type) {
		case *ssa.Call:
			if x.Call.IsInvoke() == false && x.Call.StaticCallee() == nil {
				if _, isB := x.Call.Value.(*ssa.Builtin); isB {
					return
				}
			}
			sig := x.Call.Signature()
			n := sig.Results().Len()
			if n == 0 || !isErrorType(sig.Results().At(n-1).Type()) {
				return
			}
			key := shortFn(fn) + "/" + shortCallee(x)
			ev := errResult(x)
			if ev == nil {
				r.bad(rule, key, lineOf(w, x), "error result of a fallible step must be checked", "error result is discarded")
				return
			}
			cut := edgeSet(errNilEdges(fn, ev))
			var bad []ssa.Instruction
			walkFrom(x, nil, cut, func(i ssa.Instruction) bool {
				if ret, ok := i.(*ssa.Return); ok {
					if maySucceed(ret, ev) {
						bad = append(bad, ret)
					}
					return true
				}
				return false
			})
			msg := ""
			if len(bad) > 0 {
				msg = fmt.Sprintf("a return that may report success (%s) is reachable without passing the err == nil edge of %s", lineOf(w, bad[0]), shortCallee(x))
			}
			r.check(len(bad) == 0, rule, key, lineOf(w, x), "success is reported only behind the success edge of "+shortCallee(x), msg)
		case *ssa.TypeAssert:
			if !x.CommaOk {
				return
			}
			var okv ssa.Value
			for _, ref := range *x.Referrers() {
				if e, ok := ref.(*ssa.Extract); ok && e.Index == 1 {
					okv = e
				}
			}
			key := shortFn(fn) + "/assert(" + types.TypeString(x.AssertedType, func(p *types.Package) string { return p.Name() }) + ")"
			if okv == nil {
				r.bad(rule, key, lineOf(w, x), "comma-ok result must be checked", "ok discarded")
				return
			}
			cut := edgeSet(trueEdges(fn, okv))
			nbad := 0
			walkFrom(x, nil, cut, func(i ssa.Instruction) bool {
				if ret, ok := i.(*ssa.Return); ok {
					if maySucceed(ret, nil) {
						nbad++
					}
					return true
				}
				return false
			})
			r.check(nbad == 0, rule, key, lineOf(w, x), "success is reported only behind ok == true", "success return reachable on the !ok path")
		}
	})
}

func init() {
	register("C20", []string{"./aeswrapper", "./fileoperations", "./wallet"},
		"Structural necessary conditions of 'a wallet file yields the original wallet or an error': the nonce/ciphertext split in Decrypt is covered by a dominating length test (no panic on a truncated file), "+
			"Decrypt hands out a plaintext only as the result of AEAD.Open behind its success edge, seal and open use the same nonce size, and ReadWallet / ReadFromPem / DecodeGOBWallet report success only behind the "+
			"success edge of every fallible step. Detection of a wrong key or flipped byte is AES-GCM's guarantee and is trusted, not decided.",
		runC20)
}

func runC20(w *World, r *Report) {
	r.NotDecided = []string{"round-trip equality of key pairs", "that a wrong key / altered byte is detected (AES-GCM authentication, trusted)", "gob decoding of authenticated-but-hostile input"}
	dec := w.Func("aeswrapper", "Helper", "Decrypt")
	enc := w.Func("aeswrapper", "Helper", "Encrypt")
	if dec == nil || enc == nil {
		r.bad("analyser", "aeswrapper.Helper.Decrypt/Encrypt", "-", "anchor functions must resolve", "not found")
		return
	}
	// the wallet's file form is produced and read by pure functions of their input: a buffer shared between calls
	// lets one wallet's bytes be sealed into another wallet's file
	r.rule("wallet-coding-stateless", "the functions that produce or read the wallet's stored form touch no package-level mutable state", 4)
	for _, spec := range [][3]string{{"wallet", "Wallet", "EncodeGOB"}, {"wallet", "", "DecodeGOBWallet"}, {"aeswrapper", "Helper", "Encrypt"}, {"aeswrapper", "Helper", "Decrypt"},
		{"fileoperations", "Helper", "SaveWallet"}, {"fileoperations", "Helper", "ReadWallet"}} {
		if f := w.fx(r, spec[0], spec[1], spec[2]); f != nil {
			statelessObligation(w, r, "wallet-coding-stateless", f.fn)
		}
	}
	// the helper's configuration is read-only: every save and every read seals / opens under the key it was configured
	// with (a helper value is copied around; slices inside it share their bytes)
	r.rule("configured-key-is-never-written", "no byte slice that originates from a field of the file helper (its configured key material) is written to — element stores, copy into it, clear — directly or in a helper it is handed to", 1)
	{
		nTracked, bad := 0, ""
		for _, fn := range w.RepoFuncs("fileoperations") {
			instrsOf(fn, func(in ssa.Instruction) {
				var val, base ssa.Value
				switch x := in.(type) {
				case *ssa.UnOp:
					if x.Op != token.MUL {
						return
					}
					fa, ok := x.X.(*ssa.FieldAddr)
					if !ok {
						return
					}
					val, base = x, baseOf(fa.X)
				case *ssa.Field: // field of a helper passed by value
					val, base = x, baseOf(x.X)
				default:
					return
				}
				if _, isSlice := val.Type().Underlying().(*types.Slice); !isSlice {
					return
				}
				if base == nil || !strings.Contains(base.Type().String(), "fileoperations.Helper") {
					return
				}
				if _, fresh := base.(*ssa.Alloc); fresh && fn.Signature.Recv() == nil {
					return // the helper under construction
				}
				nTracked++
				if at := sliceWrittenTo(w, val, 3, map[ssa.Value]bool{}); at != nil {
					bad += fmt.Sprintf(" %s, loaded in %s, is written at %s;", pathOf(val), shortFn(fn), lineOf(w, at))
				}
			})
		}
		r.check(bad == "", "configured-key-is-never-written", "fileoperations.Helper", "-", fmt.Sprintf("configured byte slices are only read (%d loads followed)", nTracked), bad)
	}

	fe := NewFactEngine(w, w.RepoFuncs("aeswrapper", "fileoperations", "wallet"))
	r.rule("D3-bounds", "the nonce / ciphertext split of the input is covered by a dominating length fact", 2)
	d3Obligations(w, r, fe, "D3-bounds", dec)
	r.seen(shortFn(dec))
	r.seen(shortFn(enc))

	// plaintext only from Open behind its success edge
	r.rule("plaintext-only-from-open", "every return of Decrypt with a non-nil plaintext returns result #0 of AEAD.Open and lies behind Open's err == nil edge", 1)
	opens := callsTo(dec, "(crypto/cipher.AEAD).Open")
	if len(opens) != 1 {
		r.bad("plaintext-only-from-open", "Decrypt/Open", w.Pos(dec.Pos()), "Decrypt must call AEAD.Open exactly once", fmt.Sprintf("%d calls", len(opens)))
	} else {
		open := opens[0]
		pv := resultAt(open, 0)
		ev := errResult(open)
		for _, ret := range returnsOf(dec) {
			vals, zero := resultVals(ret, 0)
			nonNil := zero
			for _, v := range vals {
				if !isNilConst(v) {
					nonNil = true
				}
			}
			if !nonNil {
				continue
			}
			fromOpen := len(vals) == 1 && pv != nil && sameVal(vals[0], pv)
			behind := ev != nil && mustCross(dec, ret.Block(), errNilEdges(dec, ev))
			r.check(fromOpen && behind, "plaintext-only-from-open", "Decrypt/return-plaintext", lineOf(w, ret),
				"returned plaintext is Open's result behind its success edge", fmt.Sprintf("fromOpen=%v behindSuccessEdge=%v", fromOpen, behind))
		}
		// nonce size agreement
		r.rule("nonce-size-agreement", "Encrypt seals with a nonce of the size at which Decrypt splits the input, and the nonce is the sealed prefix", 1)
		var kEnc int64 = -1
		prefixOK := false
		for _, c := range callsTo(enc, "(crypto/cipher.AEAD).Seal") {
			_, args := callArgs(c)
			if len(args) >= 2 {
				switch ms := strip(args[1]).(type) {
				case *ssa.MakeSlice:
					if k, ok := intConst(ms.Len); ok {
						kEnc = k
					}
				case *ssa.Slice: // make([]byte, const) is lowered to new [N]byte + slice[:N]
					if _, isAlloc := ms.X.(*ssa.Alloc); isAlloc && ms.High != nil {
						if k, ok := intConst(ms.High); ok {
							kEnc = k
						}
					}
				}
				prefixOK = sameVal(args[0], args[1])
			}
		}
		_, oargs := callArgs(open)
		var kHigh, kLow int64 = -2, -3
		if len(oargs) >= 3 {
			if s, ok := strip(oargs[1]).(*ssa.Slice); ok && s.High != nil {
				kHigh, _ = intConst(s.High)
			}
			if s, ok := strip(oargs[2]).(*ssa.Slice); ok && s.Low != nil {
				kLow, _ = intConst(s.Low)
			}
		}
		r.check(kEnc == kHigh && kHigh == kLow && prefixOK, "nonce-size-agreement", "Encrypt.Seal/Decrypt.Open", lineOf(w, open),
			"nonce size at seal == split offset at open, nonce is the prefix of the sealed output",
			fmt.Sprintf("seal nonce len=%d, open nonce=data[:%d], ciphertext=data[%d:], nonce-is-prefix=%v", kEnc, kHigh, kLow, prefixOK))
	}

	// the key the cipher is built with is derived from the caller's key in the same way on both sides
	r.rule("cipher-key-derived-alike", "the key handed to aes.NewCipher in Encrypt and in Decrypt has the same derivation from the key parameter: the same set of functions applied on the way (none today — the parameter itself), on every path; a side that stretches, hashes or pads the key where the other does not seals under a key the reader never builds", 1)
	{
		derivation := func(fn *ssa.Function) (string, bool) {
			cs := deepCalls(fn, byName("crypto/aes.NewCipher"), 2)
			if len(cs) == 0 {
				return "", false
			}
			var parts []string
			for _, d := range cs {
				steps := map[string]bool{}
				seen := map[ssa.Value]bool{}
				var walk func(v ssa.Value)
				walk = func(v ssa.Value) {
					if v == nil || seen[v] {
						return
					}
					seen[v] = true
					switch x := v.(type) {
					case *ssa.Parameter:
						if x.Parent() != fn { // a helper's parameter: continue at the call sites on the chain
							steps["param:"+d.path(x)] = true
						} else {
							steps["param:"+x.Name()] = true
						}
					case *ssa.Slice:
						walk(x.X)
					case *ssa.ChangeType:
						walk(x.X)
					case *ssa.Convert:
						walk(x.X)
					case *ssa.Phi:
						for _, e := range x.Edges {
							walk(e)
						}
					case *ssa.Alloc:
						for _, ref := range *x.Referrers() {
							if st, ok := ref.(*ssa.Store); ok && st.Addr == ssa.Value(x) {
								walk(st.Val)
							}
						}
					case *ssa.UnOp:
						walk(x.X)
					case *ssa.Extract:
						walk(x.Tuple)
					case *ssa.Call:
						if b, isB := x.Call.Value.(*ssa.Builtin); isB {
							// append(fresh, key...) is a copy of the key; append(key, …) is a longer key
							if b.Name() == "append" && len(x.Call.Args) == 2 {
								before := len(steps)
								walk(x.Call.Args[0])
								if len(steps) != before {
									for k := range steps {
										if strings.HasPrefix(k, "param:") {
											steps["extended"] = true
										}
									}
								}
								walk(x.Call.Args[1])
							}
							return
						}
						steps["call:"+calleeName(x)] = true
						for _, a := range x.Call.Args {
							walk(a)
						}
					case *ssa.MakeSlice, *ssa.Const:
					default:
						steps[fmt.Sprintf("%T", v)] = true
					}
				}
				_, a := callArgs(d.c)
				if len(a) > 0 {
					walk(a[0])
				}
				var ks []string
				for k := range steps {
					ks = append(ks, k)
				}
				sortStrings(ks)
				parts = append(parts, strings.Join(ks, ","))
			}
			sortStrings(parts)
			return strings.Join(parts, " | "), true
		}
		de, okE := derivation(enc)
		dd, okD := derivation(dec)
		r.check(okE && okD && de == dd, "cipher-key-derived-alike", "Encrypt/Decrypt aes.NewCipher", w.Pos(enc.Pos()), "both sides build the cipher from {"+de+"}", fmt.Sprintf("Encrypt builds the cipher key from {%s}, Decrypt from {%s}", de, dd))
	}

	r.rule("no-dropped-error", "on the wallet read path success is reported only behind the success edge of every fallible step (call returning error, comma-ok assertion)", 8)
	for _, spec := range [][3]string{{"fileoperations", "Helper", "ReadWallet"}, {"fileoperations", "Helper", "ReadFromPem"}, {"aeswrapper", "Helper", "Decrypt"}, {"wallet", "", "DecodeGOBWallet"}} {
		fn := w.Func(spec[0], spec[1], spec[2])
		if fn == nil {
			r.bad("analyser", spec[0]+"."+spec[2], "-", "anchor function must resolve", "not found")
			continue
		}
		r.seen(shortFn(fn))
		noDroppedErrors(w, r, "no-dropped-error", fn)
	}
	// reading yields what is stored or an error: it neither makes a wallet nor writes a file
	r.rule("read-neither-creates-nor-writes", "nothing reachable from ReadWallet / ReadFromPem creates a key pair (wallet.New, ed25519.GenerateKey) or writes, creates, renames or removes a file", 1)
	for _, name := range []string{"ReadWallet", "ReadFromPem"} {
		rf := w.Func("fileoperations", "Helper", name)
		if rf == nil {
			continue
		}
		bad := ""
		for fn := range reachableFuncs(w, rf) {
			instrsOf(fn, func(in ssa.Instruction) {
				c, ok := in.(ssa.CallInstruction)
				if !ok {
					return
				}
				n := calleeName(c)
				switch {
				case n == "os.WriteFile", n == "os.Create", n == "os.Rename", n == "os.Remove", n == "os.RemoveAll", n == "os.Truncate", n == "os.OpenFile", n == "os.CreateTemp", n == "os.Mkdir", n == "os.MkdirAll",
					strings.HasSuffix(n, "wallet.New"), n == "crypto/ed25519.GenerateKey", strings.HasSuffix(n, "Helper).SaveWallet"), strings.HasSuffix(n, "Helper).SaveToPem"):
					bad += " " + shortFn(fn) + " calls " + shortCallee(c) + " at " + lineOf(w, c) + ";"
				}
			})
		}
		r.check(bad == "", "read-neither-creates-nor-writes", name, w.Pos(rf.Pos()), "the read path only reads", bad)
	}

	// a file that is renamed over the wallet file belongs to that wallet alone: its name is made from the whole wallet
	// path (or is a unique temporary); a name shared by the wallets of one directory lets one wallet land in another's file
	r.rule("scratch-file-is-per-wallet", "the source of every os.Rename in the wallet file helpers is a unique temporary file (os.CreateTemp) or a name computed from the complete destination path, never from its directory alone", 0)
	nRen := 0
	for _, fn := range w.RepoFuncs("fileoperations") {
		for _, c := range callsTo(fn, "os.Rename") {
			nRen++
			_, a := callArgs(c)
			isDst := func(v ssa.Value) bool { return sameVal(v, a[1]) || pathOf(v) == pathOf(a[1]) }
			sh := keyShape(a[0], isDst, 0)
			unique := strings.Contains(sh, "CreateTemp") || strings.Contains(sh, "MkdirTemp")
			// occurrences of the destination outside a Dir(...) call
			outside := strings.Contains(strings.ReplaceAll(strings.ReplaceAll(sh, "filepath.Dir($)", ""), "path.Dir($)", ""), "$")
			r.check(unique || outside, "scratch-file-is-per-wallet", shortFn(fn)+"/os.Rename", lineOf(w, c), "the renamed file is this wallet's own",
				fmt.Sprintf("the file renamed over %s is named %s: every wallet of that directory uses the same scratch file", pathOf(a[1]), sh))
		}
	}
	if nRen == 0 {
		r.ok("scratch-file-is-per-wallet", "none", "-", "no file is renamed over a wallet file")
	}

	// two configured paths never share a file: the name of every file the helpers touch keeps the whole configured path
	r.rule("file-name-keeps-the-configured-path", "every file the wallet file helpers read or write is named by a configured path itself or by that path with a constant suffix appended (path + \".pub\"): a name computed from a part of the path (extension stripped, directory only, base name) lets two wallets with different configured paths meet in one file", 4)
	for _, fn := range w.RepoFuncs("fileoperations") {
		for _, c := range callsTo(fn, "os.WriteFile", "os.ReadFile", "os.Open", "os.OpenFile", "os.Create") {
			_, a := callArgs(c)
			if len(a) == 0 {
				continue
			}
			isCfgPath := func(v ssa.Value) bool {
				p := pathOf(v)
				return strings.Contains(p, ".cfg.") && strings.HasSuffix(p, "Path")
			}
			sh := keyShape(a[0], isCfgPath, 0)
			if !strings.Contains(sh, "$") {
				continue // a scratch file (os.CreateTemp …): judged by scratch-file-is-per-wallet
			}
			ok := sh == "$"
			if strings.HasPrefix(sh, "($+k\"") && strings.HasSuffix(sh, "\")") && strings.Count(sh, "$") == 1 {
				ok = true
			}
			r.check(ok, "file-name-keeps-the-configured-path", shortFn(fn)+"/"+shortCallee(c)+"("+sh+")", lineOf(w, c), "the file is named by the whole configured path (plus a constant suffix)",
				"the file name is "+sh+" ($ = the configured path): it does not contain the whole configured path, so different configured paths can name the same file")
		}
	}

	// the file IS the sealed message: every byte of it is nonce, ciphertext or tag, so any damage fails the AEAD. A
	// transformation between the file and the sealer (an armor, a trim, a tolerant decoder) adds bytes or bits that the
	// authentication never sees
	r.rule("file-is-the-sealed-message", "in the wallet file helpers the bytes handed to Decrypt are the bytes os.ReadFile returned and the bytes handed to os.WriteFile next to the wallet path are the bytes Encrypt returned — unchanged: no call, reslice or conversion in between (repo helpers that only pass the value on are seen through)", 2)
	{
		var viaOf func(v ssa.Value, isSrc func(ssa.Value) bool, d int) (found bool, via string)
		viaOf = func(v ssa.Value, isSrc func(ssa.Value) bool, d int) (bool, string) {
			if v == nil || d > 10 {
				return false, ""
			}
			if isSrc(v) {
				return true, ""
			}
			switch x := v.(type) {
			case *ssa.Extract:
				if isSrc(x.Tuple) {
					return true, ""
				}
				if hc, ok := x.Tuple.(*ssa.Call); ok {
					if cal := hc.Call.StaticCallee(); cal != nil && isRepoFunc(cal) && len(cal.Blocks) > 0 {
						okAll, n := true, 0
						for _, ret := range returnsOf(cal) {
							if !successReturn(ret) || x.Index >= len(ret.Results) {
								continue
							}
							n++
							if f, via := viaOf(ret.Results[x.Index], isSrc, d+1); !f || via != "" {
								if via != "" {
									return true, via
								}
								okAll = false
							}
						}
						if okAll && n > 0 {
							return true, ""
						}
						return false, ""
					}
					for _, a := range hc.Call.Args {
						if f, _ := viaOf(a, isSrc, d+1); f {
							return true, calleeName(hc)
						}
					}
					return false, ""
				}
			case *ssa.Call:
				if cal := x.Call.StaticCallee(); cal != nil && isRepoFunc(cal) && len(cal.Blocks) > 0 {
					found, how := false, ""
					for _, ret := range returnsOf(cal) {
						if len(ret.Results) > 0 {
							if f, via := viaOf(ret.Results[0], isSrc, d+1); f {
								found = true
								if via != "" && how == "" {
									how = via
								}
							}
						}
					}
					return found, how
				}
				for _, a := range x.Call.Args {
					if f, _ := viaOf(a, isSrc, d+1); f {
						return true, calleeName(x)
					}
				}
				return false, ""
			case *ssa.Phi:
				for _, e := range x.Edges {
					if f, via := viaOf(e, isSrc, d+1); f {
						return f, via
					}
				}
			case *ssa.Parameter:
				for _, cs := range staticCallers(w, x.Parent()) {
					for k, p2 := range x.Parent().Params {
						if p2 == x && k < len(cs.Common().Args) {
							if f, via := viaOf(cs.Common().Args[k], isSrc, d+1); f {
								return f, via
							}
						}
					}
				}
			case *ssa.Slice:
				if f, _ := viaOf(x.X, isSrc, d+1); f {
					return true, "a reslice"
				}
			case *ssa.Convert:
				if f, _ := viaOf(x.X, isSrc, d+1); f {
					return true, "a conversion"
				}
			case *ssa.UnOp:
				if al, ok := x.X.(*ssa.Alloc); ok && x.Op == token.MUL {
					for _, sv := range reachingStores(x).vals {
						if f, via := viaOf(sv, isSrc, d+1); f {
							return f, via
						}
					}
					_ = al
				}
			}
			return false, ""
		}
		isCallTo := func(names ...string) func(ssa.Value) bool {
			return func(v ssa.Value) bool {
				c, ok := v.(*ssa.Call)
				if !ok {
					return false
				}
				n := calleeName(c)
				for _, nm := range names {
					if n == nm || strings.HasSuffix(n, nm) {
						return true
					}
				}
				return false
			}
		}
		for _, fn := range w.RepoFuncs("fileoperations") {
			instrsOf(fn, func(in ssa.Instruction) {
				c, ok := in.(ssa.CallInstruction)
				if !ok {
					return
				}
				n := calleeName(c)
				switch {
				case strings.HasSuffix(n, ".Decrypt") || c.Common().IsInvoke() && c.Common().Method.Name() == "Decrypt":
					args := c.Common().Args
					if len(args) < 2 {
						return
					}
					f, via := viaOf(args[len(args)-1], isCallTo("os.ReadFile"), 0)
					r.check(f && via == "", "file-is-the-sealed-message", shortFn(fn)+"/Decrypt", lineOf(w, c), "what is opened is what was read from the file",
						"the bytes handed to Decrypt come from the file through "+via+": bytes of the file that this step drops or tolerates are outside the authentication")
				case strings.HasSuffix(n, ".Encrypt") || c.Common().IsInvoke() && c.Common().Method.Name() == "Encrypt":
					// the sealed message goes to a file as it is: some WriteFile of this function takes exactly this result
					isThis := func(v ssa.Value) bool { return v == c.(ssa.Value) }
					direct, how := false, ""
					for _, g := range withHelpers(fn, 1) {
						for _, wc := range callsTo(g, "os.WriteFile", "(*os.File).Write") {
							wa := wc.Common().Args
							if len(wa) < 2 {
								continue
							}
							if f, via := viaOf(wa[1], isThis, 0); f {
								if via == "" {
									direct = true
								} else {
									how = via
								}
							}
						}
					}
					// the sealing may sit in a helper that hands the sealed bytes back: the write is then at its callers
					if !direct && how == "" {
						returned := false
						for _, ret := range returnsOf(fn) {
							for _, rv := range ret.Results {
								if f, via := viaOf(rv, isThis, 0); f && via == "" {
									returned = true
								}
							}
						}
						if returned {
							for _, cs := range staticCallers(w, fn) {
								csv, isVal := cs.(ssa.Value)
								if !isVal {
									continue
								}
								isCall := func(v ssa.Value) bool { return v == csv }
								for _, g := range withHelpers(cs.Parent(), 1) {
									for _, wc := range callsTo(g, "os.WriteFile", "(*os.File).Write") {
										wa := wc.Common().Args
										if len(wa) < 2 {
											continue
										}
										if f, via := viaOf(wa[1], isCall, 0); f {
											if via == "" {
												direct = true
											} else {
												how = via
											}
										}
									}
								}
							}
						}
					}
					why := "no os.WriteFile / (*os.File).Write of this function is handed the result of Encrypt itself"
					if how != "" {
						why = "the bytes written come from Encrypt through " + how
					}
					r.check(direct, "file-is-the-sealed-message", shortFn(fn)+"/Encrypt→WriteFile", lineOf(w, c), "what is written is what the sealer returned", why+": the file holds more than the sealed message, and the surplus is outside the authentication")
				}
			})
		}
	}

	// the saved file holds exactly the sealed bytes: writers replace the file's content
	r.rule("save-replaces-file", "every file opened for writing on the wallet save path truncates (or exclusively creates) it, so that the file holds exactly the bytes just sealed", 2)
	nSinks := 0
	for _, fn := range w.RepoFuncs("fileoperations") {
		for _, c := range callsTo(fn, "os.WriteFile") {
			nSinks++
			r.ok("save-replaces-file", shortFn(fn)+"/os.WriteFile", lineOf(w, c), "os.WriteFile truncates by definition")
		}
		for _, c := range callsTo(fn, "os.OpenFile") {
			flag, isConst := intConst(c.Common().Args[1])
			key := shortFn(fn) + "/os.OpenFile"
			if !isConst {
				r.undecided("save-replaces-file", key, lineOf(w, c), "open flags must be constant to be decided", "non-constant flags")
				continue
			}
			writes := flag&int64(os.O_WRONLY|os.O_RDWR) != 0
			if !writes {
				continue
			}
			nSinks++
			ok := flag&int64(os.O_TRUNC) != 0 || flag&int64(os.O_EXCL) != 0
			r.check(ok, "save-replaces-file", key, lineOf(w, c), "a file opened for writing is truncated or exclusively created",
				fmt.Sprintf("flags %#x lack O_TRUNC/O_EXCL: saving over a longer file leaves its tail behind and the wallet no longer reads back", flag))
		}
	}
	r.Extra["file_write_sinks"] = nSinks

	// pem.Decode returns a nil block for garbage: ReadFromPem must test it
	r.rule("pem-block-nil", "the block returned by pem.Decode is nil-tested before use", 2)
	if fn := w.Func("fileoperations", "Helper", "ReadFromPem"); fn != nil {
		for _, c := range callsTo(fn, "encoding/pem.Decode") {
			blk := resultAt(c, 0)
			if blk == nil {
				r.bad("pem-block-nil", "ReadFromPem/pem.Decode", lineOf(w, c), "block must be used", "discarded")
				continue
			}
			bad := 0
			for _, ref := range *blk.Referrers() {
				if fa, ok := ref.(*ssa.FieldAddr); ok {
					if ok2, _ := fe.Holds(fa, pfact{kind: kNotNil, path: pathOf(blk)}, 0); !ok2 {
						bad++
					}
				}
			}
			r.check(bad == 0, "pem-block-nil", "ReadFromPem/pem.Decode", lineOf(w, c), "every dereference of the decoded block is behind block != nil", fmt.Sprintf("%d unguarded dereferences", bad))
		}
	}
}

// sliceWrittenTo: is slice value v (followed through φ, re-slicing and parameters of repo helpers) the destination of an
// element store, a copy or a clear? Returns the writing instruction.
func sliceWrittenTo(w *World, v ssa.Value, depth int, seen map[ssa.Value]bool) ssa.Instruction {
	if v == nil || seen[v] || depth < 0 {
		return nil
	}
	seen[v] = true
	refs := v.Referrers()
	if refs == nil {
		return nil
	}
	for _, ref := range *refs {
		switch x := ref.(type) {
		case *ssa.Phi:
			if at := sliceWrittenTo(w, x, depth, seen); at != nil {
				return at
			}
		case *ssa.Slice:
			if x.X == v {
				if at := sliceWrittenTo(w, x, depth, seen); at != nil {
					return at
				}
			}
		case *ssa.IndexAddr:
			if x.X == v {
				for _, r2 := range *x.Referrers() {
					if st, ok := r2.(*ssa.Store); ok && st.Addr == ssa.Value(x) {
						return st
					}
				}
			}
		case *ssa.Call:
			if b, ok := x.Call.Value.(*ssa.Builtin); ok {
				if (b.Name() == "copy" || b.Name() == "clear") && len(x.Call.Args) > 0 && x.Call.Args[0] == v {
					return x
				}
				continue
			}
			cal := x.Call.StaticCallee()
			if cal == nil || !isRepoFunc(cal) || len(cal.Blocks) == 0 {
				continue
			}
			for k, a := range x.Call.Args {
				if a == v && k < len(cal.Params) {
					if at := sliceWrittenTo(w, cal.Params[k], depth-1, seen); at != nil {
						return at
					}
				}
			}
		case *ssa.Store:
			// placed into a list (the argument array of a variadic call, a slice literal): follow the list
			if x.Val == v {
				if ia, ok := x.Addr.(*ssa.IndexAddr); ok {
					if at := listElementsWritten(w, ia.X, depth, seen); at != nil {
						return at
					}
				}
			}
		case *ssa.Defer:
			cal := x.Call.StaticCallee()
			if cal == nil || !isRepoFunc(cal) || len(cal.Blocks) == 0 {
				continue
			}
			for k, a := range x.Call.Args {
				if a == v && k < len(cal.Params) {
					if at := sliceWrittenTo(w, cal.Params[k], depth-1, seen); at != nil {
						return at
					}
				}
			}
		}
	}
	return nil
}

// listElementsWritten: lst holds tracked slices as elements; is any element written to?
func listElementsWritten(w *World, lst ssa.Value, depth int, seen map[ssa.Value]bool) ssa.Instruction {
	if lst == nil || seen[lst] || depth < 0 {
		return nil
	}
	seen[lst] = true
	refs := lst.Referrers()
	if refs == nil {
		return nil
	}
	for _, ref := range *refs {
		switch x := ref.(type) {
		case *ssa.Slice:
			if at := listElementsWritten(w, x, depth, seen); at != nil {
				return at
			}
		case *ssa.Phi:
			if at := listElementsWritten(w, x, depth, seen); at != nil {
				return at
			}
		case *ssa.IndexAddr:
			if x.X != lst {
				continue
			}
			for _, r2 := range *x.Referrers() {
				if ld, ok := r2.(*ssa.UnOp); ok && ld.Op == token.MUL {
					if at := sliceWrittenTo(w, ld, depth, seen); at != nil {
						return at
					}
				}
			}
		case *ssa.Range:
			for _, r2 := range *x.Referrers() {
				if nx, ok := r2.(*ssa.Next); ok {
					for _, r3 := range *nx.Referrers() {
						if ex, ok := r3.(*ssa.Extract); ok && ex.Index == 2 {
							if at := sliceWrittenTo(w, ex, depth, seen); at != nil {
								return at
							}
						}
					}
				}
			}
		case ssa.CallInstruction:
			cal := x.Common().StaticCallee()
			if cal == nil || !isRepoFunc(cal) || len(cal.Blocks) == 0 {
				continue
			}
			for k, a := range x.Common().Args {
				if a == lst && k < len(cal.Params) {
					if at := listElementsWritten(w, cal.Params[k], depth-1, seen); at != nil {
						return at
					}
				}
			}
		}
	}
	return nil
}
