package main

// Small, generic helpers over go/ssa used by all rules: resolved callee names, access paths,
// reaching stores of local allocs, branch facts, edge-cut reachability, return classification.

import (
	"fmt"
	"go/constant"
	"go/token"
	"go/types"
	"sort"
	"strings"

	"golang.org/x/tools/go/ssa"
)

// ---------------------------------------------------------------------------------------------
// callees

// calleeName returns the type-resolved name of the function or interface method called:
// "(*github.com/heimdalr/dag.DAG).AddVertexByID", "github.com/…/accountant.pourFunds",
// "(github.com/…/accountant.signatureVerifier).Verify" (interface invoke). Closures and other
// dynamic calls return "".
func calleeName(c ssa.CallInstruction) string {
	cc := c.Common()
	if cc.IsInvoke() {
		return cc.Method.FullName()
	}
	if f := cc.StaticCallee(); f != nil {
		if f.Object() != nil {
			return refFuncFullName(f.Object().(*types.Func))
		}
		return f.String()
	}
	if b, ok := cc.Value.(*ssa.Builtin); ok {
		return "builtin." + b.Name()
	}
	return ""
}

// cn builds a full callee name from the short forms used in rules, e.g. cn("accountant","*AccountingBook","validateLeaf").
func cn(pkg, recv, name string) string {
	pp := pkg
	if !strings.Contains(pkg, ".") && !isStdPkg(pkg) {
		pp = modPath + "/" + pkg
	}
	if recv == "" {
		return pp + "." + name
	}
	if strings.HasPrefix(recv, "*") {
		return "(*" + pp + "." + recv[1:] + ")." + name
	}
	return "(" + pp + "." + recv + ")." + name
}

func isStdPkg(p string) bool {
	switch p {
	case "errors", "fmt", "bytes", "sync", "context", "time", "os", "strings", "sort", "slices", "io",
		"crypto/ed25519", "crypto/sha256", "crypto/cipher", "encoding/hex", "encoding/pem", "crypto/x509", "sync/atomic":
		return true
	}
	return false
}

const (
	dagPkg    = "github.com/heimdalr/dag"
	badgerPkg = "github.com/dgraph-io/badger/v4"
	bigPkg    = "github.com/allegro/bigcache"
)

func dagM(name string) string { return "(*" + dagPkg + ".DAG)." + name }

// instrsOf iterates all instructions of fn (not nested closures).
func instrsOf(fn *ssa.Function, f func(ssa.Instruction)) {
	for _, b := range fn.Blocks {
		for _, in := range b.Instrs {
			f(in)
		}
	}
}

// callsTo returns the call instructions (call/go/defer) in fn whose resolved callee is one of names.
func callsTo(fn *ssa.Function, names ...string) []ssa.CallInstruction {
	var out []ssa.CallInstruction
	instrsOf(fn, func(in ssa.Instruction) {
		if c, ok := in.(ssa.CallInstruction); ok {
			n := calleeName(c)
			for _, want := range names {
				if n == want {
					out = append(out, c)
				}
			}
		}
	})
	return out
}

// callsToDeep is callsTo over fn and its nested closures.
func callsToDeep(fn *ssa.Function, names ...string) []ssa.CallInstruction {
	var out []ssa.CallInstruction
	for _, f := range WithAnon(fn) {
		out = append(out, callsTo(f, names...)...)
	}
	return out
}

func callValue(c ssa.CallInstruction) ssa.Value {
	if v, ok := c.(*ssa.Call); ok {
		return v
	}
	return nil
}

// args returns the arguments of a call without the receiver (for static method calls the receiver
// is Args[0]; for invoke it is Common().Value).
func callArgs(c ssa.CallInstruction) (recv ssa.Value, args []ssa.Value) {
	cc := c.Common()
	if cc.IsInvoke() {
		return cc.Value, cc.Args
	}
	if f := cc.StaticCallee(); f != nil && f.Signature.Recv() != nil && len(cc.Args) > 0 {
		return cc.Args[0], cc.Args[1:]
	}
	return nil, cc.Args
}

// resultAt returns the SSA value for result #i of call c inside its function: the call value itself
// for single results, the (unique) Extract otherwise. nil if the result is unused.
func resultAt(c ssa.CallInstruction, i int) ssa.Value {
	v := callValue(c)
	if v == nil {
		return nil
	}
	if _, ok := v.Type().(*types.Tuple); !ok {
		if i == 0 {
			return v
		}
		return nil
	}
	for _, r := range *v.Referrers() {
		if e, ok := r.(*ssa.Extract); ok && e.Index == i {
			return e
		}
	}
	return nil
}

// errResult returns the value of the last result of c if it is of type error.
func errResult(c ssa.CallInstruction) ssa.Value {
	v := callValue(c)
	if v == nil {
		return nil
	}
	if t, ok := v.Type().(*types.Tuple); ok {
		n := t.Len()
		if n == 0 || !isErrorType(t.At(n-1).Type()) {
			return nil
		}
		return resultAt(c, n-1)
	}
	if isErrorType(v.Type()) {
		return v
	}
	return nil
}

func isErrorType(t types.Type) bool {
	return types.Identical(t, types.Universe.Lookup("error").Type())
}

// ---------------------------------------------------------------------------------------------
// reaching stores of local allocs (go/ssa leaves named results of functions with defer, address-taken
// locals and closure-captured variables as Allocs)

type reach struct {
	vals    []ssa.Value // values of reaching stores
	zero    bool        // the zero value (no store on some path) reaches
	escaped bool        // the alloc's address escapes to something we do not follow
}

func allocEscapes(a *ssa.Alloc) bool {
	for _, r := range *a.Referrers() {
		switch r := r.(type) {
		case *ssa.Store:
			if r.Val == ssa.Value(a) {
				return true
			}
		case *ssa.UnOp:
			if r.Op != token.MUL {
				return true
			}
		case *ssa.FieldAddr, *ssa.IndexAddr:
			// partial updates are followed by callers that care; treated as non-escaping here
		case *ssa.DebugRef:
		default:
			return true
		}
	}
	return false
}

func reachingStores(load *ssa.UnOp) reach {
	a, ok := load.X.(*ssa.Alloc)
	if !ok {
		return reach{escaped: true}
	}
	res := reach{escaped: allocEscapes(a)}
	seen := map[*ssa.BasicBlock]bool{}
	var add = func(v ssa.Value) {
		for _, x := range res.vals {
			if x == v {
				return
			}
		}
		res.vals = append(res.vals, v)
	}
	var scanBlock func(b *ssa.BasicBlock, from int)
	scanBlock = func(b *ssa.BasicBlock, from int) {
		for i := from; i >= 0; i-- {
			if st, ok := b.Instrs[i].(*ssa.Store); ok && st.Addr == ssa.Value(a) {
				add(st.Val)
				return
			}
			if b.Instrs[i] == ssa.Instruction(a) {
				res.zero = true
				return
			}
		}
		if len(b.Preds) == 0 {
			res.zero = true
			return
		}
		for _, p := range b.Preds {
			if !seen[p] {
				seen[p] = true
				scanBlock(p, len(p.Instrs)-1)
			}
		}
	}
	b := load.Block()
	idx := indexIn(b, load)
	scanBlock(b, idx-1)
	return res
}

func indexIn(b *ssa.BasicBlock, in ssa.Instruction) int {
	for i, x := range b.Instrs {
		if x == in {
			return i
		}
	}
	return -1
}

// strip removes representation-only wrappers and resolves loads of local allocs that have a unique
// reaching store.
func strip(v ssa.Value) ssa.Value {
	for i := 0; i < 20; i++ {
		switch x := v.(type) {
		case *ssa.ChangeType:
			v = x.X
		case *ssa.ChangeInterface:
			v = x.X
		case *ssa.UnOp:
			if x.Op == token.MUL {
				if _, ok := x.X.(*ssa.Alloc); ok {
					r := reachingStores(x)
					if !r.escaped && !r.zero && len(r.vals) == 1 {
						v = r.vals[0]
						continue
					}
				}
			}
			return v
		default:
			return v
		}
	}
	return v
}

// ---------------------------------------------------------------------------------------------
// access paths

func fieldName(t types.Type, i int) string {
	var named *types.Named
	if n, ok := t.(*types.Named); ok {
		named = n
	}
	t = t.Underlying()
	if p, ok := t.(*types.Pointer); ok {
		if n, ok := p.Elem().(*types.Named); ok {
			named = n
		}
		t = p.Elem().Underlying()
	}
	if s, ok := t.(*types.Struct); ok && i < s.NumFields() {
		return refFieldName(named, s.Field(i).Name())
	}
	return fmt.Sprintf("f%d", i)
}

// pathOf names a value by where it was loaded from. Pointer dereference, full slices, conversions
// and interface boxing are transparent. Values that are not loads get their unique register name.
func pathOf(v ssa.Value) string {
	return pathOfD(v, 0)
}

func pathOfD(v ssa.Value, d int) string {
	if d > 40 {
		return v.Name()
	}
	switch x := v.(type) {
	case *ssa.Parameter:
		return x.Name()
	case *ssa.FreeVar:
		return x.Name()
	case *ssa.Global:
		return x.Pkg.Pkg.Name() + "." + x.Name()
	case *ssa.Const:
		if x.Value == nil {
			return "nil"
		}
		return "const(" + x.Value.ExactString() + ")"
	case *ssa.FieldAddr:
		return pathOfD(x.X, d+1) + "." + fieldName(x.X.Type(), x.Field)
	case *ssa.Field:
		return pathOfD(x.X, d+1) + "." + fieldName(x.X.Type(), x.Field)
	case *ssa.UnOp:
		if x.Op == token.MUL {
			if a, ok := x.X.(*ssa.Alloc); ok {
				// a source-level variable that is assigned exactly once is named by its identifier, so that
				// `tip.Hash`, `&tip`, `*tip` and uses inside closures that capture it all share one root
				if isSourceVar(a) && storeCount(a) == 1 {
					return a.Comment
				}
				r := reachingStores(x)
				if !r.escaped && !r.zero && len(r.vals) == 1 {
					return pathOfD(r.vals[0], d+1)
				}
				return allocName(a) + "@" + x.Name()
			}
			return pathOfD(x.X, d+1)
		}
		return x.Name()
	case *ssa.Alloc:
		return allocName(x)
	case *ssa.Slice:
		if x.Low == nil && x.High == nil && x.Max == nil {
			return pathOfD(x.X, d+1)
		}
		return x.Name()
	case *ssa.Convert:
		return pathOfD(x.X, d+1)
	case *ssa.ChangeType:
		return pathOfD(x.X, d+1)
	case *ssa.ChangeInterface:
		return pathOfD(x.X, d+1)
	case *ssa.MakeInterface:
		return pathOfD(x.X, d+1)
	case *ssa.SliceToArrayPointer:
		return pathOfD(x.X, d+1)
	case *ssa.IndexAddr:
		return pathOfD(x.X, d+1) + "[" + pathOfD(x.Index, d+1) + "]"
	case *ssa.Index:
		return pathOfD(x.X, d+1) + "[" + pathOfD(x.Index, d+1) + "]"
	case *ssa.Extract:
		if c, ok := x.Tuple.(*ssa.Call); ok {
			return "call:" + shortCallee(c) + "@" + c.Name() + fmt.Sprintf("#%d", x.Index)
		}
		return pathOfD(x.Tuple, d+1) + fmt.Sprintf("#%d", x.Index)
	case *ssa.Call:
		return "call:" + shortCallee(x) + "@" + x.Name()
	}
	return v.Name()
}

// storeCount counts the stores to a local variable in its function and in nested closures.
func storeCount(a *ssa.Alloc) int {
	n := 0
	for _, r := range *a.Referrers() {
		if st, ok := r.(*ssa.Store); ok && st.Addr == ssa.Value(a) {
			n++
		}
	}
	var inClosures func(fn *ssa.Function)
	inClosures = func(fn *ssa.Function) {
		for _, af := range fn.AnonFuncs {
			for _, fv := range af.FreeVars {
				if fv.Name() != a.Comment {
					continue
				}
				for _, r := range *fv.Referrers() {
					if st, ok := r.(*ssa.Store); ok && st.Addr == ssa.Value(fv) {
						n++
					}
				}
			}
			inClosures(af)
		}
	}
	if a.Parent() != nil {
		inClosures(a.Parent())
	}
	return n
}

func isSourceVar(a *ssa.Alloc) bool {
	switch a.Comment {
	case "", "complit", "varargs", "makeslice", "slicelit", "arraylit", "mapclit":
		return false
	}
	return true
}

func allocName(a *ssa.Alloc) string {
	if isSourceVar(a) && storeCount(a) <= 1 {
		return a.Comment
	}
	if a.Comment != "" {
		return "&" + a.Comment + "@" + a.Name()
	}
	return "&" + a.Name()
}

func shortCallee(c ssa.CallInstruction) string {
	n := calleeName(c)
	if i := strings.LastIndex(n, "."); i >= 0 {
		return n[i+1:]
	}
	if n == "" {
		return "dyn"
	}
	return n
}

// pathHasSuffix reports whether path p ends with the field chain suf ("Transaction.Hash").
func pathHasSuffix(p, suf string) bool {
	return p == suf || strings.HasSuffix(p, "."+suf)
}

// pathBase returns the path without the given suffix chain, or "", false.
func pathBase(p, suf string) (string, bool) {
	if strings.HasSuffix(p, "."+suf) {
		return strings.TrimSuffix(p, "."+suf), true
	}
	return "", false
}

// ---------------------------------------------------------------------------------------------
// CFG edges, branch facts, reachability

type Edge struct {
	From *ssa.BasicBlock
	Idx  int
}

func (e Edge) To() *ssa.BasicBlock { return e.From.Succs[e.Idx] }

type factKind int

const (
	fIsNil factKind = iota
	fNotNil
	fTrue
	fFalse
	fEq  // X == Y
	fNeq // X != Y
)

type fact struct {
	kind factKind
	x, y ssa.Value
}

func isNilConst(v ssa.Value) bool {
	c, ok := v.(*ssa.Const)
	return ok && c.Value == nil && !isBasicNonNil(c.Type())
}

func isBasicNonNil(t types.Type) bool {
	_, ok := t.Underlying().(*types.Basic)
	return ok
}

func boolConst(v ssa.Value) (bool, bool) {
	c, ok := v.(*ssa.Const)
	if !ok || c.Value == nil || c.Value.Kind() != constant.Bool {
		return false, false
	}
	return constant.BoolVal(c.Value), true
}

// condFacts returns the facts implied when cond evaluates to truth.
func condFacts(cond ssa.Value, truth bool) []fact {
	switch c := cond.(type) {
	case *ssa.UnOp:
		if c.Op == token.NOT {
			return condFacts(c.X, !truth)
		}
	case *ssa.BinOp:
		if c.Op == token.EQL || c.Op == token.NEQ {
			eq := (c.Op == token.EQL) == truth // X == Y holds
			x, y := c.X, c.Y
			if isNilConst(x) {
				x, y = y, x
			}
			if isNilConst(y) {
				if eq {
					return []fact{{kind: fIsNil, x: x}}
				}
				return []fact{{kind: fNotNil, x: x}}
			}
			if _, ok := boolConst(x); ok {
				x, y = y, x
			}
			if b, ok := boolConst(y); ok {
				// X == b holds iff eq
				return condFacts(x, b == eq)
			}
			if eq {
				return []fact{{kind: fEq, x: x, y: y}}
			}
			return []fact{{kind: fNeq, x: x, y: y}}
		}
	}
	if prm, ok := cond.(*ssa.Parameter); ok {
		if v, bound := boundBool[prm]; bound && v != cond {
			return condFacts(v, truth)
		}
	}
	if truth {
		return []fact{{kind: fTrue, x: cond}}
	}
	return []fact{{kind: fFalse, x: cond}}
}

// edgeFacts returns the facts that hold on CFG edge e (empty unless e leaves an If).
func edgeFacts(e Edge) []fact {
	b := e.From
	if len(b.Instrs) == 0 {
		return nil
	}
	iff, ok := b.Instrs[len(b.Instrs)-1].(*ssa.If)
	if !ok {
		return nil
	}
	return condFacts(iff.Cond, e.Idx == 0)
}

// edgesWhere returns all CFG edges of fn on which some fact satisfies pred.
func edgesWhere(fn *ssa.Function, pred func(fact) bool) []Edge {
	var out []Edge
	for _, b := range fn.Blocks {
		for i := range b.Succs {
			e := Edge{b, i}
			for _, f := range edgeFacts(e) {
				if pred(f) {
					out = append(out, e)
					break
				}
			}
		}
	}
	return out
}

// sameVal compares two values after strip().
func sameVal(a, b ssa.Value) bool {
	if a == nil || b == nil {
		return false
	}
	return strip(a) == strip(b)
}

// errNilEdges returns the edges on which error value ev is known nil (the success edges of the call
// that produced ev), errNonNilEdges the failure edges.
func errNilEdges(fn *ssa.Function, ev ssa.Value) []Edge {
	return edgesWhere(fn, func(f fact) bool { return f.kind == fIsNil && sameVal(f.x, ev) })
}
func errNonNilEdges(fn *ssa.Function, ev ssa.Value) []Edge {
	return edgesWhere(fn, func(f fact) bool { return f.kind == fNotNil && sameVal(f.x, ev) })
}
func trueEdges(fn *ssa.Function, v ssa.Value) []Edge {
	return edgesWhere(fn, func(f fact) bool { return f.kind == fTrue && sameVal(f.x, v) })
}
func falseEdges(fn *ssa.Function, v ssa.Value) []Edge {
	return edgesWhere(fn, func(f fact) bool { return f.kind == fFalse && sameVal(f.x, v) })
}

func edgeSet(es ...[]Edge) map[Edge]bool {
	m := map[Edge]bool{}
	for _, l := range es {
		for _, e := range l {
			m[e] = true
		}
	}
	return m
}

// reachable computes the blocks reachable from the given start blocks without crossing cut edges.
func reachable(starts []*ssa.BasicBlock, cut map[Edge]bool) map[*ssa.BasicBlock]bool {
	seen := map[*ssa.BasicBlock]bool{}
	var st []*ssa.BasicBlock
	for _, s := range starts {
		if !seen[s] {
			seen[s] = true
			st = append(st, s)
		}
	}
	for len(st) > 0 {
		b := st[len(st)-1]
		st = st[:len(st)-1]
		for i, s := range b.Succs {
			if cut[Edge{b, i}] || seen[s] {
				continue
			}
			seen[s] = true
			st = append(st, s)
		}
	}
	return seen
}

// mustCross reports whether every path from fn's entry to block target crosses one of the edges.
func mustCross(fn *ssa.Function, target *ssa.BasicBlock, edges []Edge) bool {
	if len(edges) == 0 {
		return false
	}
	r := reachable([]*ssa.BasicBlock{fn.Blocks[0]}, edgeSet(edges))
	return !r[target]
}

// mustCrossFrom: every path from the destination of edge `from` to target crosses one of edges.
func mustCrossFrom(from Edge, target *ssa.BasicBlock, edges []Edge) bool {
	r := reachable([]*ssa.BasicBlock{from.To()}, edgeSet(edges))
	return !r[target]
}

// ---------------------------------------------------------------------------------------------
// instruction-granular forward search

// walkFrom explores all paths that start right after instruction `from` (or at the top of block
// startBlock when from is nil). visit is called for every instruction; it returns true to stop
// the path there. Cut edges are not crossed. Each instruction is visited at most once.
func walkFrom(from ssa.Instruction, startBlock *ssa.BasicBlock, cut map[Edge]bool, visit func(ssa.Instruction) (stop bool)) {
	seen := map[*ssa.BasicBlock]bool{}
	var runBlock func(b *ssa.BasicBlock, i int)
	runBlock = func(b *ssa.BasicBlock, i int) {
		for ; i < len(b.Instrs); i++ {
			if visit(b.Instrs[i]) {
				return
			}
		}
		for k, s := range b.Succs {
			if cut[Edge{b, k}] || seen[s] {
				continue
			}
			seen[s] = true
			runBlock(s, 0)
		}
	}
	if from != nil {
		b := from.Block()
		runBlock(b, indexIn(b, from)+1)
	} else {
		seen[startBlock] = true
		runBlock(startBlock, 0)
	}
}

// exitsAvoiding returns the function exits (Return, Panic) reachable after `from` on paths that do
// not execute an instruction for which stop is true.
func exitsAvoiding(from ssa.Instruction, cut map[Edge]bool, stop func(ssa.Instruction) bool) []ssa.Instruction {
	var exits []ssa.Instruction
	walkFrom(from, nil, cut, func(in ssa.Instruction) bool {
		if stop(in) {
			return true
		}
		switch x := in.(type) {
		case *ssa.Return:
			exits = append(exits, in)
			return true
		case *ssa.Panic:
			if isSelectNoCasePanic(x) {
				return true // go/ssa's unreachable arm of a blocking select
			}
			exits = append(exits, in)
			return true
		}
		return false
	})
	return exits
}

func isSelectNoCasePanic(p *ssa.Panic) bool {
	if mi, ok := p.X.(*ssa.MakeInterface); ok {
		if c, ok := mi.X.(*ssa.Const); ok && c.Value != nil && c.Value.Kind() == constant.String {
			return constant.StringVal(c.Value) == "blocking select matched no case"
		}
	}
	return false
}

// ---------------------------------------------------------------------------------------------
// returns

// resultVals resolves the possible values of result #i at return r: phis are expanded, loads of
// (spilled) result allocs are replaced by their reaching stores.
func resultVals(r *ssa.Return, i int) (vals []ssa.Value, zero bool) {
	if i >= len(r.Results) {
		return nil, false
	}
	seen := map[ssa.Value]bool{}
	var walk func(v ssa.Value)
	walk = func(v ssa.Value) {
		if seen[v] {
			return
		}
		seen[v] = true
		switch x := v.(type) {
		case *ssa.Phi:
			for _, e := range x.Edges {
				walk(e)
			}
			return
		case *ssa.UnOp:
			if x.Op == token.MUL {
				if _, ok := x.X.(*ssa.Alloc); ok {
					rs := reachingStores(x)
					if !rs.escaped || len(rs.vals) > 0 {
						for _, s := range rs.vals {
							walk(s)
						}
						if rs.zero {
							zero = true
						}
						return
					}
				}
			}
		case *ssa.ChangeInterface:
			walk(x.X)
			return
		}
		vals = append(vals, v)
	}
	walk(r.Results[i])
	return
}

// returnsOf lists the return instructions of fn; the synthetic recover block (reachable only after a
// recovered panic, which no function here does) is not a normal exit and is skipped.
func returnsOf(fn *ssa.Function) []*ssa.Return {
	var out []*ssa.Return
	instrsOf(fn, func(in ssa.Instruction) {
		if r, ok := in.(*ssa.Return); ok && r.Block() != fn.Recover {
			out = append(out, r)
		}
	})
	return out
}

// errIndex returns the index of the (last) error result of fn, or -1.
func errIndex(fn *ssa.Function) int {
	res := fn.Signature.Results()
	if res.Len() == 0 {
		return -1
	}
	if isErrorType(res.At(res.Len() - 1).Type()) {
		return res.Len() - 1
	}
	return -1
}

type nilness int

const (
	nUnknown nilness = iota
	nNil
	nNonNil
	nCall // value is the result of another call: propagated
)

// classifyErr classifies an error value as definitely nil, definitely non-nil, the propagated
// result of a call, or unknown. at is the block where the value is used (for dominating facts).
func classifyErr(v ssa.Value, at *ssa.BasicBlock) (nilness, ssa.CallInstruction) {
	v = strip(v)
	switch x := v.(type) {
	case *ssa.Const:
		if x.Value == nil {
			return nNil, nil
		}
	case *ssa.MakeInterface:
		return nNonNil, nil
	case *ssa.UnOp:
		if x.Op == token.MUL {
			if _, ok := x.X.(*ssa.Global); ok {
				return nNonNil, nil // package-level sentinel errors are initialised with errors.New
			}
		}
	case *ssa.Call:
		switch calleeName(x) {
		case "errors.Join", "errors.New", "fmt.Errorf":
			return nNonNil, nil
		}
		if k := factAt(v, at); k != nUnknown {
			return k, x
		}
		return nCall, x
	case *ssa.Extract:
		if c, ok := x.Tuple.(*ssa.Call); ok {
			if k := factAt(v, at); k != nUnknown {
				return k, c
			}
			return nCall, c
		}
	}
	return factAt(v, at), nil
}

// factAt reports whether every path from entry to block at crosses an edge establishing v == nil
// (nNil) or v != nil (nNonNil).
func factAt(v ssa.Value, at *ssa.BasicBlock) nilness {
	if at == nil {
		return nUnknown
	}
	fn := at.Parent()
	if es := errNilEdges(fn, v); len(es) > 0 && mustCross(fn, at, es) {
		return nNil
	}
	if es := errNonNilEdges(fn, v); len(es) > 0 && mustCross(fn, at, es) {
		return nNonNil
	}
	return nUnknown
}

// ---------------------------------------------------------------------------------------------
// misc

func lineOf(w *World, in ssa.Instruction) string {
	p := in.Pos()
	if !p.IsValid() {
		// fall back to the nearest positioned instruction in the block
		b := in.Block()
		if b != nil {
			for _, x := range b.Instrs {
				if x.Pos().IsValid() {
					p = x.Pos()
					break
				}
			}
		}
	}
	return w.Pos(p)
}

// describeReturn renders "return <error-expr>" in a position-independent way for obligation keys.
func describeErrVal(v ssa.Value) string {
	v = strip(v)
	switch x := v.(type) {
	case *ssa.Const:
		if x.Value == nil {
			return "nil"
		}
	case *ssa.UnOp:
		if g, ok := x.X.(*ssa.Global); ok {
			return g.Name()
		}
	case *ssa.Call:
		n := shortCallee(x)
		var parts []string
		if calleeName(x) == "errors.Join" && len(x.Call.Args) == 1 {
			// variadic: args packed into a slice literal; list the stored elements
			for _, e := range sliceLitElems(x.Call.Args[0]) {
				parts = append(parts, describeErrVal(e))
			}
			return "Join(" + strings.Join(parts, ",") + ")"
		}
		return n + "(…)"
	case *ssa.Extract:
		if c, ok := x.Tuple.(*ssa.Call); ok {
			return shortCallee(c) + "(…)#err"
		}
	case *ssa.Phi:
		return "phi"
	case *ssa.Parameter:
		return x.Name()
	}
	return "expr"
}

// sliceLitElems returns the values stored into a slice literal `[]T{a,b}` given the Slice value.
func sliceLitElems(v ssa.Value) []ssa.Value {
	sl, ok := v.(*ssa.Slice)
	if !ok {
		return nil
	}
	a, ok := sl.X.(*ssa.Alloc)
	if !ok {
		return nil
	}
	type kv struct {
		i int64
		v ssa.Value
	}
	var kvs []kv
	for _, r := range *a.Referrers() {
		ia, ok := r.(*ssa.IndexAddr)
		if !ok {
			continue
		}
		c, ok := ia.Index.(*ssa.Const)
		if !ok {
			continue
		}
		for _, rr := range *ia.Referrers() {
			if st, ok := rr.(*ssa.Store); ok && st.Addr == ssa.Value(ia) {
				kvs = append(kvs, kv{c.Int64(), st.Val})
			}
		}
	}
	sort.Slice(kvs, func(i, j int) bool { return kvs[i].i < kvs[j].i })
	var out []ssa.Value
	for _, e := range kvs {
		out = append(out, e.v)
	}
	return out
}

func uniqStrings(in []string) []string {
	sort.Strings(in)
	var out []string
	for i, s := range in {
		if i == 0 || s != in[i-1] {
			out = append(out, s)
		}
	}
	return out
}

// ---------------------------------------------------------------------------------------------
// origins: backwards may-flow through value-preserving constructs

// origins returns the source values that may flow into v through φ-nodes, tuple extraction,
// type assertions, element loads of local slices (literals, appends, reslices), ranging, and
// load/store chains of local allocs. The result contains the first values that are none of these.
func origins(v ssa.Value) []ssa.Value {
	seen := map[ssa.Value]bool{}
	var out []ssa.Value
	var walk func(v ssa.Value)
	var elems func(s ssa.Value)
	elemSeen := map[ssa.Value]bool{}
	elems = func(s ssa.Value) { // origins of the elements of slice/array value s
		if elemSeen[s] {
			return
		}
		elemSeen[s] = true
		switch x := s.(type) {
		case *ssa.Slice:
			if a, ok := x.X.(*ssa.Alloc); ok { // literal backing array
				for _, r := range *a.Referrers() {
					if ia, ok := r.(*ssa.IndexAddr); ok {
						for _, rr := range *ia.Referrers() {
							if st, ok := rr.(*ssa.Store); ok && st.Addr == ssa.Value(ia) {
								walk(st.Val)
							}
						}
					}
				}
				return
			}
			elems(x.X)
		case *ssa.Phi:
			for _, e := range x.Edges {
				elems(e)
			}
		case *ssa.Call:
			if b, ok := x.Call.Value.(*ssa.Builtin); ok && b.Name() == "append" {
				elems(x.Call.Args[0])
				if len(x.Call.Args) > 1 {
					elems(x.Call.Args[1])
				}
				return
			}
			out = append(out, x) // slice produced by a call: the call is the origin
		case *ssa.MakeSlice, *ssa.Const:
		case *ssa.Alloc: // array literal ranged in place
			for _, r := range *x.Referrers() {
				if ia, ok := r.(*ssa.IndexAddr); ok {
					for _, rr := range *ia.Referrers() {
						if st, ok := rr.(*ssa.Store); ok && st.Addr == ssa.Value(ia) {
							walk(st.Val)
						}
					}
				}
			}
		case *ssa.UnOp:
			if x.Op == token.MUL {
				if _, ok := x.X.(*ssa.Alloc); ok {
					rs := reachingStores(x)
					for _, sv := range rs.vals {
						elems(sv)
					}
					return
				}
			}
			out = append(out, x)
		default:
			out = append(out, s)
		}
	}
	walk = func(v ssa.Value) {
		if seen[v] {
			return
		}
		seen[v] = true
		switch x := v.(type) {
		case *ssa.Phi:
			for _, e := range x.Edges {
				walk(e)
			}
		case *ssa.Extract:
			switch t := x.Tuple.(type) {
			case *ssa.TypeAssert:
				walk(t.X)
			case *ssa.Next: // range over map/string: element of the ranged value
				if rg, ok := t.Iter.(*ssa.Range); ok {
					out = append(out, rg.X)
					return
				}
				out = append(out, v)
			default:
				out = append(out, v)
			}
		case *ssa.TypeAssert:
			walk(x.X)
		case *ssa.MakeInterface:
			walk(x.X)
		case *ssa.ChangeType:
			walk(x.X)
		case *ssa.ChangeInterface:
			walk(x.X)
		case *ssa.UnOp:
			if x.Op == token.MUL {
				switch a := x.X.(type) {
				case *ssa.Alloc:
					rs := reachingStores(x)
					if len(rs.vals) > 0 {
						for _, sv := range rs.vals {
							walk(sv)
						}
						return
					}
				case *ssa.IndexAddr:
					elems(a.X)
					return
				}
			}
			out = append(out, v)
		default:
			out = append(out, v)
		}
	}
	walk(v)
	return out
}
