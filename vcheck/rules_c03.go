package main

// C03 — a transaction is sealed in at most one vertex per ledger (replay protection), structural part.

import (
	"fmt"
	"go/token"
	"strings"

	"golang.org/x/tools/go/ssa"
)

var (
	nAddVertexByID = dagM("AddVertexByID")
	nAddEdge       = dagM("AddEdge")
	nDeleteVertex  = dagM("DeleteVertex")
	nGetVertex     = dagM("GetVertex")
	nSaveTrx       = cn("accountant", "*AccountingBook", "saveTrxInVertex")
	nRemoveTrx     = cn("accountant", "*AccountingBook", "removeTrxInVertex")
	nValidateLeaf  = cn("accountant", "*AccountingBook", "validateLeaf")
	nVerify        = cn("accountant", "*Vertex", "verify")
)

func acctScope(fn *ssa.Function) bool {
	if fn.Pkg == nil {
		return false
	}
	p := fn.Pkg.Pkg.Path()
	return p == dagPkg || p == modPath+"/accountant"
}

// admissionSites returns all AddVertexByID call sites in package accountant.
func admissionSites(w *World) []ssa.CallInstruction {
	var out []ssa.CallInstruction
	for _, fn := range w.RepoFuncs("accountant") {
		out = append(out, callsTo(fn, nAddVertexByID)...)
	}
	return out
}

func init() {
	register("C03", []string{"./accountant"},
		"Structural necessary conditions of replay protection: every vertex insertion into the live DAG is dominated by a successful reservation of its transaction hash in the index (arguments bound to the inserted vertex), "+
			"the reservation is a transactional get-then-set on one badger transaction and the index has no other writers, the reservation is rolled back on every failure path and never on success, "+
			"every tentative vertex deletion is followed by the removal of its index entry, truncation never removes index entries, the reserve/insert pair runs under the exclusive ledger lock, and the gossip path looks "+
			"the vertex up in both the live DAG and checkpoint storage. Badger's transaction semantics and hash collisions are trusted/not decided.",
		runC03)
}

func runC03(w *World, r *Report) {
	r.NotDecided = []string{"badger transactional semantics (trusted)", "absence of hash collisions", "the dynamic claim 'the index always points at the holder' beyond the pairing rules"}
	li := ComputeLocks(w, acctScope)

	// 1. reserve before insert
	reserveBeforeInsert(w, r, "reserve-before-insert", "", 4)

	// 2. atomic reservation, no other writers
	r.rule("reservation-atomic", "saveTrxInVertex: SetEntry lies behind the not-found edge of Get on the same badger transaction and key, inside one Update on trxsToVertxDB", 1)
	if f := w.fx(r, "accountant", "AccountingBook", "saveTrxInVertex"); f != nil {
		upd := f.calls("(*" + badgerPkg + ".DB).Update")
		ok := false
		why := "no Update call on trxsToVertxDB"
		for _, u := range upd {
			recv, args := callArgs(u)
			if !strings.HasSuffix(pathOf(recv), ".trxsToVertxDB") {
				continue
			}
			cl := closureOf(args[0])
			if cl == nil {
				why = "Update callback is not a function literal"
				continue
			}
			gets := callsTo(cl, "(*"+badgerPkg+".Txn).Get")
			sets := callsTo(cl, "(*"+badgerPkg+".Txn).SetEntry", "(*"+badgerPkg+".Txn).Set")
			keyParam := f.fn.Params[1].Name()
			if len(gets) == 0 && len(sets) == 0 { // get-then-set moved into a helper taking the transaction
				if hf, hp, cs := delegateFor(cl, cl.Params[0]); hf != nil {
					// the helper's key parameter must be bound to the reservation key at the call
					for k, a := range cs.Common().Args {
						if pathOf(a) == keyParam && k < len(hf.Params) {
							keyParam = hf.Params[k].Name()
						}
					}
					cl = hf
					_ = hp
					gets = callsTo(cl, "(*"+badgerPkg+".Txn).Get")
					sets = callsTo(cl, "(*"+badgerPkg+".Txn).SetEntry", "(*"+badgerPkg+".Txn).Set")
				}
			}
			if len(gets) != 1 || len(sets) != 1 {
				why = fmt.Sprintf("expected one Get and one SetEntry in the callback, found %d/%d", len(gets), len(sets))
				continue
			}
			gr, ga := callArgs(gets[0])
			sr, sa := callArgs(sets[0])
			sameTxn := sameVal(gr, sr) && isParamOf(cl, gr)
			keyPath := pathOf(ga[0])
			setKey := ""
			if ne, ok := strip(sa[0]).(*ssa.Call); ok && strings.HasSuffix(calleeName(ne), ".NewEntry") {
				setKey = pathOf(ne.Call.Args[0])
			} else {
				setKey = pathOf(sa[0])
			}
			guard := behind(sets[0], failErrNonNil(gets[0]))
			if sameTxn && keyPath == setKey && guard && keyPath == keyParam {
				ok = true
			} else {
				why = fmt.Sprintf("sameTxn=%v getKey=%s setKey=%s setBehindNotFound=%v", sameTxn, keyPath, setKey, guard)
			}
		}
		r.check(ok, "reservation-atomic", "saveTrxInVertex", w.Pos(f.fn.Pos()), "get-then-set on one transaction and key", why)
	}
	r.rule("index-writers", "trxsToVertxDB is updated only by saveTrxInVertex and removeTrxInVertex", 2)
	for _, fn := range w.RepoFuncs("accountant") {
		for _, u := range callsTo(fn, "(*"+badgerPkg+".DB).Update", "(*"+badgerPkg+".DB).NewTransaction", "(*"+badgerPkg+".DB).DropAll", "(*"+badgerPkg+".DB).NewWriteBatch") {
			recv, _ := callArgs(u)
			if !strings.HasSuffix(pathOf(recv), ".trxsToVertxDB") {
				continue
			}
			owner := fn
			for owner.Parent() != nil {
				owner = owner.Parent()
			}
			n := refName(owner)
			r.check(n == "saveTrxInVertex" || n == "removeTrxInVertex", "index-writers", shortFn(fn), lineOf(w, u), "only the two index helpers write the transaction index", "unexpected writer")
		}
	}

	// 3a. roll back the reservation on failure, never on success
	rollbackReservation(w, r, "rollback-reservation")

	// 3b. deletion of a tentative vertex is followed by removal of its index entry
	deleteWithIndex(w, r, "delete-with-index")

	// what is sealed is recorded in one place: the index functions answer from the index database and keep no second copy of
	// an answer (a remembered "already sealed" outlives the release of the entry it was read from)
	r.rule("index-is-the-only-memory", "saveTrxInVertex, removeTrxInVertex and checkTrxInVertexExists (with the literals in them) touch no field of the AccountingBook other than the index database and the logger, and no package-level variable", 3)
	for _, name := range []string{"saveTrxInVertex", "removeTrxInVertex", "checkTrxInVertexExists"} {
		fn := w.Func("accountant", "AccountingBook", name)
		if fn == nil {
			r.bad("index-is-the-only-memory", name, "-", "the index function must resolve", "not found")
			continue
		}
		other := ""
		for _, g := range WithAnon(fn) {
			instrsOf(g, func(in ssa.Instruction) {
				switch x := in.(type) {
				case *ssa.FieldAddr:
					if strings.HasSuffix(deref(x.X.Type()).String(), "accountant.AccountingBook") {
						if f := fieldName(x.X.Type(), x.Field); f != "trxsToVertxDB" && f != "log" {
							other += " ." + f + " at " + lineOf(w, x) + ";"
						}
					}
				case *ssa.UnOp:
					if gl, ok := x.X.(*ssa.Global); ok && x.Op == token.MUL && gl.Pkg != nil && strings.HasPrefix(gl.Pkg.Pkg.Path(), modPath) && !strings.HasPrefix(gl.Name(), "Err") {
						other += " package variable " + gl.Name() + " at " + lineOf(w, x) + ";"
					}
				case *ssa.Store:
					if gl, ok := x.Addr.(*ssa.Global); ok && gl.Pkg != nil && strings.HasPrefix(gl.Pkg.Pkg.Path(), modPath) {
						other += " package variable " + gl.Name() + " written at " + lineOf(w, x) + ";"
					}
				}
			})
		}
		r.check(other == "", "index-is-the-only-memory", name, w.Pos(fn.Pos()), "the function works on the index database only", "it also touches"+other+" an answer kept outside the index is not released with the entry")
	}

	// 3b'. an index entry is released only together with its vertex or as the roll-back of its own reservation
	// the verdict "this tip is invalid" and the drop of the tip (vertex and index entry) are one critical section: a verdict
	// carried across an unlock is stale — the tip may have been dropped by somebody else and its transaction sealed again,
	// and the release by transaction hash then takes the successor's entry
	r.rule("verdict-and-drop-in-one-critical-section", "in the admission functions every removeTrxInVertex of a parent's transaction is reached from the failure edge of validateLeaf for that parent without an unlock of the ledger lock on the way (and only from there)", 2)
	for _, spec := range []string{"addLeafMemorized", "getValidLeaves"} {
		f := w.fx(r, "accountant", "AccountingBook", spec)
		if f == nil {
			continue
		}
		// the verdict and the drop may both sit in a helper that handles one parent: the host is where validateLeaf is called
		hosts := []*ssa.Function{}
		for _, g := range withHelpers(f.fn, 1) {
			if len(callsTo(g, cn("accountant", "*AccountingBook", "validateLeaf"))) > 0 {
				hosts = append(hosts, g)
			}
		}
		if len(hosts) == 0 {
			hosts = append(hosts, f.fn)
		}
		for _, fn := range hosts {
			nVal := len(callsTo(fn, cn("accountant", "*AccountingBook", "validateLeaf")))
			for _, d := range deepCalls(fn, byName(nRemoveTrx), 1) {
				c := d.c
				_, a := callArgs(c)
				hp := d.path(a[0]) // in the naming of the admission function
				if !strings.HasSuffix(hp, ".Transaction.Hash") {
					continue
				}
				vp := strings.TrimSuffix(hp, ".Transaction.Hash")
				key := shortFn(fn) + "/removeTrxInVertex(" + hp + ")"
				// validations of that very vertex in the admission function
				var fails []Edge
				for _, vc := range callsTo(fn, cn("accountant", "*AccountingBook", "validateLeaf")) {
					_, va := callArgs(vc)
					if len(va) >= 2 && pathOf(va[1]) == vp {
						fails = append(fails, failErrNonNil(vc)...)
					}
				}
				if len(fails) == 0 {
					own := false
					for _, sc := range deepCalls(fn, byName(nSaveTrx), 1) {
						_, sa := callArgs(sc.c)
						if len(sa) > 0 && sc.path(sa[0]) == hp {
							own = true
						}
					}
					if own || nVal == 0 {
						continue // a roll-back of the function's own reservation: judged by index-removal-paired
					}
					r.bad("verdict-and-drop-in-one-critical-section", key, lineOf(w, c), "the index entry of an invalid tip is released in the critical section that found it invalid",
						"the entry released belongs to "+vp+", which is not the value any validateLeaf of this function was called on: the verdict was carried over in a variable")
					continue
				}
				// the site in the admission function through which the release is reached
				var site ssa.Instruction = c.(ssa.Instruction)
				if len(d.chain) > 0 {
					site = d.chain[0].(ssa.Instruction)
				}
				crossed := ""
				for _, fe := range fails {
					walkFrom(nil, fe.To(), nil, func(x ssa.Instruction) bool {
						if x == site {
							return true
						}
						if uc, isCall := x.(ssa.CallInstruction); isCall {
							if _, isDefer := x.(*ssa.Defer); !isDefer {
								if op, _, id, isLock := lockOp(uc); isLock && op == "unlock" && id == abMux {
									crossed = lineOf(w, x)
								}
							}
						}
						return crossed != ""
					})
				}
				// a helper that does the release must not give the lock up itself before it
				if len(d.chain) > 0 {
					instrsOf(c.Parent(), func(x ssa.Instruction) {
						if uc, isCall := x.(ssa.CallInstruction); isCall {
							if _, isDefer := x.(*ssa.Defer); !isDefer {
								if op, _, id, isLock := lockOp(uc); isLock && op == "unlock" && id == abMux {
									crossed = lineOf(w, x)
								}
							}
						}
					})
				}
				r.check(behind(site, fails) && crossed == "", "verdict-and-drop-in-one-critical-section", key, lineOf(w, c),
					"the index entry of an invalid tip is released in the critical section that found it invalid", "between the failed validateLeaf and the release the ledger lock is given up at "+crossed+" (or the release is reachable without that verdict): by then the tip may be gone and its transaction sealed in another vertex, whose entry the release deletes")
			}
		}
	}

	r.rule("index-removal-paired", "every removeTrxInVertex(h) is dominated by the successful reservation of h in the same operation (roll-back) or by DeleteVertex of the vertex that carries h (a checkpointed vertex is in neither situation, so its entry stays for ever)", 4)
	for _, fn := range w.RepoFuncs("accountant") {
		for _, c := range callsTo(fn, nRemoveTrx) {
			_, ra := callArgs(c)
			h := pathOf(ra[0])
			reserved := func(fn2 *ssa.Function, res resolver) []Edge {
				var es []Edge
				for _, sc := range callsTo(fn2, nSaveTrx) {
					_, sa := callArgs(sc)
					if res(sa[0]) == h {
						es = append(es, passErrNil(sc)...)
					}
				}
				return es
			}
			ok := behindAll(w, c.(ssa.Instruction), idMap, reserved, 2)
			if !ok {
				// every way to the removal passes the deletion of the vertex carrying h
				reached := false
				walkFrom(nil, fn.Blocks[0], nil, func(in ssa.Instruction) bool {
					if dc, isC := in.(ssa.CallInstruction); isC && calleeName(dc) == nDeleteVertex {
						_, da := callArgs(dc)
						if vx, isV := vertexOfHashArg(da[0]); isV && trxHashPathOKUp(w, fn, pathOf(vx), h, 2) {
							return true
						}
					}
					if in == c.(ssa.Instruction) {
						reached = true
					}
					return reached
				})
				ok = !reached
			}
			if !ok && fn.Parent() == nil && fn.Object() != nil && !fn.Object().Exported() {
				// a roll-back helper: decide per call site — the site lies behind the reservation of the hash it hands
				// over, or, with the arguments of that site (constant flags prune the helper's branches), every way to
				// the removal passes the deletion of the vertex that carries the hash
				sites := staticCallers(w, fn)
				okAll := len(sites) > 0
				for _, cs := range sites {
					if behindAll(w, cs.(ssa.Instruction), upMap(cs, idMap), reserved, 1) {
						continue
					}
					reached := false
					dw := newDeepWalk(func(in ssa.Instruction, fr *frame) bool {
						if fr.top() {
							return true // left the helper
						}
						if dc, isC := in.(ssa.CallInstruction); isC && calleeName(dc) == nDeleteVertex && in.Parent() == fn {
							_, da := callArgs(dc)
							if vx, isV := vertexOfHashArg(da[0]); isV && trxHashPathOKUp(w, fn, pathOf(vx), h, 2) {
								return true
							}
						}
						if in == c.(ssa.Instruction) {
							reached = true
						}
						return reached
					})
					dw.run(frameFor(cs.Parent(), []ssa.CallInstruction{cs}), fn.Blocks[0], 0)
					if reached {
						okAll = false
					}
				}
				ok = okAll
			}
			r.check(ok, "index-removal-paired", shortFn(fn)+"/removeTrxInVertex("+h+")", lineOf(w, c), "the index entry is released as a roll-back or together with its vertex", "removal reachable without a preceding reservation of the same hash or deletion of its vertex")
		}
	}

	// 3c. truncation keeps index entries
	r.rule("truncate-keeps-index", "removeTrxInVertex is not reachable from truncate: checkpointed transactions stay indexed, so re-submission keeps being rejected", 1)
	if f := w.fx(r, "accountant", "AccountingBook", "truncate"); f != nil {
		reach := reachableFuncs(w, f.fn)
		rem := w.Func("accountant", "AccountingBook", "removeTrxInVertex")
		r.check(rem != nil && !reach[rem], "truncate-keeps-index", "truncate", w.Pos(f.fn.Pos()), "no call path from truncate to removeTrxInVertex", "reachable")
		r.Extra["functions_reachable_from_truncate"] = len(reach)
	}

	// 3d. a vertex is never both live and checkpointed: only the truncation walk writes vertices to storage
	storageWriters(w, r, "storage-only-what-is-pruned")

	// 4. under the ledger lock
	r.rule("reserve-under-lock", "the reservation in addLeafMemorized and CreateLeaf runs with AccountingBook.mux held exclusively (check-then-insert is atomic w.r.t. other admissions)", 2)
	for _, spec := range []string{"addLeafMemorized", "CreateLeaf"} {
		if f := w.fx(r, "accountant", "AccountingBook", spec); f != nil {
			for _, d := range deepCalls(f.fn, byName(nSaveTrx), deepDepth) {
				g := d.c.(ssa.Instruction)
				held := li.At(g)
				r.check(held.Has(abMux, "W"), "reserve-under-lock", spec+"/saveTrxInVertex", lineOf(w, g), "reservation under the exclusive ledger lock", "lockset "+held.String())
			}
		}
	}

	// 5. gossip path looks in both stores
	r.rule("gossip-exists-checks", "addLeafMemorized inserts only behind the not-exists edges of checkVertexExists(v.Hash) (live DAG and storage) and checkTrxInVertexExists(v.Transaction.Hash)", 3)
	if f := w.fx(r, "accountant", "AccountingBook", "addLeafMemorized"); f != nil {
		sites := deepCalls(f.fn, func(c ssa.CallInstruction) bool { return calleeName(c) == nAddVertexByID }, deepDepth)
		if len(sites) == 0 {
			r.bad("gossip-exists-checks", "addLeafMemorized/AddVertexByID", w.Pos(f.fn.Pos()), "the gossip admission path inserts into the DAG", "no insertion found")
		}
		for _, d := range sites {
			_, args := callArgs(d.c)
			v := d.path(args[1])
			for _, chk := range []struct{ callee, suffix string }{
				{cn("accountant", "*AccountingBook", "checkVertexExists"), ".Hash"},
				{cn("accountant", "*AccountingBook", "checkTrxInVertexExists"), ".Transaction.Hash"},
			} {
				n, wrong := 0, ""
				guard := func(pass func(ssa.CallInstruction) []Edge) gspec {
					return func(fn *ssa.Function, res resolver) []Edge {
						var es []Edge
						for _, c := range callsTo(fn, chk.callee) {
							_, ca := callArgs(c)
							n++
							if res(ca[0]) != v+chk.suffix {
								wrong = res(ca[0])
								continue
							}
							es = append(es, pass(c)...)
						}
						return es
					}
				}
				ok := behindDeepSite(d, guard(func(c ssa.CallInstruction) []Edge { return passBool(c, 0, false) })) &&
					behindDeepSite(d, guard(passErrNil))
				why := "insertion not behind the not-exists and no-error edges"
				if n == 0 {
					why = "no such call"
				} else if wrong != "" && !ok {
					why = "checked " + wrong + " instead of " + v + chk.suffix
				}
				r.check(ok, "gossip-exists-checks", "addLeafMemorized/"+chk.callee[strings.LastIndex(chk.callee, ".")+1:], lineOf(w, d.c), "duplicate check dominates the insertion", why)
			}
		}
		if ce := w.Func("accountant", "AccountingBook", "checkVertexExists"); ce != nil {
			reach := reachableFuncs(w, ce)
			hasDag := len(callsTo(ce, nGetVertex)) > 0
			hasStore := false
			for fn := range reach {
				for _, f2 := range WithAnon(fn) {
					for _, c := range callsTo(f2, "(*"+badgerPkg+".DB).View") {
						recv, _ := callArgs(c)
						if strings.HasSuffix(pathOf(recv), ".verticesDB") {
							hasStore = true
						}
					}
				}
			}
			r.check(hasDag && hasStore, "gossip-exists-checks", "checkVertexExists/both-stores", w.Pos(ce.Pos()), "vertex existence is checked in the live DAG and in checkpoint storage", fmt.Sprintf("dag=%v storage=%v", hasDag, hasStore))
		}
	}
}

// reachableFuncs: repo functions reachable from fn through static calls and function literals.
func reachableFuncs(w *World, fn *ssa.Function) map[*ssa.Function]bool {
	seen := map[*ssa.Function]bool{}
	var visit func(f *ssa.Function)
	visit = func(f *ssa.Function) {
		if f == nil || seen[f] || !isRepoFunc(f) {
			return
		}
		seen[f] = true
		instrsOf(f, func(in ssa.Instruction) {
			if c, ok := in.(ssa.CallInstruction); ok {
				visit(c.Common().StaticCallee())
			}
			for _, op := range in.Operands(nil) {
				if *op != nil {
					if cl := closureOf(*op); cl != nil {
						visit(cl)
					}
					if f2, ok := (*op).(*ssa.Function); ok {
						visit(f2)
					}
				}
			}
		})
	}
	visit(fn)
	return seen
}

func isParamOf(fn *ssa.Function, v ssa.Value) bool {
	for _, p := range fn.Params {
		if ssa.Value(p) == v {
			return true
		}
	}
	return false
}

// storageWriters: saveVertexToStorage is called only from the callback of truncate's save walk, i.e. only
// for vertices that the same truncation removes from the live DAG (the walk never yields its start vertex,
// which stays live). Any other caller would leave a vertex in both the live DAG and checkpoint storage.
func storageWriters(w *World, r *Report, rule string) {
	r.rule(rule, "saveVertexToStorage is called only from the callback of truncate's funds/save walk (so exactly the vertices the deletion walk removes are checkpointed: none is both live and stored)", 1)
	m := truncateModel(w)
	var walkCb *ssa.Function
	if m.save != nil {
		walkCb = m.save.cb
	}
	// a named callback must have no other use than being the save walk's callback
	onlyCallback := true
	if walkCb != nil && walkCb.Parent() == nil {
		if len(staticCallers(w, walkCb)) > 0 {
			onlyCallback = false
		}
	}
	n := 0
	for _, fn := range w.RepoFuncs("accountant") {
		for _, c := range callsTo(fn, cn("accountant", "*AccountingBook", "saveVertexToStorage")) {
			n++
			inCb := walkCb != nil && (fn == walkCb || (walkCb.Parent() == nil && len(cbCalls(walkCb, func(x ssa.CallInstruction) bool { return x == c })) > 0) || ownedBy(w, walkCb)[fn])
			r.check(inCb && onlyCallback, rule, shortFn(fn)+"/saveVertexToStorage", lineOf(w, c), "vertices are written to checkpoint storage only by the truncation walk callback", "called from "+shortFn(fn))
		}
	}
	if n == 0 {
		r.bad(rule, "saveVertexToStorage/callers", "-", "the truncation walk saves vertices", "no caller found")
	}
}

// rollbackReservation: a rejected admission leaves no index entry behind (shared by C03 and C15).
func rollbackReservation(w *World, r *Report, rule string) {
	r.rule(rule, "after a successful reservation every path to an error return passes removeTrxInVertex of the same hash; no path to a success return does", 4)
	for _, spec := range []string{"addLeafMemorized", "CreateLeaf"} {
		f := w.fx(r, "accountant", "AccountingBook", spec)
		if f == nil {
			continue
		}
		for _, d := range deepCalls(f.fn, func(c ssa.CallInstruction) bool { return calleeName(c) == nSaveTrx }, deepDepth) {
			g := d.c
			_, ga := callArgs(g)
			hp := d.path(ga[0])
			isRemove := func(in ssa.Instruction, fr *frame) bool {
				c, ok := in.(ssa.CallInstruction)
				if !ok || calleeName(c) != nRemoveTrx {
					return false
				}
				_, a := callArgs(c)
				return fr.cx.res(a[0]) == hp
			}
			// start on the success edges; helpers are followed, so a helper that cleans up before it reports a
			// failure counts, and its successful return does not
			type rmSite struct {
				in ssa.Instruction
				fr *frame
			}
			var removals []rmSite
			var badErr, nSucc int
			for _, e := range passErrNil(g) {
				dw := newDeepWalk(func(in ssa.Instruction, fr *frame) bool {
					if isRemove(in, fr) {
						removals = append(removals, rmSite{in, fr})
						return true
					}
					if ret, ok := in.(*ssa.Return); ok && fr.top() {
						if successReturn(ret) {
							nSucc++
						} else {
							badErr++
						}
						return true
					}
					return false
				})
				dw.run(frameFor(f.fn, d.chain), e.To(), 0)
			}
			r.check(badErr == 0 && nSucc > 0, rule, spec+"/error-paths("+hp+")", lineOf(w, g),
				"every error return after the reservation passes removeTrxInVertex("+hp+")", fmt.Sprintf("%d error returns reachable without the removal; %d success returns", badErr, nSucc))
			// success returns must not be reachable from a removal
			bad := 0
			for _, rm := range removals {
				dw := newDeepWalk(func(x ssa.Instruction, fr *frame) bool {
					if ret, ok := x.(*ssa.Return); ok && fr.top() {
						if successReturn(ret) {
							bad++
						}
						return true
					}
					return false
				})
				dw.run(rm.fr, rm.in.Block(), indexIn(rm.in.Block(), rm.in)+1)
			}
			r.check(bad == 0, rule, spec+"/success-paths("+hp+")", lineOf(w, g), "no success return after the index entry was removed", fmt.Sprintf("%d success returns reachable after removeTrxInVertex", bad))
		}
	}
}

// reserveBeforeInsert: shared by C03 (all admission sites) and C14 (only = "LoadDag": a stream that carries one
// transaction in two vertices is refused because the second reservation fails).
func reserveBeforeInsert(w *World, r *Report, rule, only string, floor int) {
	r.rule(rule, "every AddVertexByID(id, v) is dominated by the success edge of saveTrxInVertex(v.Transaction.Hash, v.Hash) for the same v", floor)
	// Every insertion site is judged from the entry functions that reach it (the site itself when it sits in one): the
	// reservation may sit in the same function, in a helper called before, or in the caller of the helper that inserts.
	type site struct {
		d   dcall
		top *ssa.Function
	}
	var sites []site
	entries := []string{"CreateGenesis", "CreateLeaf", "LoadDag", "addLeafMemorized"}
	if only != "" {
		entries = []string{only}
	}
	covered := map[ssa.CallInstruction]bool{}
	for _, name := range entries {
		top := w.Func("accountant", "AccountingBook", name)
		if top == nil {
			continue
		}
		for _, d := range deepCalls(top, byName(nAddVertexByID), deepDepth) {
			sites = append(sites, site{d, top})
			covered[d.c] = true
		}
	}
	if only == "" {
		for _, s := range admissionSites(w) { // insertion sites not reached from the known entries are judged where they are
			if !covered[s] {
				sites = append(sites, site{dcall{c: s}, s.Parent()})
			}
		}
	}
	for _, st := range sites {
		s := st.d.c
		fn := s.Parent()
		r.seen(shortFn(fn))
		_, args := callArgs(s)
		v := st.d.path(args[1])
		key := shortFn(fn) + "/AddVertexByID(" + pathOf(args[1]) + ")"
		why := "no saveTrxInVertex call in the function"
		reserved := func(fn2 *ssa.Function, res resolver) []Edge {
			var es []Edge
			for _, g := range callsTo(fn2, nSaveTrx) {
				_, ga := callArgs(g)
				hashOK := res(ga[0]) == v+".Transaction.Hash"
				if !hashOK { // a locally created vertex: NewVertex(trx, …) and the reservation names trx.Hash
					if t, _ := newVertexSource(st.top, v); t != "" && res(ga[0]) == t+".Hash" {
						hashOK = true
					}
				}
				if res(ga[1]) != v+".Hash" || !hashOK {
					why = fmt.Sprintf("reservation is for (%s, %s), not for the inserted vertex %s", res(ga[0]), res(ga[1]), v)
					continue
				}
				why = "saveTrxInVertex at " + lineOf(w, g) + " does not dominate the insertion through its success edge"
				es = append(es, passErrNil(g)...)
			}
			return es
		}
		found := behindDeepSite(st.d, reserved)
		r.check(found, rule, key, lineOf(w, s), "insertion only after the transaction hash was reserved for this vertex", why)
	}
}

// deleteWithIndex: a vertex that leaves the live graph outside a truncation takes its index entry with it — on every
// path, and the entry released is the one of the deleted vertex (shared by C03 and C09: a dangling entry refuses the
// vertex, and every vertex carrying that transaction, for good).
func deleteWithIndex(w *World, r *Report, rule string) {
	r.rule(rule, "every DeleteVertex(v) outside truncate is followed on all paths by removeTrxInVertex(v.Transaction.Hash)", 2)
	for _, fn := range w.RepoFuncs("accountant") {
		for _, d := range callsTo(fn, nDeleteVertex) {
			if truncateOwns(w, d) {
				continue
			}
			_, a := callArgs(d)
			vx, ok := vertexOfHashArg(a[0])
			key := shortFn(fn) + "/DeleteVertex"
			if !ok {
				r.undecided(rule, key, lineOf(w, d), "deleted vertex must be identifiable", "argument is not string(v.Hash[:]): "+pathOf(a[0]))
				continue
			}
			v := pathOf(vx)
			exits := exitsAvoiding(d, nil, func(in ssa.Instruction) bool {
				c, ok := in.(ssa.CallInstruction)
				if !ok || calleeName(c) != nRemoveTrx {
					return false
				}
				_, ra := callArgs(c)
				return trxHashPathOKUp(w, fn, v, pathOf(ra[0]), 2)
			})
			r.check(len(exits) == 0, rule, key+"("+v+")", lineOf(w, d), "index entry of the deleted vertex is removed on every path", fmt.Sprintf("%d exits reachable without removeTrxInVertex(%s.Transaction.Hash)", len(exits), v))
		}
	}
}
