package main

// The truncation model: the roles of truncate's steps are recognised by what they do (which callback a
// walk runs, which call deletes), wherever in truncate or in the unexported helpers it calls they sit.
// The obligations of C01, C03, C06, C07 and C09 about truncation are phrased over this model, so splitting
// truncate into helpers, or turning its function literals into methods, leaves every verdict unchanged.

import (
	"fmt"
	"strings"

	"golang.org/x/tools/go/ssa"
)

type truncWalk struct {
	d      dcall         // the performOnAncestorWalker call
	root   string        // path of the start vertex id, in truncate's naming
	cb     *ssa.Function // function whose body is the callback (the literal, or the method behind a method value)
	cbArg  int           // index of the vertex parameter in cb
	cbRecv ssa.Value     // receiver bound by a method value (nil for literals)
	lit    bool
}

type truncModel struct {
	w     *World
	top   *ssa.Function
	walks []*truncWalk
	depth *truncWalk // finds the cut
	save  *truncWalk // accumulates funds and checkpoints vertices
	del   *truncWalk // collects the ids to delete
	dels  []dcall    // DeleteVertex calls
	saves []dcall    // fundsMemMap.saveToStorage calls
	prev  []dcall    // forEachfundFromStorage calls
	why   string
}

// callbackBody resolves a function value passed as callback.
func callbackBody(v ssa.Value) (body *ssa.Function, arg int, recv ssa.Value, literal bool) {
	switch x := v.(type) {
	case *ssa.MakeClosure:
		f, ok := x.Fn.(*ssa.Function)
		if !ok {
			return nil, 0, nil, false
		}
		if f.Synthetic != "" && strings.HasSuffix(f.Name(), "$bound") && len(x.Bindings) == 1 {
			var m *ssa.Function
			instrsOf(f, func(in ssa.Instruction) {
				if c, ok := in.(ssa.CallInstruction); ok && m == nil {
					m = c.Common().StaticCallee()
				}
			})
			if m != nil && len(m.Blocks) > 0 {
				return m, 1, x.Bindings[0], false
			}
			return nil, 0, nil, false
		}
		return f, 0, nil, f.Parent() != nil
	case *ssa.Function:
		return x, 0, nil, x.Parent() != nil
	case *ssa.Call:
		// a constructor of the callback: `ab.checkpointVertex(&fm)` returning the function literal
		if cal := x.Call.StaticCallee(); cal != nil && isRepoFunc(cal) && len(cal.Blocks) > 0 {
			rets := returnsOf(cal)
			if len(rets) == 1 && len(rets[0].Results) == 1 {
				return callbackBody(rets[0].Results[0])
			}
		}
	}
	return nil, 0, nil, false
}

func cbCalls(cb *ssa.Function, pred func(ssa.CallInstruction) bool) []dcall {
	if cb == nil {
		return nil
	}
	return deepCalls(cb, pred, 1)
}

func byName(names ...string) func(ssa.CallInstruction) bool {
	return func(c ssa.CallInstruction) bool {
		n := calleeName(c)
		for _, x := range names {
			if n == x {
				return true
			}
		}
		return false
	}
}

func bySuffix(suf string) func(ssa.CallInstruction) bool {
	return func(c ssa.CallInstruction) bool { return strings.HasSuffix(calleeName(c), suf) }
}

var (
	nWalker      = cn("accountant", "*AccountingBook", "performOnAncestorWalker")
	nNextVertex  = cn("accountant", "*fundsMemMap", "nextVertex")
	nSaveVertex  = cn("accountant", "*AccountingBook", "saveVertexToStorage")
	nSaveFunds   = cn("accountant", "*fundsMemMap", "saveToStorage")
	nPrevFunds   = cn("accountant", "*AccountingBook", "forEachfundFromStorage")
	nDepthNext   = cn("accountant", "*hashAtDepth", "next")
	nDepthGetter = cn("accountant", "*hashAtDepth", "getHash")
)

var truncModels = map[*World]*truncModel{}

func truncateModel(w *World) *truncModel {
	if m, ok := truncModels[w]; ok {
		return m
	}
	m := &truncModel{w: w}
	truncModels[w] = m
	m.top = w.Func("accountant", "AccountingBook", "truncate")
	if m.top == nil || len(m.top.Blocks) == 0 {
		m.why = "truncate not found"
		return m
	}
	for _, d := range deepCalls(m.top, byName(nWalker), deepDepth) {
		_, a := callArgs(d.c)
		if len(a) < 3 {
			continue
		}
		tw := &truncWalk{d: d, root: d.path(a[1])}
		tw.cb, tw.cbArg, tw.cbRecv, tw.lit = callbackBody(a[2])
		m.walks = append(m.walks, tw)
		switch {
		case tw.cb != nil && tw.cb.String() == nDepthNext:
			m.depth = tw
		case len(cbCalls(tw.cb, byName(nSaveVertex))) > 0 || len(cbCalls(tw.cb, byName(nNextVertex))) > 0:
			if m.save != nil {
				m.why = "more than one funds/save walk"
			}
			m.save = tw
		case len(cbCalls(tw.cb, bySuffix("strBuffer).add"))) > 0:
			m.del = tw
		}
	}
	m.dels = deepCalls(m.top, byName(nDeleteVertex), deepDepth)
	m.saves = deepCalls(m.top, byName(nSaveFunds), deepDepth)
	m.prev = deepCalls(m.top, byName(nPrevFunds), deepDepth)
	return m
}

func (m *truncModel) complete() bool {
	return m.top != nil && m.depth != nil && m.save != nil && m.del != nil && len(m.dels) > 0
}

func (m *truncModel) describe() string {
	if m.top == nil {
		return m.why
	}
	return fmt.Sprintf("walks=%d depth-walk=%v save-walk=%v delete-walk=%v deletions=%d %s", len(m.walks), m.depth != nil, m.save != nil, m.del != nil, len(m.dels), m.why)
}

// cutFromDepthWalk: the root of the save walk is the hash the depth walk's collector reports.
func (m *truncModel) cutFromDepthWalk() (bool, string) {
	if m.depth == nil || m.save == nil || m.depth.cbRecv == nil {
		return false, "no depth walk with a bound collector"
	}
	_, a := callArgs(m.save.d.c)
	v := m.save.d.argValue(a[1])
	// the collector may live in the helper that runs the depth walk: compare receivers inside that function
	okGetter := func(c *ssa.Call) bool {
		if calleeName(c) != nDepthGetter {
			return false
		}
		recv, _ := callArgs(c)
		return c.Parent() == m.depth.d.c.Parent() && sameVal(recv, m.depth.cbRecv)
	}
	var chase func(v ssa.Value, depth int) bool
	chase = func(v ssa.Value, depth int) bool {
		if depth > 6 || v == nil {
			return false
		}
		for i := 0; i < 8; i++ { // through conversions, slicing and the local array copy
			switch x := v.(type) {
			case *ssa.Convert:
				v = x.X
				continue
			case *ssa.ChangeType:
				v = x.X
				continue
			case *ssa.Slice:
				v = x.X
				continue
			case *ssa.UnOp:
				v = x.X
				continue
			}
			break
		}
		switch x := v.(type) {
		case *ssa.Alloc:
			ok := false
			for _, ref := range *x.Referrers() {
				if st, isSt := ref.(*ssa.Store); isSt && st.Addr == ssa.Value(x) {
					if chase(st.Val, depth+1) {
						ok = true
					}
				}
			}
			return ok
		case *ssa.Call:
			if okGetter(x) {
				return true
			}
		case *ssa.Extract:
			if c, isCall := x.Tuple.(*ssa.Call); isCall {
				if h := samePkgHelper(c.Parent(), c); h != nil {
					ok := false
					for _, ret := range returnsOf(h) {
						if x.Index < len(ret.Results) {
							vals, _ := resultVals(ret, x.Index)
							for _, rv := range vals {
								if chase(rv, depth+1) {
									ok = true
								}
							}
						}
					}
					return ok
				}
			}
		case *ssa.Phi:
			for _, e := range x.Edges {
				if chase(e, depth+1) {
					return true
				}
			}
		case *ssa.Parameter:
			// the save walk sits in a helper that is handed the cut: continue with the argument at the call
			// site through which the walk was reached
			for _, cs := range m.save.d.chain {
				if cal := cs.Common().StaticCallee(); cal != nil && cal == x.Parent() {
					for k, p := range cal.Params {
						if p == x && k < len(cs.Common().Args) {
							return chase(cs.Common().Args[k], depth+1)
						}
					}
				}
			}
		}
		return false
	}
	if chase(v, 0) {
		return true, ""
	}
	return false, "the start vertex of the save walk does not originate from the depth collector's getHash()"
}

// tolerated: the edges on which errors.Is(err, ErrBreak) holds for the error of call c.
func toleratedBreak(c ssa.CallInstruction) []Edge {
	var es []Edge
	ev := errResult(c)
	if ev == nil {
		return nil
	}
	for _, ic := range callsTo(c.Parent(), "errors.Is") {
		a := ic.Common().Args
		if sameVal(a[0], ev) && describeErrVal(a[1]) == "ErrBreak" {
			es = append(es, passBool(ic, 0, true)...)
		}
	}
	return es
}

// reachesDeep: starting after/at the given points, is an instruction satisfying target reachable (helpers followed)?
func reachesDeep(fr *frame, b *ssa.BasicBlock, i int, cut map[Edge]bool, target func(ssa.Instruction, *frame) bool) bool {
	hit := false
	dw := newDeepWalk(func(in ssa.Instruction, f *frame) bool {
		if target(in, f) {
			hit = true
			return true
		}
		return hit
	})
	dw.cutFixed = cut
	dw.run(fr, b, i)
	return hit
}

func isCallNamed(name string) func(ssa.Instruction, *frame) bool {
	return func(in ssa.Instruction, _ *frame) bool {
		c, ok := in.(ssa.CallInstruction)
		return ok && calleeName(c) == name
	}
}

// truncateObligations emits the C07 obligations about the shape of a truncation.
func truncateObligations(w *World, r *Report, li *LockInfo) {
	m := truncateModel(w)
	r.rule("same-cut", "the funds/save walk and the deletion walk start at the identical cut vertex, which is the hash collected by the depth walk", 2)
	if !m.complete() {
		r.bad("same-cut", "truncate/walks", "-", "truncate consists of a depth walk, a funds/save walk, a collecting walk and the deletion of what was collected", m.describe())
		return
	}
	fn := m.top
	r.seen(shortFn(fn))
	r.check(m.save.root == m.del.root, "same-cut", "truncate/walk-roots", lineOf(w, m.del.d.c), "save walk and delete walk have the same root", fmt.Sprintf("%s vs %s", m.save.root, m.del.root))
	okCut, whyCut := m.cutFromDepthWalk()
	r.check(okCut, "same-cut", "truncate/cut-from-depth-walk", lineOf(w, m.depth.d.c), "the cut is the hash collected by the first walk's depth counter", whyCut)

	r.rule("delete-after-save", "DeleteVertex is reachable only after the save walk succeeded (nil or the tolerated ErrBreak) and the checkpoint write succeeded", 3)
	for i, tw := range []*truncWalk{m.save, m.del} {
		fes := failErrNonNil(tw.d.c)
		cut := edgeSet(toleratedBreak(tw.d.c))
		okW := len(fes) > 0
		for _, fe := range fes {
			if reachesDeep(frameFor(fn, tw.d.chain), fe.To(), 0, cut, isCallNamed(nDeleteVertex)) {
				okW = false
			}
		}
		r.check(okW, "delete-after-save", fmt.Sprintf("truncate/after-walk#%d", i+2), lineOf(w, tw.d.c), "a failed walk (other than the tolerated ErrBreak) never leads to the deletion", "deletion reachable from the walk's failure edge")
	}
	saved := func(fn2 *ssa.Function, _ resolver) []Edge {
		var es []Edge
		for _, c := range callsTo(fn2, nSaveFunds) {
			es = append(es, passErrNil(c)...)
		}
		return es
	}
	for _, d := range m.dels {
		r.check(behindDeepSite(d, saved), "delete-after-save", "truncate/after-checkpoint-write", lineOf(w, d.c), "vertices are deleted only after the funds checkpoint was written", "deletion not dominated by saveToStorage == nil")
		// order: no way from the entry to the deletion that avoids either walk
		okOrder := true
		for _, tw := range []*truncWalk{m.save, m.del} {
			wc := tw.d.c.(ssa.Instruction)
			reached := false
			dw := newDeepWalk(func(in ssa.Instruction, _ *frame) bool {
				if in == wc {
					return true
				}
				if in == d.c.(ssa.Instruction) {
					reached = true
				}
				return reached
			})
			dw.run(topFrame(fn), fn.Blocks[0], 0)
			if reached {
				okOrder = false
			}
		}
		r.check(okOrder, "delete-after-save", "truncate/order", lineOf(w, d.c), "deletion is dominated by both walks", "order violated")
	}

	saveWhatIsCounted(w, r, m)

	r.rule("under-ledger-lock", "the whole truncation runs with AccountingBook.mux held exclusively; the previous checkpoint is loaded before the funds walk", 5)
	var steps []dcall
	for _, tw := range m.walks {
		steps = append(steps, tw.d)
	}
	steps = append(steps, m.dels...)
	steps = append(steps, m.saves...)
	steps = append(steps, m.prev...)
	steps = append(steps, deepCalls(fn, byName(dagM("GetLeaves")), deepDepth)...)
	for _, d := range steps {
		held := li.At(d.c)
		r.check(held.Has(abMux, "W"), "under-ledger-lock", "truncate/"+shortCallee(d.c), lineOf(w, d.c), "step runs under the exclusive ledger lock", "lockset "+held.String())
	}
	seeded := func(fn2 *ssa.Function, _ resolver) []Edge {
		var es []Edge
		for _, c := range callsTo(fn2, nPrevFunds) {
			_, a := callArgs(c)
			if body, _, _, _ := callbackBody(a[0]); body != nil && strings.HasSuffix(body.String(), "fundsMemMap).set") {
				es = append(es, passErrNil(c)...)
			}
		}
		return es
	}
	r.check(behindDeepSite(m.save.d, seeded), "under-ledger-lock", "truncate/previous-checkpoint-first", lineOf(w, m.save.d.c), "the stored checkpoint seeds the funds map before vertices are accumulated", "forEachfundFromStorage(fm.set) does not dominate the funds walk")
}

// prunedAreCheckpointed (C09): what truncation deletes from the live DAG is what it has checkpointed — the
// deletion set is gathered by a walk from the same cut as the save walk, so a vertex that stays live never
// declares a parent that is neither live nor checkpointed.
func prunedAreCheckpointed(w *World, r *Report, rule string) {
	m := truncateModel(w)
	if !m.complete() {
		r.bad(rule, "truncate/walks", "-", "truncate consists of a depth walk, a funds/save walk, a collecting walk and the deletion of what was collected", m.describe())
		return
	}
	r.check(m.save.root == m.del.root, rule, "truncate/deleted-set-is-saved-set", lineOf(w, m.del.d.c), "the collecting walk starts at the vertex the save walk started at", fmt.Sprintf("%s vs %s", m.save.root, m.del.root))
	// the save walk covers what the collecting walk covers: its callback lets the walk go on (nil) or end quietly (the
	// walker's stop sentinel, which truncate tolerates) only after the vertex at hand was stored
	if cb := m.save.cb; cb != nil && m.save.cbArg < len(cb.Params) {
		v := cb.Params[m.save.cbArg].Name()
		saved := func(fn2 *ssa.Function, res resolver) []Edge {
			var es []Edge
			for _, c := range callsTo(fn2, nSaveVertex) {
				_, a := callArgs(c)
				if len(a) > 0 && res(a[0]) == v {
					if guardCallSink != nil {
						*guardCallSink = append(*guardCallSink, guardHit{c, "errnil"})
					}
					es = append(es, passErrNil(c)...)
				}
			}
			return es
		}
		svE := deepEdges(cb, idRes, saved, 1)
		var saveCalls []ssa.CallInstruction
		for _, c := range callsTo(cb, nSaveVertex) {
			_, a := callArgs(c)
			if pathOf(a[0]) == v {
				saveCalls = append(saveCalls, c)
			}
		}
		bad := ""
		for _, ret := range returnsOf(cb) {
			vals, zero := resultVals(ret, 0)
			quiet := zero || successReturn(ret)
			for _, rv := range vals {
				if strings.HasSuffix(pathOf(rv), ".ErrBreak") {
					quiet = true
				}
			}
			if !quiet {
				continue
			}
			propagates := false
			for _, sc := range saveCalls {
				if len(vals) == 1 && sameVal(vals[0], callValue(sc)) {
					propagates = true
				}
			}
			if !behind(ret, svE) && !propagates {
				bad += " return at " + lineOf(w, ret) + " lets the walk continue or stop quietly without the vertex having been stored;"
			}
		}
		r.check(bad == "" && (len(svE) > 0 || len(saveCalls) > 0), rule, "truncate/save-walk-covers-the-cut", w.Pos(cb.Pos()), "every ancestor the deletion removes was stored by the save walk, or the truncation fails", bad)
	}
	for _, d := range m.dels {
		_, da := callArgs(d.c)
		fromBuf := false
		for _, o := range origins(da[0]) {
			if ex, isEx := o.(*ssa.Extract); isEx {
				if c, isCall := ex.Tuple.(*ssa.Call); isCall && strings.HasSuffix(calleeName(c), "strBuffer).next") {
					fromBuf = true
				}
			}
		}
		r.check(fromBuf, rule, "truncate/DeleteVertex", lineOf(w, d.c), "only ids gathered by the collecting walk are deleted", "deleted id has another origin: "+pathOf(da[0]))
	}
}

// truncateOwns: call c is one of truncate's own deletions — it sits in truncate or in a helper that is
// reached from nowhere else.
func truncateOwns(w *World, c ssa.CallInstruction) bool {
	m := truncateModel(w)
	for _, d := range m.dels {
		if d.c != c {
			continue
		}
		for _, cs := range d.chain {
			h := calleeOf(cs)
			for _, caller := range staticCallers(w, h) {
				okCaller := caller.Parent() == m.top
				for _, cs2 := range d.chain {
					if caller.Parent() == calleeOf(cs2) {
						okCaller = true
					}
				}
				if !okCaller {
					return false
				}
			}
		}
		return true
	}
	return false
}

// checkpointCountsOnlyTheWalked (C01): the funds that a truncation folds into the checkpoint are those of the vertices the
// save walk visits — the ancestors of the cut, each of which has a child and was therefore validated when that child was
// built on it. A vertex handed to the fold from anywhere else (a sweep over the graph, a tip) is counted without ever
// having been validated: the truncation confirms it.
func checkpointCountsOnlyTheWalked(w *World, r *Report, rule string) {
	r.rule(rule, "truncate: fundsMemMap.nextVertex is called only inside the callback of the save walk, and that callback is used for nothing but the save walk (it is not called directly and not handed to another walk): only ancestors of the cut — vertices that have a child — are folded into the checkpoint", 1)
	m := truncateModel(w)
	if !m.complete() {
		r.bad(rule, "truncate/walks", "-", "truncate consists of a depth walk, a funds/save walk, a collecting walk and the deletion of what was collected", m.describe())
		return
	}
	cb := m.save.cb
	bad := ""
	// 1. every fold call sits in the callback (or in a helper only the callback reaches)
	inCb := ownedBy(w, cb)
	nFold := 0
	for _, fn := range w.RepoFuncs("accountant") {
		for _, c := range callsTo(fn, nNextVertex) {
			nFold++
			if !inCb[fn] {
				bad += fmt.Sprintf(" nextVertex is called in %s at %s, outside the callback of the save walk;", shortFn(fn), lineOf(w, c))
			}
		}
	}
	// 2. the callback serves the save walk only
	_, wa := callArgs(m.save.d.c)
	switch x := wa[2].(type) {
	case *ssa.MakeClosure:
		for _, ref := range *x.Referrers() {
			if ci, isCall := ref.(ssa.CallInstruction); isCall && ci == m.save.d.c {
				continue
			}
			if _, dbg := ref.(*ssa.DebugRef); dbg {
				continue
			}
			bad += fmt.Sprintf(" the callback of the save walk is also used at %s (%s): vertices reach the fold that the walk from the cut did not visit;", lineOf(w, ref), ref.String())
		}
	}
	if m.save.lit == false && cb != nil {
		for _, cs := range staticCallers(w, cb) {
			if cs.Parent().Synthetic != "" {
				continue
			}
			bad += fmt.Sprintf(" the save callback %s is also called directly at %s;", shortFn(cb), lineOf(w, cs))
		}
	}
	r.check(bad == "" && nFold > 0, rule, "truncate/fold-sites", lineOf(w, m.save.d.c), "the checkpoint fold sees exactly the vertices of the save walk", bad)
}

// ownedBy: cb and the functions (helpers, sibling function literals) that are called from cb and from nowhere else.
func ownedBy(w *World, cb *ssa.Function) map[*ssa.Function]bool {
	in := map[*ssa.Function]bool{cb: true}
	if cb == nil {
		return in
	}
	for _, d := range deepCalls(cb, func(ssa.CallInstruction) bool { return true }, 2) {
		if cal := calleeOf(d.c); cal != nil && isRepoFunc(cal) && !in[cal] {
			only := true
			for _, cs := range staticCallers(w, cal) {
				if !in[cs.Parent()] {
					only = false
				}
			}
			if only {
				in[cal] = true
			}
		}
	}
	return in
}

// saveWhatIsCounted: a vertex's transfer lives in exactly one of two places — the checkpoint or the live graph. The save
// walk's callback counts and stores the same vertex, succeeds only when both succeeded, and what is deleted is what the
// collecting walk gathered (shared by C06 and C07).
func saveWhatIsCounted(w *World, r *Report, m *truncModel) {
	if !m.complete() {
		r.bad("save-what-is-counted", "truncate/walks", "-", "truncate consists of a depth walk, a funds/save walk, a collecting walk and the deletion of what was collected", m.describe())
		return
	}
	r.rule("save-what-is-counted", "the callback of the funds walk saves every vertex whose funds it accumulates (same callback, same vertex), and the ids deleted are the ones the collecting walk gathered", 2)
	if cb := m.save.cb; cb != nil && m.save.cbArg < len(cb.Params) {
		v := cb.Params[m.save.cbArg].Name()
		r.seen(shortFn(cb))
		stepOK := func(callee string) gspec {
			return func(fn2 *ssa.Function, res resolver) []Edge {
				var es []Edge
				for _, c := range callsTo(fn2, callee) {
					_, a := callArgs(c)
					if len(a) > 0 && res(a[0]) == v {
						if guardCallSink != nil {
							*guardCallSink = append(*guardCallSink, guardHit{c, "errnil"})
						}
						es = append(es, passErrNil(c)...)
					}
				}
				return es
			}
		}
		nvE := deepEdges(cb, idRes, stepOK(nNextVertex), 1)
		svE := deepEdges(cb, idRes, stepOK(nSaveVertex), 1)
		var saveCalls []ssa.CallInstruction
		for _, c := range callsTo(cb, nSaveVertex) {
			_, a := callArgs(c)
			if pathOf(a[0]) == v {
				saveCalls = append(saveCalls, c)
			}
		}
		ok := len(nvE) > 0 && (len(svE) > 0 || len(saveCalls) > 0)
		for _, ret := range returnsOf(cb) {
			if !successReturn(ret) {
				continue
			}
			propagates := false
			vals, _ := resultVals(ret, 0)
			for _, sc := range saveCalls {
				if len(vals) == 1 && sameVal(vals[0], callValue(sc)) {
					propagates = true
				}
			}
			if !behind(ret, nvE) || !(behind(ret, svE) || propagates) {
				ok = false
			}
		}
		r.check(ok, "save-what-is-counted", "truncate/perform", w.Pos(cb.Pos()), "the walk callback succeeds only after nextVertex(v) and saveVertexToStorage(v) both succeeded", fmt.Sprintf("nextVertex-edges=%d save-edges=%d", len(nvE), len(svE)))
	} else {
		r.bad("save-what-is-counted", "truncate/perform", lineOf(w, m.save.d.c), "the funds walk callback must be resolvable (function literal, function or method value)", "not resolvable")
	}
	if cb := m.del.cb; cb != nil && m.del.cbArg < len(cb.Params) {
		v := cb.Params[m.del.cbArg].Name()
		ok := false
		for _, d := range cbCalls(cb, bySuffix("strBuffer).add")) {
			_, a := callArgs(d.c)
			if x, isV := vertexOfHashArg(a[0]); isV && d.path(x) == v {
				ok = true
			}
		}
		for _, d := range m.dels {
			_, da := callArgs(d.c)
			fromBuf := false
			for _, o := range origins(da[0]) {
				if ex, isEx := o.(*ssa.Extract); isEx {
					if c, isCall := ex.Tuple.(*ssa.Call); isCall && strings.HasSuffix(calleeName(c), "strBuffer).next") {
						fromBuf = true
					}
				}
			}
			ok = ok && fromBuf
		}
		r.check(ok, "save-what-is-counted", "truncate/delete-set", w.Pos(cb.Pos()), "the ids deleted are exactly the hashes collected by the third walk", "collector or deletion loop not bound")
	} else {
		r.bad("save-what-is-counted", "truncate/delete-set", lineOf(w, m.del.d.c), "the collecting callback must be resolvable", "not resolvable")
	}
}
