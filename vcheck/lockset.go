package main

// Must-hold locksets (intersection at joins), inter-procedural by propagating the intersection of
// the locksets at all call sites to the callee's entry (context-insensitive fixpoint over the
// VTA call graph). Locks are identified by (named struct type).(field) — one instance of each
// long-lived struct per node process.

import (
	"go/types"
	"sort"
	"strings"

	"golang.org/x/tools/go/ssa"
)

type LockSet struct {
	top bool
	m   map[string]bool // "W:pkg.Type.field" | "R:pkg.Type.field"
}

func (l LockSet) clone() LockSet {
	n := LockSet{top: l.top, m: map[string]bool{}}
	for k := range l.m {
		n.m[k] = true
	}
	return n
}

func (l LockSet) meet(o LockSet) LockSet {
	if l.top {
		return o.clone()
	}
	if o.top {
		return l.clone()
	}
	n := LockSet{m: map[string]bool{}}
	for k := range l.m {
		if o.m[k] {
			n.m[k] = true
		} else if strings.HasPrefix(k, "W:") && o.m["R:"+k[2:]] {
			n.m["R:"+k[2:]] = true // held exclusively on one path, shared on the other: held (shared) on both
		} else if strings.HasPrefix(k, "R:") && o.m["W:"+k[2:]] {
			n.m[k] = true
		}
	}
	return n
}

func (l LockSet) equal(o LockSet) bool {
	if l.top != o.top || len(l.m) != len(o.m) {
		return false
	}
	for k := range l.m {
		if !o.m[k] {
			return false
		}
	}
	return true
}

func (l LockSet) String() string {
	if l.top {
		return "{⊤}"
	}
	var s []string
	for k := range l.m {
		s = append(s, k)
	}
	sort.Strings(s)
	return "{" + strings.Join(s, ",") + "}"
}

// Has reports whether lock id is held in the given mode ("W", "R" or "" for any mode).
func (l LockSet) Has(id, mode string) bool {
	if l.top {
		return true
	}
	switch mode {
	case "W":
		return l.m["W:"+id]
	case "R":
		return l.m["R:"+id]
	}
	return l.m["W:"+id] || l.m["R:"+id]
}

// lockIdent names the mutex a Lock/Unlock call operates on, from the receiver address.
func lockIdent(recv ssa.Value) string {
	recv = strip(recv)
	switch x := recv.(type) {
	case *ssa.FieldAddr:
		t := x.X.Type()
		if p, ok := t.Underlying().(*types.Pointer); ok {
			t = p.Elem()
		}
		name := t.String()
		if n, ok := t.(*types.Named); ok {
			name = n.Obj().Pkg().Name() + "." + n.Obj().Name()
		}
		return name + "." + fieldName(x.X.Type(), x.Field)
	case *ssa.Global:
		return x.Pkg.Pkg.Name() + "." + x.Name()
	case *ssa.Alloc:
		return "local:" + allocName(x)
	}
	return "?:" + recv.Name()
}

// lockOp classifies a call as a mutex operation. op is "lock" or "unlock".
func lockOp(c ssa.CallInstruction) (op, mode, id string, ok bool) {
	n := calleeName(c)
	switch n {
	case "(*sync.RWMutex).Lock", "(*sync.Mutex).Lock":
		op, mode = "lock", "W"
	case "(*sync.RWMutex).RLock":
		op, mode = "lock", "R"
	case "(*sync.RWMutex).Unlock", "(*sync.Mutex).Unlock":
		op, mode = "unlock", "W"
	case "(*sync.RWMutex).RUnlock":
		op, mode = "unlock", "R"
	default:
		return "", "", "", false
	}
	recv, _ := callArgs(c)
	if recv == nil {
		return "", "", "", false
	}
	return op, mode, lockIdent(recv), true
}

type LockInfo struct {
	w     *World
	scope func(*ssa.Function) bool
	entry map[*ssa.Function]LockSet
	at    map[ssa.Instruction]LockSet
}

func (li *LockInfo) At(in ssa.Instruction) LockSet {
	if l, ok := li.at[in]; ok {
		return l
	}
	return LockSet{m: map[string]bool{}}
}

func (li *LockInfo) Entry(fn *ssa.Function) LockSet {
	if l, ok := li.entry[fn]; ok {
		return l
	}
	return LockSet{m: map[string]bool{}}
}

// flowFn runs the intra-procedural must analysis with the given entry set, records the set before
// every instruction when record is true and calls site for every call/go/defer.
func (li *LockInfo) flowFn(fn *ssa.Function, entry LockSet, record bool, site func(c ssa.CallInstruction, held LockSet)) {
	if len(fn.Blocks) == 0 {
		return
	}
	in := map[*ssa.BasicBlock]LockSet{}
	for _, b := range fn.Blocks {
		in[b] = LockSet{top: true}
	}
	in[fn.Blocks[0]] = entry.clone()
	transfer := func(b *ssa.BasicBlock, rec bool) LockSet {
		cur := in[b].clone()
		for _, ins := range b.Instrs {
			if rec && record {
				li.at[ins] = cur.clone()
			}
			c, ok := ins.(ssa.CallInstruction)
			if !ok {
				continue
			}
			if rec && site != nil {
				site(c, cur)
			}
			if _, isDefer := ins.(*ssa.Defer); isDefer {
				continue // deferred unlocks keep the lock until return
			}
			if _, isGo := ins.(*ssa.Go); isGo {
				continue
			}
			if op, mode, id, ok := lockOp(c); ok && !cur.top {
				if op == "lock" {
					cur.m[mode+":"+id] = true
				} else {
					delete(cur.m, mode+":"+id)
				}
			}
		}
		return cur
	}
	changed := true
	for iter := 0; changed && iter < 100; iter++ {
		changed = false
		for _, b := range fn.Blocks {
			out := transfer(b, false)
			for _, s := range b.Succs {
				n := in[s].meet(out)
				if !n.equal(in[s]) {
					in[s] = n
					changed = true
				}
			}
		}
	}
	for _, b := range fn.Blocks {
		transfer(b, true)
	}
}

// closureOf returns the anonymous function a value denotes (MakeClosure or bare function literal).
func closureOf(v ssa.Value) *ssa.Function {
	switch x := v.(type) {
	case *ssa.MakeClosure:
		if f, ok := x.Fn.(*ssa.Function); ok && f.Parent() != nil {
			return f
		}
	case *ssa.Function:
		if x.Parent() != nil {
			return x
		}
	}
	return nil
}

// closureEscapes reports whether some use of a function literal is not "callee or argument of a call".
func closureEscapes(fn *ssa.Function) bool {
	par := fn.Parent()
	if par == nil {
		return false
	}
	esc := false
	found := false
	instrsOf(par, func(in ssa.Instruction) {
		if mc, ok := in.(*ssa.MakeClosure); ok && mc.Fn == ssa.Value(fn) {
			return // the creation of the closure value is not a use of it
		}
		for _, op := range in.Operands(nil) {
			if *op == nil || closureOf(*op) != fn {
				continue
			}
			found = true
			if _, ok := in.(ssa.CallInstruction); !ok {
				esc = true
			}
		}
	})
	return esc || !found
}

// ComputeLocks computes entry locksets for all functions in scope and the lockset before every
// instruction. Named functions whose callers are not all in scope (handlers, exported API) and
// targets of go statements start with the empty set. A function literal that is only ever used as
// the callee or an argument of calls (callbacks such as db.Update(func…), perform closures) starts
// with the intersection of the locksets at those calls — the callback runs inside that call.
func ComputeLocks(w *World, scope func(*ssa.Function) bool) *LockInfo {
	li := &LockInfo{w: w, scope: scope, entry: map[*ssa.Function]LockSet{}, at: map[ssa.Instruction]LockSet{}}
	cg := w.CallGraph()
	var fns []*ssa.Function
	for fn := range w.AllFuncs() {
		if scope(fn) && len(fn.Blocks) > 0 {
			fns = append(fns, fn)
		}
	}
	sort.Slice(fns, func(i, j int) bool { return fns[i].String() < fns[j].String() })
	empty := LockSet{m: map[string]bool{}}
	for _, fn := range fns {
		li.entry[fn] = LockSet{top: true}
		if fn.Parent() != nil {
			if !scope(fn.Parent()) || closureEscapes(fn) {
				li.entry[fn] = empty.clone()
			}
			continue
		}
		node := cg.Nodes[fn]
		if node == nil || len(node.In) == 0 {
			li.entry[fn] = empty.clone()
			continue
		}
		for _, e := range node.In {
			if e.Caller == nil || e.Caller.Func == nil || !scope(e.Caller.Func) {
				li.entry[fn] = empty.clone()
				break
			}
		}
	}
	for iter := 0; iter < 50; iter++ {
		changed := false
		upd := func(cal *ssa.Function, passed LockSet) {
			n := li.entry[cal].meet(passed)
			if !n.equal(li.entry[cal]) {
				li.entry[cal] = n
				changed = true
			}
		}
		for _, fn := range fns {
			ent := li.entry[fn]
			if ent.top {
				continue // not yet reached from any analysed caller
			}
			node := cg.Nodes[fn]
			li.flowFn(fn, ent, false, func(c ssa.CallInstruction, held LockSet) {
				passed := held
				if _, isGo := c.(*ssa.Go); isGo {
					passed = empty
				}
				for _, op := range c.Operands(nil) {
					if *op == nil {
						continue
					}
					if cl := closureOf(*op); cl != nil && scope(cl) {
						upd(cl, passed)
					}
				}
				if node == nil {
					return
				}
				for _, e := range node.Out {
					if e.Site != c || e.Callee == nil || !scope(e.Callee.Func) || e.Callee.Func.Parent() != nil {
						continue
					}
					upd(e.Callee.Func, passed)
				}
			})
		}
		if !changed {
			break
		}
	}
	for _, fn := range fns {
		ent := li.entry[fn]
		if ent.top {
			ent = empty.clone() // unreachable in scope: analyse with nothing held
			li.entry[fn] = ent
		}
		li.flowFn(fn, ent, true, nil)
	}
	return li
}
