package main

// Interprocedural variants of the guard-dominance and path-pairing primitives.
//
// Rules are anchored at an entry function (addLeafMemorized, CreateLeaf, truncate, …). A maintainer may
// move part of such a body into an unexported helper of the same package without changing behaviour; the
// rule must then keep its verdict. Three summaries make that happen, each computed on demand, to a
// bounded depth, over static same-package calls:
//
//   ensures   — "helper H returns nil / true / false only behind guard G"  → the success edge of a call
//               to H counts as a success edge of G in the caller (deepEdges);
//   requires  — "effect E sits in helper H without a local guard"          → every call site of H must be
//               behind G (behindAll, upwards);
//   performs  — "every (error) return of H passes action A"                → a call to H counts as A
//               (passesDeep), or its failure edges count as already handled (handledFailEdges).
//
// Values are compared by access path. A resolver translates the path of a value that lives in a helper
// (or in a caller) into the naming of the function the rule is phrased in, by substituting parameter
// names with the argument paths at the call site (downwards) or the reverse (upwards).

import (
	"fmt"
	"go/types"
	"sort"
	"strconv"
	"strings"

	"golang.org/x/tools/go/ssa"
)

type resolver func(ssa.Value) string

func idRes(v ssa.Value) string { return pathOf(v) }

// gspec yields the edges of fn on which a guard is known to have passed; values are named through res.
type gspec func(fn *ssa.Function, res resolver) []Edge

const deepDepth = 2

// substPrefix replaces a leading `from` (whole path or followed by "." / "[") with `to`.
func substPrefix(p, from, to string) (string, bool) {
	if from == "" {
		return p, false
	}
	if p == from {
		return to, true
	}
	if strings.HasPrefix(p, from+".") || strings.HasPrefix(p, from+"[") {
		return to + p[len(from):], true
	}
	return p, false
}

// downRes: resolver for values inside the callee of cs, given the resolver of the calling function.
func downRes(outer resolver, cs ssa.CallInstruction) resolver {
	cal := calleeOf(cs)
	args := cs.Common().Args
	return func(v ssa.Value) string {
		// a value of the calling function (it reaches the callee's tests through a bound bool parameter,
		// see boundBool) is named by the caller's resolver
		if f := fnOfValue(v); f != nil && f == cs.Parent() && f != cal {
			return outer(v)
		}
		p := pathOf(v)
		if cal == nil {
			return p
		}
		for k, prm := range cal.Params {
			if k >= len(args) {
				break
			}
			if q, ok := substPrefix(p, prm.Name(), outer(args[k])); ok {
				return q
			}
		}
		return p
	}
}

func fnOfValue(v ssa.Value) *ssa.Function {
	switch x := v.(type) {
	case *ssa.Parameter:
		return x.Parent()
	case *ssa.FreeVar:
		return x.Parent()
	case ssa.Instruction:
		return x.Parent()
	}
	return nil
}

// boundBool: while a helper is examined in the context of one call site, a bool parameter of the helper stands
// for the condition the caller computed (`helper(a == b, …)` with `if !match { return }` inside): the facts of a
// test of that parameter are the facts of the caller's condition.
var boundBool = map[*ssa.Parameter]ssa.Value{}

func bindBoolParams(cs ssa.CallInstruction) func() {
	cal := calleeOf(cs)
	if cal == nil {
		return func() {}
	}
	var bound []*ssa.Parameter
	for k, prm := range cal.Params {
		if k >= len(cs.Common().Args) {
			break
		}
		if b, ok := prm.Type().Underlying().(*types.Basic); ok && b.Kind() == types.Bool {
			if _, isConst := cs.Common().Args[k].(*ssa.Const); isConst {
				continue
			}
			if _, already := boundBool[prm]; already {
				continue
			}
			boundBool[prm] = cs.Common().Args[k]
			bound = append(bound, prm)
		}
	}
	return func() {
		for _, prm := range bound {
			delete(boundBool, prm)
		}
	}
}

// upMap: string mapper for paths of the function that contains call site cs, expressed in the naming of
// the callee and then mapped on by inner (the callee's own mapper towards the rule's naming).
func upMap(cs ssa.CallInstruction, inner func(string) string) func(string) string {
	cal := calleeOf(cs)
	args := cs.Common().Args
	return func(p string) string {
		if cal == nil {
			return inner(p)
		}
		best, bestLen := p, -1
		for k, prm := range cal.Params {
			if k >= len(args) {
				break
			}
			ap := pathOf(args[k])
			if q, ok := substPrefix(p, ap, prm.Name()); ok && len(ap) > bestLen {
				best, bestLen = q, len(ap)
			}
		}
		return inner(best)
	}
}

func resOf(m func(string) string) resolver {
	return func(v ssa.Value) string { return m(pathOf(v)) }
}

func idMap(p string) string { return p }

func composeRes(a resolver, then func(string) string) resolver {
	return func(v ssa.Value) string { return then(a(v)) }
}

// samePkgHelper: the statically called, same-package function with a body (nil otherwise).
func samePkgHelper(fn *ssa.Function, c ssa.CallInstruction) *ssa.Function {
	cal := calleeOf(c)
	if cal == nil || cal == fn || cal.Pkg == nil || cal.Pkg != fn.Pkg || len(cal.Blocks) == 0 {
		return nil
	}
	return cal
}

// helperCalls: calls in fn (not in its literals) to same-package helpers.
func helperCalls(fn *ssa.Function) []ssa.CallInstruction {
	var out []ssa.CallInstruction
	instrsOf(fn, func(in ssa.Instruction) {
		if c, ok := in.(ssa.CallInstruction); ok {
			if _, isGo := in.(*ssa.Go); isGo {
				return
			}
			if _, isDefer := in.(*ssa.Defer); isDefer {
				return
			}
			if samePkgHelper(fn, c) != nil {
				out = append(out, c)
			}
		}
	})
	return out
}

// deepEdges: the edges of fn on which the guard holds — the local ones plus the success edges of calls
// to helpers all of whose successful returns lie behind the guard (ensures-summary).
func deepEdges(fn *ssa.Function, res resolver, spec gspec, depth int) []Edge {
	es := spec(fn, res)
	if depth <= 0 {
		return es
	}
	for _, c := range helperCalls(fn) {
		h := samePkgHelper(fn, c)
		hres := downRes(res, c)
		var matched []guardHit
		prev := guardCallSink
		guardCallSink = &matched
		hes := deepEdges(h, hres, spec, depth-1)
		guardCallSink = prev
		if len(hes) == 0 && len(matched) == 0 {
			continue
		}
		rets := returnsOf(h)
		if len(rets) == 0 {
			continue
		}
		// `return guard(…)`: the helper's result IS the guard's result (of the given polarity)
		propagatesAs := func(ret *ssa.Return, idx int, pass string) bool {
			vals, zero := resultVals(ret, idx)
			if zero || len(vals) == 0 {
				return false
			}
			for _, v := range vals {
				hit := false
				for _, m := range matched {
					if m.pass != pass {
						continue
					}
					if pass == "errnil" {
						if ev := errResult(m.c); ev != nil && sameVal(v, ev) {
							hit = true
						}
						continue
					}
					if mv, ok := m.c.(ssa.Value); ok && sameVal(v, mv) {
						hit = true
					}
					if rv := resultAt(m.c, 0); rv != nil && sameVal(v, rv) {
						hit = true
					}
				}
				if !hit {
					return false
				}
			}
			return true
		}
		propagates := func(ret *ssa.Return, idx int) bool { return propagatesAs(ret, idx, "errnil") }
		if errIndex(h) >= 0 {
			ok, n := true, 0
			for _, ret := range rets {
				if propagates(ret, errIndex(h)) {
					n++
					continue
				}
				if !successReturn(ret) {
					continue
				}
				n++
				if !behind(ret, hes) {
					ok = false
				}
			}
			if ok && n > 0 {
				es = append(es, passErrNil(c)...)
				if guardCallSink != nil { // `return helper(…)` one level further up propagates the guard as well
					*guardCallSink = append(*guardCallSink, guardHit{c, "errnil"})
				}
			}
		}
		// every bool result (a single `bool`, or the `ok` of a multi-value helper) is summarised for both outcomes
		sig := h.Signature
		for k := 0; k < sig.Results().Len(); k++ {
			if !isBoolType(sig.Results().At(k).Type()) {
				continue
			}
			done := false
			for _, pol := range []string{"true", "false"} {
				allProp := len(rets) > 0
				for _, ret := range rets {
					if !propagatesAs(ret, k, pol) {
						allProp = false
					}
				}
				if allProp {
					es = append(es, passBool(c, k, pol == "true")...)
					if guardCallSink != nil && sig.Results().Len() == 1 {
						*guardCallSink = append(*guardCallSink, guardHit{c, pol})
					}
					done = true
				}
			}
			if done {
				continue
			}
			for _, want := range []bool{true, false} {
				ok, n := true, 0
				for _, ret := range rets {
					vals, zero := resultVals(ret, k)
					may := zero && !want
					for _, v := range vals {
						if bv, isC := boolConst(v); !isC || bv == want {
							may = true
						}
					}
					if !may {
						continue
					}
					n++
					if !behind(ret, hes) {
						ok = false
					}
				}
				if ok && n > 0 {
					es = append(es, passBool(c, k, want)...)
					if guardCallSink != nil && sig.Results().Len() == 1 {
						*guardCallSink = append(*guardCallSink, guardHit{c, map[bool]string{true: "true", false: "false"}[want]})
					}
				}
			}
		}
	}
	return es
}

// guardCallSink, when set, collects the calls a callSpec matched (used to recognise `return guard(…)`).
type guardHit struct {
	c    ssa.CallInstruction
	pass string
}

var guardCallSink *[]guardHit

// callSpec: the guard is a call of a callee whose name ends with suffix, bound by bind, passed on "errnil" / "true" / "false".
func callSpec(suffix, pass string, bind func(res resolver, recv ssa.Value, args []ssa.Value) bool) gspec {
	return func(fn *ssa.Function, res resolver) []Edge {
		var es []Edge
		for _, c := range callsTo2(fn, suffix) {
			recv, args := callArgs(c)
			if bind != nil && !bind(res, recv, args) {
				continue
			}
			if guardCallSink != nil {
				*guardCallSink = append(*guardCallSink, guardHit{c, pass})
			}
			switch pass {
			case "errnil":
				es = append(es, passErrNil(c)...)
			case "true":
				es = append(es, passBool(c, 0, true)...)
			case "false":
				es = append(es, passBool(c, 0, false)...)
			}
		}
		return es
	}
}

func argPathsR(ps ...string) func(res resolver, recv ssa.Value, args []ssa.Value) bool {
	return func(res resolver, _ ssa.Value, args []ssa.Value) bool {
		for i, p := range ps {
			if p == "_" {
				continue
			}
			if i >= len(args) || res(args[i]) != bp(p) {
				return false
			}
		}
		return true
	}
}

func recvPathR(p string) func(res resolver, recv ssa.Value, args []ssa.Value) bool {
	return func(res resolver, recv ssa.Value, _ []ssa.Value) bool { return recv != nil && res(recv) == bp(p) }
}

// staticCallers returns the call sites of fn in functions (and literals) of its own package.
func staticCallers(w *World, fn *ssa.Function) []ssa.CallInstruction {
	if fn.Pkg == nil {
		return nil
	}
	var out []ssa.CallInstruction
	for _, g := range w.RepoFuncs(fn.Pkg.Pkg.Name()) {
		instrsOf(g, func(in ssa.Instruction) {
			if c, ok := in.(ssa.CallInstruction); ok && (c.Common().StaticCallee() == fn || fn.Parent() != nil && c.Common().StaticCallee() == nil && calleeOf(c) == fn) {
				out = append(out, c)
			}
		})
	}
	return out
}

// behindAll: every execution that reaches `at` has crossed the guard — locally (with ensures-summaries),
// or, when `at` sits in an unexported helper or a function literal, at every place the helper is called
// from / the literal is created (requires, upwards).
func behindAll(w *World, at ssa.Instruction, m func(string) string, spec gspec, up int) bool {
	fn := at.Parent()
	if m == nil {
		m = idMap
	}
	if behind(at, deepEdges(fn, resOf(m), spec, deepDepth)) {
		return true
	}
	if up <= 0 {
		return false
	}
	if par := fn.Parent(); par != nil { // function literal: guard may dominate its creation
		var sites []ssa.Instruction
		instrsOf(par, func(in ssa.Instruction) {
			if mc, ok := in.(*ssa.MakeClosure); ok && mc.Fn == ssa.Value(fn) {
				sites = append(sites, mc)
			}
		})
		if len(sites) == 0 {
			return false
		}
		for _, s := range sites {
			if !behindAll(w, s, m, spec, up-1) {
				return false
			}
		}
		return true
	}
	if fn.Object() == nil || fn.Object().Exported() {
		return false
	}
	callers := staticCallers(w, fn)
	if len(callers) == 0 {
		return false
	}
	for _, cs := range callers {
		// paths in the caller → naming of fn → naming of the rule
		if !behindAll(w, cs.(ssa.Instruction), upMap(cs, m), spec, up-1) {
			return false
		}
	}
	return true
}

// ---------------------------------------------------------------------------------------------
// performs-summaries for the path-pairing rules

type ipred func(in ssa.Instruction, res resolver) bool

// everyReturnPasses: every path from the entry of h to a return (only error returns when errOnly) executes an
// instruction satisfying pred (directly or through a helper, to the given depth).
func everyReturnPasses(h *ssa.Function, res resolver, pred ipred, errOnly bool, depth int) bool {
	if len(h.Blocks) == 0 {
		return false
	}
	bad := 0
	stop := passesDeep(h, res, pred, depth-1)
	cut := map[Edge]bool{}
	if depth > 0 {
		for e := range handledFailEdges(h, res, pred, depth-1) {
			cut[e] = true
		}
	}
	walkFrom(nil, h.Blocks[0], cut, func(in ssa.Instruction) bool {
		if stop(in) {
			return true
		}
		switch x := in.(type) {
		case *ssa.Return:
			if h.Recover != nil && x.Block() == h.Recover {
				return true
			}
			if !errOnly || !successReturn(x) {
				bad++
			}
			return true
		case *ssa.Panic:
			return true
		}
		return false
	})
	return bad == 0
}

// passesDeep lifts pred to "this instruction performs the action": it is the action, or a call to a helper
// every return of which passes the action.
func passesDeep(fn *ssa.Function, res resolver, pred ipred, depth int) func(ssa.Instruction) bool {
	memo := map[ssa.Instruction]bool{}
	return func(in ssa.Instruction) bool {
		if pred(in, res) {
			return true
		}
		if depth < 0 {
			return false
		}
		c, ok := in.(ssa.CallInstruction)
		if !ok {
			return false
		}
		if _, isGo := in.(*ssa.Go); isGo {
			return false
		}
		if v, ok := memo[in]; ok {
			return v
		}
		h := samePkgHelper(fn, c)
		v := h != nil && everyReturnPasses(h, downRes(res, c), pred, false, depth)
		memo[in] = v
		return v
	}
}

// handledFailEdges: the failure edges of calls to helpers whose every error return has already passed the
// action (the helper cleaned up itself before reporting the failure).
func handledFailEdges(fn *ssa.Function, res resolver, pred ipred, depth int) map[Edge]bool {
	out := map[Edge]bool{}
	if depth < 0 {
		return out
	}
	for _, c := range helperCalls(fn) {
		h := samePkgHelper(fn, c)
		if errIndex(h) < 0 {
			continue
		}
		if everyReturnPasses(h, downRes(res, c), pred, true, depth) {
			for _, e := range failErrNonNil(c) {
				out[e] = true
			}
		}
	}
	return out
}

// callPred builds an ipred for "call of callee whose argument #i resolves to path".
func callPred(callee string, argIdx int, want func(path string) bool) ipred {
	return func(in ssa.Instruction, res resolver) bool {
		c, ok := in.(ssa.CallInstruction)
		if !ok || calleeName(c) != callee {
			return false
		}
		_, a := callArgs(c)
		if argIdx < 0 {
			return true
		}
		return argIdx < len(a) && want(res(a[argIdx]))
	}
}

// dres: the resolver that names values of the function containing d.c in the naming of the top function.
func (d dcall) res() resolver {
	var r resolver = idRes
	for _, cs := range d.chain {
		r = downRes(r, cs)
	}
	return r
}

// behindDeepSite: the deep call d (found from a top-level function through d.chain) is behind the guard at
// some level of its chain: in the helper it sits in, or at the call site that leads to it.
func behindDeepSite(d dcall, spec gspec) bool {
	// resolvers per level, outermost first
	rs := []resolver{idRes}
	for _, cs := range d.chain {
		rs = append(rs, downRes(rs[len(rs)-1], cs))
	}
	at := d.c.(ssa.Instruction)
	for _, cs := range d.chain {
		defer bindBoolParams(cs)()
	}
	for lvl := len(d.chain); lvl >= 0; lvl-- {
		if behind(at, deepEdges(at.Parent(), rs[lvl], spec, deepDepth)) {
			return true
		}
		if lvl > 0 {
			at = d.chain[lvl-1].(ssa.Instruction)
		}
	}
	// the outermost site sits in a function literal: the guard may dominate every creation of the literal
	// (captured variables keep their names)
	if lit := at.Parent(); lit.Parent() != nil {
		var sites []ssa.Instruction
		instrsOf(lit.Parent(), func(in ssa.Instruction) {
			if mc, ok := in.(*ssa.MakeClosure); ok && mc.Fn == ssa.Value(lit) {
				sites = append(sites, mc)
			}
		})
		if len(sites) > 0 {
			all := true
			for _, s := range sites {
				if !behind(s, deepEdges(lit.Parent(), idRes, spec, deepDepth)) {
					all = false
				}
			}
			return all
		}
	}
	return false
}

// ---------------------------------------------------------------------------------------------
// walkDeep: forward exploration that follows static calls into same-package helpers and comes back.
//
// The walk is path-insensitive inside a function (every block once per frame) but keeps, per frame, the
// helper return through which each completed helper call came back ("via"). A branch in the caller that
// tests the helper's error / bool result is pruned accordingly, so `if err := helper(); err != nil` is not
// entered on the helper's successful returns. Returns of helpers are not exits: the walk continues after
// the call site.

type dctx struct {
	fn     *ssa.Function
	res    resolver
	parent *dctx
	site   ssa.CallInstruction
	depth  int
	key    string
}

type frame struct {
	cx     *dctx
	via    map[ssa.CallInstruction]*ssa.Return
	up     *frame
	upCall ssa.CallInstruction
	key    string
}

func (fr *frame) top() bool { return fr.up == nil }

// viaReturn: the helper return through which the value of call c was produced on this path (nil if unknown).
func (fr *frame) viaReturn(c ssa.CallInstruction) *ssa.Return {
	if fr.via == nil {
		return nil
	}
	return fr.via[c]
}

type deepWalk struct {
	maxDepth int
	cutSpec  gspec // edges never crossed (evaluated per context)
	cutFixed map[Edge]bool
	descend  func(h *ssa.Function) bool
	visit    func(in ssa.Instruction, fr *frame) (stop bool)

	cuts map[string]map[Edge]bool
	seen map[string]bool
}

func newDeepWalk(visit func(in ssa.Instruction, fr *frame) bool) *deepWalk {
	return &deepWalk{maxDepth: deepDepth, visit: visit, cuts: map[string]map[Edge]bool{}, seen: map[string]bool{}}
}

func mkFrame(cx *dctx, via map[ssa.CallInstruction]*ssa.Return, up *frame, upCall ssa.CallInstruction) *frame {
	var parts []string
	for c, r := range via {
		parts = append(parts, fmt.Sprintf("%p>%d", c, r.Block().Index))
	}
	sortStrings(parts)
	k := cx.key + "{" + strings.Join(parts, ",") + "}"
	if up != nil {
		k += "^" + up.key
	}
	return &frame{cx: cx, via: via, up: up, upCall: upCall, key: k}
}

func topFrame(fn *ssa.Function) *frame {
	return mkFrame(&dctx{fn: fn, res: idRes, key: refName(fn)}, nil, nil, nil)
}

// frameFor builds the frame chain that leads to the function containing a deep call site.
func frameFor(top *ssa.Function, chain []ssa.CallInstruction) *frame {
	fr := topFrame(top)
	for _, cs := range chain {
		h := calleeOf(cs)
		cx := &dctx{fn: h, res: downRes(fr.cx.res, cs), parent: fr.cx, site: cs, depth: fr.cx.depth + 1, key: fr.cx.key + "/" + fmt.Sprintf("%p", cs) + ":" + h.Name()}
		fr = mkFrame(cx, nil, fr, cs)
	}
	return fr
}

func (dw *deepWalk) cutOf(cx *dctx) map[Edge]bool {
	if m, ok := dw.cuts[cx.key]; ok {
		return m
	}
	m := map[Edge]bool{}
	if dw.cutSpec != nil {
		for _, e := range dw.cutSpec(cx.fn, cx.res) {
			m[e] = true
		}
	}
	dw.cuts[cx.key] = m
	return m
}

// feasible: may the branch edge be taken, given the helper returns the frame came through?
func (fr *frame) feasible(e Edge) bool {
	// a test of a bool parameter for which this call site passes a constant (`rollback(leaf, true)`)
	if fr.upCall != nil {
		for _, f := range edgeFacts(e) {
			if f.kind != fTrue && f.kind != fFalse {
				continue
			}
			prm, ok := f.x.(*ssa.Parameter)
			if !ok || prm.Parent() != fr.cx.fn {
				continue
			}
			args := fr.upCall.Common().Args
			for k, p := range fr.cx.fn.Params {
				if p == prm && k < len(args) {
					if bv, isB := boolConst(args[k]); isB && bv != (f.kind == fTrue) {
						return false
					}
				}
			}
		}
	}
	if len(fr.via) == 0 {
		return true
	}
	for _, f := range edgeFacts(e) {
		if f.x == nil {
			continue
		}
		for c, hr := range fr.via {
			cv, ok := c.(ssa.Value)
			if !ok {
				continue
			}
			switch f.kind {
			case fIsNil, fNotNil:
				ev := errResult(c)
				if ev == nil || !sameVal(f.x, ev) {
					continue
				}
				h := calleeOf(c)
				ei := errIndex(h)
				if ei < 0 || ei >= len(hr.Results) {
					continue
				}
				k := nUnknown
				if successReturn(hr) {
					k = nNil
				} else if kk, _ := classifyErr(hr.Results[ei], hr.Block()); kk == nNonNil {
					k = nNonNil
				}
				if k == nNil && f.kind == fNotNil || k == nNonNil && f.kind == fIsNil {
					return false
				}
			case fTrue, fFalse:
				idx := -1
				if sameVal(f.x, cv) && len(hr.Results) == 1 {
					idx = 0
				} else if ex, ok := strip(f.x).(*ssa.Extract); ok && ex.Tuple == cv && ex.Index < len(hr.Results) {
					idx = ex.Index
				}
				if idx < 0 {
					continue
				}
				vals, zero := resultVals(hr, idx)
				if zero {
					if f.kind == fTrue {
						return false
					}
					continue
				}
				if len(vals) == 1 {
					if bv, isB := boolConst(vals[0]); isB && bv != (f.kind == fTrue) {
						return false
					}
				}
			}
		}
	}
	return true
}

func (dw *deepWalk) run(fr *frame, b *ssa.BasicBlock, i int) {
	k := fr.key + "|" + fmtInt(b.Index) + "@" + fmtInt(i)
	if dw.seen[k] {
		return
	}
	dw.seen[k] = true
	fn := fr.cx.fn
	for ; i < len(b.Instrs); i++ {
		in := b.Instrs[i]
		if dw.visit(in, fr) {
			return
		}
		switch x := in.(type) {
		case *ssa.Return:
			if fn.Recover != nil && b == fn.Recover {
				return
			}
			if fr.up != nil {
				via := map[ssa.CallInstruction]*ssa.Return{}
				for c, r := range fr.up.via {
					via[c] = r
				}
				via[fr.upCall] = x
				nf := mkFrame(fr.up.cx, via, fr.up.up, fr.up.upCall)
				ci := fr.upCall.(ssa.Instruction)
				dw.run(nf, ci.Block(), indexIn(ci.Block(), ci)+1)
			}
			return
		case *ssa.Panic:
			return
		case ssa.CallInstruction:
			if _, isGo := in.(*ssa.Go); isGo {
				continue
			}
			if _, isDefer := in.(*ssa.Defer); isDefer {
				continue
			}
			h := samePkgHelper(fn, x)
			if h == nil || fr.cx.depth >= dw.maxDepth || (dw.descend != nil && !dw.descend(h)) {
				continue
			}
			onStack := false
			for c := fr.cx; c != nil; c = c.parent {
				if c.fn == h {
					onStack = true
				}
			}
			if onStack {
				continue
			}
			cx := &dctx{fn: h, res: downRes(fr.cx.res, x), parent: fr.cx, site: x, depth: fr.cx.depth + 1, key: fr.cx.key + "/" + fmt.Sprintf("%p", x) + ":" + h.Name()}
			dw.run(mkFrame(cx, nil, fr, x), h.Blocks[0], 0)
			return // the continuation after the call is explored from the helper's returns
		}
	}
	cut := dw.cutOf(fr.cx)
	for idx, s := range b.Succs {
		e := Edge{b, idx}
		if cut[e] || dw.cutFixed[e] || !fr.feasible(e) {
			continue
		}
		dw.run(fr, s, 0)
	}
}

func fmtInt(i int) string { return strconv.Itoa(i) }

func sortStrings(s []string) { sort.Strings(s) }

// describeExitDeep describes what a return hands to the caller; a result that is the value of a helper call
// the frame came back from is described by that helper's return.
func describeExitDeep(ret *ssa.Return, fr *frame) string {
	if len(ret.Results) > 0 && fr != nil {
		last := ret.Results[len(ret.Results)-1]
		for c, hr := range fr.via {
			if ev := errResult(c); ev != nil && sameVal(last, ev) {
				return describeExit(hr)
			}
		}
	}
	return describeExit(ret)
}

// originsDeep is origins() that also looks through calls to same-package helpers: a value returned by a
// helper originates from what the helper returns, and a helper parameter from the argument passed for it.
func originsDeep(v ssa.Value, depth int) []ssa.Value {
	var out []ssa.Value
	for _, o := range origins(v) {
		var call *ssa.Call
		idx := 0
		switch x := o.(type) {
		case *ssa.Call:
			call = x
		case *ssa.Extract:
			if c, ok := x.Tuple.(*ssa.Call); ok {
				call, idx = c, x.Index
			}
		}
		var h *ssa.Function
		if call != nil && depth > 0 {
			h = samePkgHelper(call.Parent(), call)
		}
		out = append(out, o)
		if h == nil {
			continue
		}
		for _, ret := range returnsOf(h) {
			vals, _ := resultVals(ret, idx)
			for _, rv := range vals {
				for _, ho := range originsDeep(rv, depth-1) {
					out = append(out, substParamDeep(ho, h, call, depth-1)...)
				}
			}
		}
	}
	return out
}

// substParamDeep: if o is rooted at a parameter of helper h (the parameter itself, or a field / element read
// from it), continue at the argument passed at call.
func substParamDeep(o ssa.Value, h *ssa.Function, call *ssa.Call, depth int) []ssa.Value {
	base := o
	for i := 0; i < 8; i++ {
		switch x := base.(type) {
		case *ssa.UnOp:
			base = x.X
			continue
		case *ssa.FieldAddr:
			base = x.X
			continue
		case *ssa.Field:
			base = x.X
			continue
		}
		break
	}
	if prm, ok := base.(*ssa.Parameter); ok && prm.Parent() == h && base == o {
		for k, p := range h.Params {
			if p == prm && k < len(call.Call.Args) {
				return originsDeep(call.Call.Args[k], depth)
			}
		}
	}
	return []ssa.Value{o}
}

// withHelpers: fn and the same-package functions it reaches through static calls (to the given depth).
func withHelpers(fn *ssa.Function, depth int) []*ssa.Function {
	seen := map[*ssa.Function]bool{fn: true}
	out := []*ssa.Function{fn}
	var visit func(f *ssa.Function, d int)
	visit = func(f *ssa.Function, d int) {
		if d >= depth {
			return
		}
		for _, ff := range WithAnon(f) {
			for _, c := range helperCalls(ff) {
				h := samePkgHelper(ff, c)
				if h != nil && !seen[h] {
					seen[h] = true
					out = append(out, h)
					visit(h, d+1)
				}
			}
		}
	}
	visit(fn, 0)
	return out
}

// originsLocal is origins() that also follows a parameter of a function literal to the arguments of the calls
// of that literal in the enclosing function (a local closure called like a helper).
func originsLocal(v ssa.Value, depth int) []ssa.Value {
	var out []ssa.Value
	for _, o := range origins(v) {
		prm, ok := o.(*ssa.Parameter)
		if !ok || depth <= 0 || prm.Parent() == nil || prm.Parent().Parent() == nil {
			out = append(out, o)
			continue
		}
		lit := prm.Parent()
		idx := -1
		for i, p := range lit.Params {
			if p == prm {
				idx = i
			}
		}
		n := 0
		instrsOf(lit.Parent(), func(in ssa.Instruction) {
			c, ok := in.(ssa.CallInstruction)
			if !ok || closureOf(c.Common().Value) != lit || idx < 0 || idx >= len(c.Common().Args) {
				return
			}
			n++
			out = append(out, originsLocal(c.Common().Args[idx], depth-1)...)
		})
		if n == 0 {
			out = append(out, o)
		}
	}
	return out
}
