package main

// C15 — no request can crash a node (wire-input safety facts) and a request rejected by validation
// has changed nothing. C20 shares the bounds engine (D3).

import (
	"fmt"
	"go/token"
	"go/types"
	"sort"
	"strings"

	"golang.org/x/tools/go/ssa"
)

const pbPkg = modPath + "/protobufcompiled"

func isPBMessagePtr(t types.Type) bool {
	p, ok := t.Underlying().(*types.Pointer)
	if !ok {
		return false
	}
	n, ok := p.Elem().(*types.Named)
	if !ok || n.Obj().Pkg() == nil {
		return false
	}
	_, isStruct := n.Underlying().(*types.Struct)
	return isStruct && n.Obj().Pkg().Path() == pbPkg
}

// handlersOf discovers the methods of repo types that implement the generated *APIServer interfaces.
func handlersOf(w *World) map[string][]*ssa.Function {
	out := map[string][]*ssa.Function{}
	pb := w.Pkg("protobufcompiled")
	if pb == nil {
		return out
	}
	var ifaces []*types.Named
	for _, name := range pb.Pkg.Scope().Names() {
		if !strings.HasSuffix(name, "APIServer") || strings.HasPrefix(name, "Unsafe") || strings.HasPrefix(name, "Unimplemented") {
			continue
		}
		if tn, ok := pb.Pkg.Scope().Lookup(name).(*types.TypeName); ok {
			if n, ok := tn.Type().(*types.Named); ok {
				if _, isI := n.Underlying().(*types.Interface); isI {
					ifaces = append(ifaces, n)
				}
			}
		}
	}
	for _, p := range w.Pkgs {
		if p.PkgPath == pbPkg {
			continue
		}
		sp := w.SSA[p.PkgPath]
		if sp == nil {
			continue
		}
		for _, name := range sp.Pkg.Scope().Names() {
			tn, ok := sp.Pkg.Scope().Lookup(name).(*types.TypeName)
			if !ok {
				continue
			}
			pt := types.NewPointer(tn.Type())
			for _, in := range ifaces {
				it := in.Underlying().(*types.Interface)
				if !types.Implements(pt, it) {
					continue
				}
				for i := 0; i < it.NumMethods(); i++ {
					m := it.Method(i)
					if !m.Exported() {
						continue
					}
					if f := w.Func(strings.TrimPrefix(p.PkgPath, modPath+"/"), tn.Name(), m.Name()); f != nil && len(f.Blocks) > 0 {
						out[in.Obj().Name()] = append(out[in.Obj().Name()], f)
					}
				}
			}
		}
	}
	return out
}

// sliceBound describes a slice/index bound as const c or len(path)+off.
type bound struct {
	isLen bool
	path  string
	c     int64
	ok    bool
}

func boundOf(v ssa.Value) bound {
	if v == nil {
		return bound{}
	}
	if c, ok := intConst(v); ok {
		return bound{c: c, ok: true}
	}
	if p, off, ok := lenExpr(v); ok {
		return bound{isLen: true, path: p, c: off, ok: true}
	}
	return bound{}
}

// d3Obligations checks index/slice operations on byte slices and strings whose bounds are constants
// or len(x)±c: it computes the minimal length required and asks the fact engine for it.
func d3Obligations(w *World, r *Report, fe *FactEngine, rule string, fn *ssa.Function) {
	isBytesLike := func(t types.Type) bool {
		switch u := t.Underlying().(type) {
		case *types.Slice:
			return true
		case *types.Basic:
			return u.Info()&types.IsString != 0
		}
		return false
	}
	instrsOf(fn, func(in ssa.Instruction) {
		var x ssa.Value
		var need int64 = -1
		desc := ""
		switch s := in.(type) {
		case *ssa.Slice:
			if !isBytesLike(s.X.Type()) {
				return
			}
			x = s.X
			px := pathOf(x)
			lo, hi := boundOf(s.Low), boundOf(s.High)
			if s.Low == nil && s.High == nil {
				return
			}
			if (s.Low != nil && !lo.ok) || (s.High != nil && !hi.ok) {
				return // bounds are runtime values: outside this rule
			}
			// requirement: 0 <= lo <= hi <= len(x)
			need = 0
			if s.Low != nil {
				if lo.isLen {
					if lo.path != px {
						return
					}
					need = max64(need, -lo.c) // len+off >= 0
				} else {
					need = max64(need, lo.c)
				}
			}
			if s.High != nil {
				if hi.isLen {
					if hi.path != px {
						return
					}
					need = max64(need, -hi.c)
					if s.Low != nil && !lo.isLen {
						need = max64(need, lo.c-hi.c) // len+off >= lo
					}
				} else {
					need = max64(need, hi.c)
				}
			}
			desc = fmt.Sprintf("slice %s[%s:%s]", px, boundStr(s.Low, lo), boundStr(s.High, hi))
		case *ssa.IndexAddr:
			if !isBytesLike(s.X.Type()) {
				return
			}
			x = s.X
			if need, desc = indexNeed(x, s.Index); need < 0 {
				return
			}
		case *ssa.Index:
			if !isBytesLike(s.X.Type()) {
				return
			}
			x = s.X
			if need, desc = indexNeed(x, s.Index); need < 0 {
				return
			}
		case *ssa.Lookup: // s[i] on a string
			if _, isMap := s.X.Type().Underlying().(*types.Map); isMap || !isBytesLike(s.X.Type()) {
				return
			}
			x = s.X
			if need, desc = indexNeed(x, s.Index); need < 0 {
				return
			}
		default:
			return
		}
		if need <= 0 {
			return
		}
		px := pathOf(x)
		ok, why := fe.HoldsVal(in, x, kLenMin, need)
		r.check(ok, rule, shortFn(fn)+"/"+desc, lineOf(w, in), fmt.Sprintf("%s needs len(%s) >= %d on every path", desc, px, need), why)
	})
}

// indexNeed: the least length x must have for x[idx] not to panic, when idx is a constant or len(x)-c; -1 when the index
// is another run-time value (outside this rule).
func indexNeed(x, idx ssa.Value) (int64, string) {
	if c, ok := intConst(idx); ok {
		return c + 1, fmt.Sprintf("index %s[%d]", pathOf(x), c)
	}
	if b := boundOf(idx); b.ok && b.isLen && b.path == pathOf(x) && b.c < 0 {
		return -b.c, fmt.Sprintf("index %s[len%+d]", pathOf(x), b.c)
	}
	return -1, ""
}

func boundStr(v ssa.Value, b bound) string {
	if v == nil {
		return ""
	}
	if b.isLen {
		if b.c == 0 {
			return "len"
		}
		return fmt.Sprintf("len%+d", b.c)
	}
	return fmt.Sprint(b.c)
}

func max64(a, b int64) int64 {
	if a > b {
		return a
	}
	return b
}

func init() {
	register("C15", []string{"./gossip", "./notaryserver", "./webhooksserver", "./transformers", "./wallet", "./cache", "./accountant", "./webhooks"},
		"Structural necessary conditions of 'no protobuf-decodable request can crash a node', decided for all message shapes at once: every slice→array conversion in the wire-facing packages "+
			"is dominated by a length test on the same access path (directly, through a validator's ensures-summary, or established by every caller), every dereference through an optional "+
			"sub-message pointer is dominated by a nil test, constant/len-relative slice bounds are covered by length facts, and in every handler no signature/challenge validation is reachable "+
			"after a call with ledger / awaiting-cache / peer-table effects; every operation on a mutex-guarded map table of a request-serving struct (peer table, webhook table, aliases followed) "+
			"has the mutex in its must-hold lockset (an unsynchronised map access that overlaps a write aborts the process). Panics unrelated to message shape, resource exhaustion and library internals are not decided.",
		runC15)
}

func runC15(w *World, r *Report) {
	r.NotDecided = []string{"panics unrelated to message shape", "resource exhaustion (oversized fields)", "failures after validation (e.g. CreateLeaf error after the awaiting entry was removed in Confirm)", "library internals (protobuf, gRPC, base58/big.Int)"}
	r.Assumptions = append(r.Assumptions,
		"the request pointer gRPC hands to a handler and the elements of repeated message fields decoded by protobuf-go are non-nil",
		"a successful client RPC returns a non-nil response message")
	wirePkgs := []string{"gossip", "notaryserver", "webhooksserver", "transformers"}
	fns := w.RepoFuncs(wirePkgs...)
	fe := NewFactEngine(w, append(append([]*ssa.Function{}, fns...), w.RepoFuncs("wallet")...))

	r.rule("handlers", "methods implementing the generated GossipAPIServer / NotaryAPIServer / WebhooksAPIServer interfaces (types.Implements)", 12)
	hs := handlersOf(w)
	var handlerFns []*ssa.Function
	var inames []string
	for k := range hs {
		inames = append(inames, k)
	}
	sort.Strings(inames)
	for _, in := range inames {
		for _, f := range hs[in] {
			handlerFns = append(handlerFns, f)
			r.ok("handlers", in+"/"+shortFn(f), w.Pos(f.Pos()), "handler discovered and analysed")
			r.seen(shortFn(f))
		}
	}

	r.rule("D1-slice-to-array", "every [N]byte(x) conversion in the wire-facing packages has the must-fact len(x) >= N (dominating test on the same access path, validator summary, or all callers)", 12)
	r.rule("D2-submessage-nil", "every field access through a singular protobuf sub-message pointer has the must-fact != nil", 10)
	nD2 := 0
	for _, fn := range fns {
		r.seen(shortFn(fn))
		instrsOf(fn, func(in ssa.Instruction) {
			switch x := in.(type) {
			case *ssa.SliceToArrayPointer:
				at := x.Type().Underlying().(*types.Pointer).Elem().Underlying().(*types.Array)
				p := pathOf(x.X)
				ok, why := fe.HoldsVal(x, x.X, kLenMin, at.Len())
				r.check(ok, "D1-slice-to-array", shortFn(fn)+"/["+fmt.Sprint(at.Len())+"]byte("+p+")", lineOf(w, x),
					fmt.Sprintf("conversion needs len(%s) >= %d on every path to it", p, at.Len()), why)
			case *ssa.FieldAddr:
				// X is a pointer loaded from a field of a protobuf message → optional sub-message
				ld, ok := x.X.(*ssa.UnOp)
				if !ok || ld.Op != token.MUL || !isPBMessagePtr(ld.Type()) {
					return
				}
				fa, ok := ld.X.(*ssa.FieldAddr)
				if !ok || !isPBMessagePtr(fa.X.Type()) {
					return
				}
				p := pathOf(ld)
				key := shortFn(fn) + "/" + p + "." + fieldName(x.X.Type(), x.Field)
				ok2, why := fe.Holds(x, pfact{kind: kNotNil, path: p}, 0)
				nD2++
				r.check(ok2, "D2-submessage-nil", key, lineOf(w, x), "dereference of optional sub-message "+p+" needs "+p+" != nil on every path to it", why)
			}
		})
	}

	r.rule("D3-bounds", "constant and len-relative index/slice bounds on byte slices/strings are covered by a dominating length fact", 3)
	for _, fn := range append(append(w.RepoFuncs("wallet"), fns...), w.RepoFuncs("cache", "webhooks")...) {
		if fn.Pkg.Pkg.Name() == "wallet" && !strings.Contains(fn.String(), "Helper") {
			continue
		}
		d3Obligations(w, r, fe, "D3-bounds", fn)
	}

	// library preconditions on caller-derived lengths
	r.rule("lib-preconditions", "calls into libraries that panic on a wrong argument length are dominated by the exact length fact: ed25519.Verify needs len(publicKey) == 32", 1)
	for _, fn := range w.RepoFuncs("wallet", "gossip", "notaryserver", "webhooksserver", "transformers") {
		if fn.Pkg.Pkg.Name() == "wallet" && !strings.Contains(fn.String(), "Helper") {
			continue // (*Wallet).Verify checks against the node's own key, not a caller-supplied address
		}
		for _, c := range callsTo(fn, "crypto/ed25519.Verify") {
			key := c.Common().Args[0]
			ok, why := fe.HoldsVal(c.(ssa.Instruction), key, kLenEq, 32)
			r.check(ok, "lib-preconditions", shortFn(fn)+"/ed25519.Verify", lineOf(w, c), "public key handed to ed25519.Verify has length exactly 32 (it panics otherwise)", why)
		}
	}

	r.rule("lib-preconditions-positive", "math/rand's Intn / Int31n / Int63n / Perm-style calls whose argument depends on request or peer-table state are reached only with a provably positive argument (they panic on n <= 0)", 0)
	nRand := 0
	for _, fn := range w.RepoFuncs("gossip", "notaryserver", "webhooksserver", "transformers", "wallet", "cache", "accountant") {
		for _, c := range callsTo(fn, "math/rand.Intn", "math/rand.Int31n", "math/rand.Int63n", "math/rand/v2.IntN", "math/rand/v2.Int64N", "math/rand/v2.N") {
			nRand++
			arg := c.Common().Args[0]
			ok, why := false, "argument is not provably positive"
			if k, isK := intConst(arg); isK {
				ok = k > 0
			} else if p, off, isLen := lenExpr(arg); isLen {
				ok, why = fe.Holds(c.(ssa.Instruction), pfact{kind: kLenMin, path: p, min: 1 - off}, 0)
				if !ok {
					why = fmt.Sprintf("needs len(%s) >= %d on every path: %s", p, 1-off, why)
				}
			}
			r.check(ok, "lib-preconditions-positive", shortFn(fn)+"/"+shortCallee(c), lineOf(w, c), "the bound handed to "+shortCallee(c)+" is positive", why)
		}
	}
	if nRand == 0 {
		r.ok("lib-preconditions-positive", "none", "-", "no bounded random draw in the request-handling packages")
	}

	// a vertex the ledger rejects leaves no reservation behind (the ledger side of "a rejected request changes nothing")
	rollbackReservation(w, r, "rejected-admission-leaves-no-index-entry")

	// a value that a branch of the function found to be nil is not dereferenced on a path from that branch
	nilCheckedThenUsed(w, r, "nil-checked-then-used", fns)

	// the zero value of an absent map entry is not used as if the entry were there
	absentEntryNotUsed(w, r, "absent-entry-is-not-used", fns)

	// an entry is never assigned in a map that can be nil (a write to a nil map panics; a read does not)
	r.rule("map-write-needs-allocated-map", "every map assignment in the wire-facing packages writes to a map that is allocated on every path to it — followed through φ, local variables and the results of repo helpers (a helper that allocates its result lazily returns nil when nothing was added)", 3)
	nMU := 0
	for _, fn := range append(append([]*ssa.Function{}, fns...), w.RepoFuncs("webhooks")...) {
		instrsOf(fn, func(in ssa.Instruction) {
			mu, ok := in.(*ssa.MapUpdate)
			if !ok {
				return
			}
			if _, isMap := mu.Map.Type().Underlying().(*types.Map); !isMap {
				return
			}
			nMU++
			why := mapMayBeNil(w, mu.Map, 3, map[ssa.Value]bool{})
			r.check(why == "", "map-write-needs-allocated-map", fmt.Sprintf("%s/%s[…]=", shortFn(fn), pathOf(mu.Map)), lineOf(w, mu), "the map written to is allocated on every path", why)
		})
	}
	r.Extra["map_writes"] = nMU

	// a slice is never made with a size that is a difference which can be negative (makeslice panics: len/cap out of range)
	r.rule("make-size-not-negative", "a make([]T, …) whose length or capacity is computed by subtracting one run-time quantity from another lies behind a comparison of those two quantities (x >= y, y <= x, x > y, …) on every path; sizes that are sums of lengths, constants, or a length minus a constant guarded by a length fact are not concerned", 0)
	nMk := 0
	for _, fn := range append(append([]*ssa.Function{}, fns...), w.RepoFuncs("cache", "webhooks", "wallet")...) {
		instrsOf(fn, func(in ssa.Instruction) {
			mk, ok := in.(*ssa.MakeSlice)
			if !ok {
				return
			}
			for _, sz := range []ssa.Value{mk.Len, mk.Cap} {
				bo, ok := sz.(*ssa.BinOp)
				if !ok || bo.Op != token.SUB {
					continue
				}
				if _, isK := intConst(bo.Y); isK {
					if p, off, isLen := lenExpr(sz); isLen {
						okLen, _ := fe.Holds(mk, pfact{kind: kLenMin, path: p, min: -off}, 0)
						nMk++
						r.check(okLen, "make-size-not-negative", shortFn(fn)+"/make("+pathOf(sz)+")", lineOf(w, mk), "len(x) - c is not negative", "no length fact covers the subtraction")
					}
					continue
				}
				nMk++
				guarded := false
				for _, b := range fn.Blocks {
					for i := range b.Succs {
						e := Edge{b, i}
						if len(b.Instrs) == 0 {
							continue
						}
						iff, isIf := b.Instrs[len(b.Instrs)-1].(*ssa.If)
						if !isIf {
							continue
						}
						cmp, isCmp := iff.Cond.(*ssa.BinOp)
						if !isCmp {
							continue
						}
						truth := i == 0
						ge := false
						switch {
						case sameVal(cmp.X, bo.X) && sameVal(cmp.Y, bo.Y): // x ? y
							ge = truth && (cmp.Op == token.GEQ || cmp.Op == token.GTR || cmp.Op == token.EQL) || !truth && (cmp.Op == token.LSS)
						case sameVal(cmp.X, bo.Y) && sameVal(cmp.Y, bo.X): // y ? x
							ge = truth && (cmp.Op == token.LEQ || cmp.Op == token.LSS || cmp.Op == token.EQL) || !truth && (cmp.Op == token.GTR)
						}
						if ge && behind(mk, []Edge{e}) {
							guarded = true
						}
					}
				}
				r.check(guarded, "make-size-not-negative", shortFn(fn)+"/make(…"+pathOf(bo.X)+" - "+pathOf(bo.Y)+")", lineOf(w, mk), "the minuend is known to be at least the subtrahend where the slice is made",
					fmt.Sprintf("make with size %s - %s: nothing on the way establishes %s >= %s, a negative size panics (makeslice: len/cap out of range)", pathOf(bo.X), pathOf(bo.Y), pathOf(bo.X), pathOf(bo.Y)))
			}
		})
	}
	if nMk == 0 {
		r.ok("make-size-not-negative", "none", "-", "no slice is made with a subtracted size in the request-handling packages")
	}

	// a slice is grown by append, not by re-slicing past its length: x[:len(x)+1] is legal only while capacity is left,
	// and capacity is eaten by every x = x[1:] elsewhere
	r.rule("slice-not-extended-past-its-length", "no re-slice x[:len(x)+c] (c > 0) of a slice without a dominating test of cap(x) on the path", 0)
	nExt := 0
	for _, fn := range append(append([]*ssa.Function{}, fns...), w.RepoFuncs("accountant", "cache", "webhooks", "wallet", "spice", "transaction")...) {
		instrsOf(fn, func(in ssa.Instruction) {
			sl, ok := in.(*ssa.Slice)
			if !ok || sl.High == nil {
				return
			}
			if _, isSlice := sl.X.Type().Underlying().(*types.Slice); !isSlice {
				return
			}
			p, off, isLen := lenExpr(sl.High)
			if !isLen || off <= 0 || p != pathOf(sl.X) {
				return
			}
			nExt++
			guarded := false
			for _, b := range fn.Blocks {
				if len(b.Instrs) == 0 {
					continue
				}
				iff, isIf := b.Instrs[len(b.Instrs)-1].(*ssa.If)
				if !isIf || !b.Dominates(sl.Block()) {
					continue
				}
				mentionsCap := false
				var scan func(v ssa.Value, d int)
				scan = func(v ssa.Value, d int) {
					if v == nil || d > 4 {
						return
					}
					switch x := v.(type) {
					case *ssa.BinOp:
						scan(x.X, d+1)
						scan(x.Y, d+1)
					case *ssa.Call:
						if bi, ok := x.Call.Value.(*ssa.Builtin); ok && bi.Name() == "cap" && pathOf(x.Call.Args[0]) == p {
							mentionsCap = true
						}
					}
				}
				scan(iff.Cond, 0)
				if mentionsCap {
					guarded = true
				}
			}
			r.check(guarded, "slice-not-extended-past-its-length", shortFn(fn)+"/"+p, lineOf(w, sl), "capacity is tested before the slice is extended in place",
				fmt.Sprintf("%s is re-sliced to len+%d without a test of cap(%s): it panics (slice bounds out of range) once the capacity is used up", p, off, p))
		})
	}
	if nExt == 0 {
		r.ok("slice-not-extended-past-its-length", "none", "-", "no slice is extended by re-slicing past its length")
	}

	// no request ends the process through the fatal logger (in the node binary Fatal panics on a goroutine of its own:
	// no interceptor could contain it)
	r.rule("no-fatal-on-request-paths", "Logger.Fatal is not called in any function reachable from an RPC handler (static calls, function literals, go statements, and every repo implementation of an interface method that is invoked); fatal exits belong to start-up and to the background loops", 1)
	{
		reach := map[*ssa.Function]bool{}
		var visit func(fn *ssa.Function)
		visit = func(fn *ssa.Function) {
			if fn == nil || reach[fn] || !isRepoFunc(fn) || len(fn.Blocks) == 0 {
				return
			}
			reach[fn] = true
			for _, a := range fn.AnonFuncs {
				visit(a)
			}
			instrsOf(fn, func(in ssa.Instruction) {
				c, ok := in.(ssa.CallInstruction)
				if !ok {
					return
				}
				if cal := c.Common().StaticCallee(); cal != nil {
					visit(cal)
					return
				}
				if c.Common().IsInvoke() {
					for _, impl := range repoImplementations(w, c.Common().Value.Type(), c.Common().Method) {
						visit(impl)
					}
				}
			})
		}
		for _, h := range handlerFns {
			visit(h)
		}
		bad := ""
		for fn := range reach {
			instrsOf(fn, func(in ssa.Instruction) {
				c, ok := in.(ssa.CallInstruction)
				if !ok {
					return
				}
				n := calleeName(c)
				if strings.HasSuffix(n, "logger.Logger).Fatal") || strings.HasSuffix(n, "logging.Helper).Fatal") {
					bad += fmt.Sprintf(" %s calls Fatal at %s;", shortFn(fn), lineOf(w, c))
				}
			})
		}
		r.Extra["functions_reachable_from_handlers"] = len(reach)
		r.check(bad == "" && len(reach) > len(handlerFns), "no-fatal-on-request-paths", "handlers", "-", fmt.Sprintf("no fatal exit among the %d functions a request can reach", len(reach)), bad)
	}

	// the truncation is started by the weight a received vertex claims; on a ledger that is shallower than the
	// checkpoint depth the depth walk hands back the zero hash, which is no vertex: the walk from it fails and
	// the truncate loop reports that with Fatal
	r.rule("depth-walk-outcome-is-tested", "wherever the truncation takes the hash from the depth collector (getHash), the outcome of the depth walk — that hash, a field of the collector, or the answer of another of its methods — reaches the condition of a branch whose two sides differ in what they do: a walk that ended before the depth was reached (the weight that starts a truncation is only what the sealer of a received vertex claimed) is told from one that found the checkpoint vertex", 1)
	if top := w.Func("accountant", "AccountingBook", "truncate"); top != nil {
		for _, d := range deepCalls(top, byName(nDepthGetter), deepDepth) {
			cv, isVal := d.c.(ssa.Value)
			if !isVal {
				continue
			}
			fn := d.c.Parent()
			srcs := []ssa.Value{cv}
			_, args := callArgs(d.c)
			if len(args) > 0 {
				if al, ok := baseOf(args[0]).(*ssa.Alloc); ok && al.Referrers() != nil {
					for _, ref := range *al.Referrers() {
						switch x := ref.(type) {
						case *ssa.FieldAddr:
							for _, lr := range *x.Referrers() {
								if ld, ok := lr.(*ssa.UnOp); ok && ld.Op == token.MUL {
									srcs = append(srcs, ld)
								}
							}
						case *ssa.Call:
							if x != cv && x.Call.StaticCallee() != nil && isRepoFunc(x.Call.StaticCallee()) && len(x.Call.Args) > 0 && x.Call.Args[0] == ssa.Value(al) {
								srcs = append(srcs, x)
							}
						}
					}
				}
			}
			tested := false
			for _, sv := range srcs {
				if at := flowsToBranch(w, sv, 3, map[ssa.Value]bool{}); at != nil && branchChangesEffects(at) {
					tested = true
				}
			}
			r.check(tested, "depth-walk-outcome-is-tested", shortFn(fn), lineOf(w, d.c), "the outcome of the depth walk decides a branch before the hash is used",
				"the hash of the depth collector is used as the checkpoint vertex without any test that the walk reached the depth: on a ledger shallower than the checkpoint depth (any admitted vertex may claim a weight above the truncate mark) it is the zero hash, the walk from it fails with an unknown id and the truncate loop ends the process with Fatal")
		}
	}

	// the graph library closes the stop channel of a walk when the walk is over: a send on it panics once the walker is done,
	// and whether it is done is a race the sender cannot win
	r.rule("no-send-on-a-walker-stop-channel", "no function of package accountant sends on the stop channel (result #1) of dag.AncestorsWalker / DescendantsWalker — directly, in a select, or in a helper that is handed the channel: the walker goroutine closes that channel when it has delivered its last id, and a send on a closed channel panics in the goroutine of the request", 0)
	{
		nStop := 0
		isStopOfWalker := func(v ssa.Value) bool {
			for _, o := range origins(v) {
				if ex, ok := o.(*ssa.Extract); ok && ex.Index == 1 {
					if c, ok := ex.Tuple.(*ssa.Call); ok {
						if n := calleeName(c); n == dagM("AncestorsWalker") || n == dagM("DescendantsWalker") {
							return true
						}
					}
				}
			}
			return false
		}
		var fromWalker func(v ssa.Value, d int) bool
		fromWalker = func(v ssa.Value, d int) bool {
			if isStopOfWalker(v) {
				return true
			}
			if d >= 2 {
				return false
			}
			for _, o := range origins(v) {
				if prm, ok := o.(*ssa.Parameter); ok {
					for _, cs := range staticCallers(w, prm.Parent()) {
						for k, p2 := range prm.Parent().Params {
							if p2 == prm && k < len(cs.Common().Args) && fromWalker(cs.Common().Args[k], d+1) {
								return true
							}
						}
					}
				}
			}
			return false
		}
		for _, fn := range w.RepoFuncs("accountant") {
			instrsOf(fn, func(in ssa.Instruction) {
				var chans []ssa.Value
				switch x := in.(type) {
				case *ssa.Send:
					chans = append(chans, x.Chan)
				case *ssa.Select:
					for _, st := range x.States {
						if st.Dir == types.SendOnly {
							chans = append(chans, st.Chan)
						}
					}
				}
				for _, ch := range chans {
					if fromWalker(ch, 0) {
						nStop++
						r.bad("no-send-on-a-walker-stop-channel", shortFn(fn)+"/send:"+pathOf(ch), lineOf(w, in), "nothing is sent on a channel the walker closes", "this send goes to the stop channel of a graph walk: the walker closes it after its last id, a send after that panics (send on closed channel) in the goroutine that serves the request")
					}
				}
			})
		}
		if nStop == 0 {
			r.ok("no-send-on-a-walker-stop-channel", "none", "-", "no send on a walker's stop channel")
		}
	}

	// unlocking a mutex that is not locked is a fatal error of the runtime, not a panic: nothing recovers from it
	r.rule("unlock-finds-the-lock-held", "in the request-serving packages every Unlock / RUnlock is executed with that mutex in the must-hold lockset — an explicit one where it stands, a deferred one at every return that is reachable from the defer statement (an early return between a manual Unlock and the re-Lock leaves through the deferred Unlock with the mutex free: fatal error: sync: Unlock of unlocked RWMutex)", 6)
	{
		liU := ComputeLocks(w, func(fn *ssa.Function) bool { return isRepoFunc(fn) })
		for _, fn := range append(append([]*ssa.Function{}, fns...), w.RepoFuncs("cache", "webhooks")...) {
			instrsOf(fn, func(in ssa.Instruction) {
				c, ok := in.(ssa.CallInstruction)
				if !ok {
					return
				}
				op, mode, id, isLock := lockOp(c)
				if !isLock || op != "unlock" {
					return
				}
				if _, isGo := in.(*ssa.Go); isGo {
					return
				}
				key := shortFn(fn) + "/" + mode + ":" + id
				if _, deferred := in.(*ssa.Defer); deferred {
					bad := ""
					seenRet := map[*ssa.Return]bool{}
					walkFrom(in, nil, nil, func(x ssa.Instruction) bool {
						if ret, isRet := x.(*ssa.Return); isRet && !seenRet[ret] {
							seenRet[ret] = true
							if held := liU.At(ret); !held.Has(id, mode) {
								bad += fmt.Sprintf(" the return at %s is reached with lockset %s;", lineOf(w, ret), held.String())
							}
						}
						return false
					})
					r.check(bad == "", "unlock-finds-the-lock-held", key+"/deferred", lineOf(w, in), "the deferred unlock runs with the mutex held at every return", bad)
					return
				}
				held := liU.At(in)
				r.check(held.Has(id, mode), "unlock-finds-the-lock-held", key, lineOf(w, in), "the mutex is held where it is unlocked", "lockset "+held.String())
			})
		}
	}

	// shared tables are only touched under their lock (an unsynchronised map access aborts the process)
	tablesUnderLock(w, r, "shared-table-under-lock")

	// validate before mutate
	r.rule("validate-before-mutate", "in every handler (and the helpers it calls directly) no signature / challenge / shape validation is reachable after a call with ledger, awaiting-cache or peer-table effects", 8)
	effect := func(in ssa.Instruction) string {
		switch x := in.(type) {
		case ssa.CallInstruction:
			n := calleeName(x)
			for _, suf := range []string{").CreateLeaf", ").AddLeaf", ").SaveAwaitedTransaction", ").RemoveAwaitedTransaction", ").LoadDag", ").CreateGenesis"} {
				if strings.HasSuffix(n, suf) {
					return n[strings.LastIndex(n, ".")+1:]
				}
			}
		case *ssa.MapUpdate:
			if strings.HasSuffix(pathOf(x.Map), ".nodes") {
				return "peer-table update"
			}
		}
		return ""
	}
	validation := func(in ssa.Instruction) string {
		c, ok := in.(ssa.CallInstruction)
		if !ok {
			return ""
		}
		n := calleeName(c)
		for _, suf := range []string{").Verify", ").VerifyIssuer", ").VerifyIssuerReceiver", ").ValidateData", ".ProtoTrxToTrx", ").validateSignature", ".validateProtoVertex"} {
			if strings.HasSuffix(n, suf) {
				return n[strings.LastIndex(n, ".")+1:]
			}
		}
		return ""
	}
	for _, h := range handlerFns {
		nEff := 0
		bad := false
		instrsOf(h, func(in ssa.Instruction) {
			e := effect(in)
			if e == "" {
				return
			}
			nEff++
			walkFrom(in, nil, nil, func(x ssa.Instruction) bool {
				if v := validation(x); v != "" {
					bad = true
					r.bad("validate-before-mutate", shortFn(h)+"/"+e+"→"+v, lineOf(w, x), "no request validation after an effect",
						fmt.Sprintf("%s (at %s) is reachable after %s (at %s): a request rejected by it has already changed state", v, lineOf(w, x), e, lineOf(w, in)))
				}
				return false
			})
		})
		if !bad {
			r.ok("validate-before-mutate", shortFn(h), w.Pos(h.Pos()), fmt.Sprintf("%d effect calls, none followed by a validation", nEff))
		}
	}
	r.Extra["D2_sites"] = nD2
}

// nilCheckedThenUsed (a contradiction rule): the function itself tests v against nil, so it believes v can be nil; a
// dereference of the very same value — a method call on the interface, a field access or load through the pointer —
// that is reachable from the edge on which the test found it nil, without passing the definition of v again, panics on
// that path. The servers have no recovery interceptor: the panic ends the process.
func nilCheckedThenUsed(w *World, r *Report, rule string, fns []*ssa.Function) {
	r.rule(rule, "in the wire-facing packages no interface method call / pointer dereference of a value is reachable from the branch edge on which the same function found that very value nil (e.g. err.Error() on a path where err == nil)", 1)
	nTests, nBad := 0, 0
	for _, fn := range fns {
		// values tested against nil, with the edges on which they are nil
		nilEdges := map[ssa.Value][]Edge{}
		for _, b := range fn.Blocks {
			for i := range b.Succs {
				e := Edge{b, i}
				for _, f := range edgeFacts(e) {
					if f.kind == fIsNil && f.x != nil {
						if _, isConst := f.x.(*ssa.Const); isConst {
							continue
						}
						nilEdges[f.x] = append(nilEdges[f.x], e)
					}
				}
			}
		}
		if len(nilEdges) == 0 {
			continue
		}
		derefOf := func(in ssa.Instruction) ssa.Value {
			switch x := in.(type) {
			case ssa.CallInstruction:
				if x.Common().IsInvoke() {
					return x.Common().Value
				}
			case *ssa.FieldAddr:
				return x.X
			case *ssa.Field:
				return nil
			case *ssa.UnOp:
				if x.Op == token.MUL {
					if _, isPtr := x.X.Type().Underlying().(*types.Pointer); isPtr {
						if _, isAlloc := x.X.(*ssa.Alloc); !isAlloc {
							if _, isFA := x.X.(*ssa.FieldAddr); !isFA {
								if _, isIA := x.X.(*ssa.IndexAddr); !isIA {
									if _, isG := x.X.(*ssa.Global); !isG {
										if _, isFV := x.X.(*ssa.FreeVar); !isFV {
											return x.X
										}
									}
								}
							}
						}
					}
				}
			}
			return nil
		}
		var vals []ssa.Value
		for v := range nilEdges {
			vals = append(vals, v)
		}
		sort.Slice(vals, func(i, j int) bool {
			return vals[i].Pos() < vals[j].Pos() || vals[i].Pos() == vals[j].Pos() && vals[i].Name() < vals[j].Name()
		})
		for _, v := range vals {
			nTests++
			def, _ := v.(ssa.Instruction)
			var hit ssa.Instruction
			for _, e := range nilEdges[v] {
				walkFrom(nil, e.To(), nil, func(in ssa.Instruction) bool {
					if hit != nil {
						return true
					}
					if def != nil && in == def {
						return true // a new value of v from here on
					}
					if dv := derefOf(in); dv != nil && dv == v {
						hit = in
						return true
					}
					return false
				})
			}
			if hit != nil {
				nBad++
				r.bad(rule, shortFn(fn)+"/"+pathOf(v), lineOf(w, hit), "a value found nil is not dereferenced on the path from that finding",
					fmt.Sprintf("%s is tested against nil in %s and dereferenced at %s on a path from the edge where it is nil: that path panics", pathOf(v), shortFn(fn), lineOf(w, hit)))
			}
		}
	}
	if nBad == 0 {
		r.ok(rule, "all", "-", fmt.Sprintf("%d nil-tested values examined, none dereferenced on its nil path", nTests))
	}
	r.Extra["nil_tested_values"] = nTests
}

// mapMayBeNil: can map value v be nil? "" when every origin is an allocation (or unknown storage that is assumed
// allocated: fields, parameters, results of foreign calls); otherwise what makes it nil.
func mapMayBeNil(w *World, v ssa.Value, depth int, seen map[ssa.Value]bool) string {
	if v == nil || seen[v] {
		return ""
	}
	seen[v] = true
	switch x := v.(type) {
	case *ssa.MakeMap:
		return ""
	case *ssa.Const:
		if x.Value == nil {
			return "the nil map constant (a variable declared without make) at " + w.Pos(x.Pos())
		}
	case *ssa.ChangeType:
		return mapMayBeNil(w, x.X, depth, seen)
	case *ssa.Phi:
		hb := x.Block()
		for i, e := range x.Edges {
			// an edge taken because this very value was found non-nil
			if i < len(hb.Preds) {
				p := hb.Preds[i]
				nonNil := false
				for si, sb := range p.Succs {
					if sb != hb {
						continue
					}
					for _, f := range edgeFacts(Edge{p, si}) {
						if f.kind == fNotNil && f.x == e {
							nonNil = true
						}
					}
				}
				if nonNil {
					continue
				}
			}
			if s := mapMayBeNil(w, e, depth, seen); s != "" {
				return s
			}
		}
	case *ssa.Extract:
		if c, ok := x.Tuple.(*ssa.Call); ok {
			return mapResultMayBeNil(w, c, x.Index, depth, seen)
		}
	case *ssa.Call:
		return mapResultMayBeNil(w, x, 0, depth, seen)
	case *ssa.UnOp:
		if al, ok := x.X.(*ssa.Alloc); ok && x.Op == token.MUL {
			n := 0
			for _, ref := range *al.Referrers() {
				if st, ok := ref.(*ssa.Store); ok && st.Addr == ssa.Value(al) {
					n++
					if s := mapMayBeNil(w, st.Val, depth, seen); s != "" {
						return s
					}
				}
			}
			if n == 0 {
				return "variable " + al.Comment + " is never assigned a map"
			}
		}
	}
	return ""
}

func mapResultMayBeNil(w *World, c *ssa.Call, idx, depth int, seen map[ssa.Value]bool) string {
	cal := c.Call.StaticCallee()
	if cal == nil || !isRepoFunc(cal) || len(cal.Blocks) == 0 || depth <= 0 {
		return ""
	}
	for _, ret := range returnsOf(cal) {
		if idx >= len(ret.Results) {
			continue
		}
		if s := mapMayBeNil(w, ret.Results[idx], depth-1, seen); s != "" {
			return shortFn(cal) + " can return " + s
		}
	}
	return ""
}

// repoImplementations: the repo functions an interface method call can dispatch to (every repo type whose method set
// satisfies the interface; the wiring in cmd/ is not needed).
func repoImplementations(w *World, it types.Type, m *types.Func) []*ssa.Function {
	iface, ok := it.Underlying().(*types.Interface)
	if !ok || m == nil {
		return nil
	}
	var out []*ssa.Function
	for _, p := range w.Prog.AllPackages() {
		if p.Pkg == nil || !strings.HasPrefix(p.Pkg.Path(), modPath+"/") {
			continue
		}
		for _, mem := range p.Members {
			tn, ok := mem.(*ssa.Type)
			if !ok {
				continue
			}
			for _, t := range []types.Type{tn.Type(), types.NewPointer(tn.Type())} {
				if _, isIface := tn.Type().Underlying().(*types.Interface); isIface {
					continue
				}
				if !types.Implements(t, iface) {
					continue
				}
				sel := w.Prog.MethodSets.MethodSet(t).Lookup(m.Pkg(), m.Name())
				if sel == nil {
					continue
				}
				if f := w.Prog.MethodValue(sel); f != nil {
					out = append(out, f)
				}
			}
		}
	}
	return out
}

// absentEntryNotUsed: a map lookup of a key that is not there yields the zero value — for an entry that is (or holds) a
// pointer or an interface that is nil. Using it (calling a method on it, dereferencing it, keeping it for a later call)
// needs the lookup to have found the key, or the value to have been tested.
func absentEntryNotUsed(w *World, r *Report, rule string, fns []*ssa.Function) {
	r.rule(rule, "in the wire-facing packages a pointer or interface obtained from a map lookup (the entry itself, or such a field of a struct entry) is used — invoked, dereferenced, stored, appended, passed on — only behind the found-edge of the comma-ok form or behind a test of that value against nil: the key of a lookup on a request path is whatever the peer wrote", 0)
	n, nBad := 0, 0
	for _, fn := range fns {
		instrsOf(fn, func(in ssa.Instruction) {
			lk, ok := in.(*ssa.Lookup)
			if !ok {
				return
			}
			mt, isMap := lk.X.Type().Underlying().(*types.Map)
			if !isMap {
				return
			}
			var entry ssa.Value = lk
			var guards []Edge
			if lk.CommaOk {
				entry = nil
				for _, ref := range *lk.Referrers() {
					if ex, isEx := ref.(*ssa.Extract); isEx {
						if ex.Index == 0 {
							entry = ex
						} else {
							guards = append(guards, trueEdges(fn, ex)...)
						}
					}
				}
				if entry == nil {
					return
				}
			}
			isRef := func(t types.Type) bool {
				switch t.Underlying().(type) {
				case *types.Pointer, *types.Interface:
					return true
				}
				return false
			}
			var cands []ssa.Value
			if isRef(mt.Elem()) {
				cands = append(cands, entry)
			} else if _, isStruct := mt.Elem().Underlying().(*types.Struct); isStruct && entry.Referrers() != nil {
				for _, ref := range *entry.Referrers() {
					if f, isF := ref.(*ssa.Field); isF && isRef(f.Type()) {
						cands = append(cands, f)
					}
				}
			}
			for _, v := range cands {
				n++
				g := append(append([]Edge{}, guards...), edgesWhere(fn, func(f fact) bool { return f.kind == fNotNil && sameVal(f.x, v) })...)
				for _, ref := range *v.Referrers() {
					switch x := ref.(type) {
					case *ssa.DebugRef:
						continue
					case *ssa.BinOp:
						if x.Op == token.EQL || x.Op == token.NEQ {
							continue
						}
					case *ssa.Field, *ssa.Extract:
						continue
					}
					if behind(ref, g) {
						continue
					}
					nBad++
					r.bad(rule, shortFn(fn)+"/"+pathOf(lk.X)+"[…]", lineOf(w, ref), "an entry that may be absent is not used as if it were there",
						fmt.Sprintf("%s, taken from the lookup %s[%s] at %s, is used at %s although nothing on the way established that the key was found or the value is not nil: for an absent key it is nil, and calling through it panics", pathOf(v), pathOf(lk.X), pathOf(lk.Index), lineOf(w, lk), lineOf(w, ref)))
					break
				}
			}
		})
	}
	if nBad == 0 {
		r.ok(rule, "all", "-", fmt.Sprintf("%d pointer/interface values taken from map lookups examined, each used only where it is known to be present", n))
	}
}
