package main

// C01 — no confirmed transfer overdraws its issuer within the history it builds on (structural part).

import (
	"fmt"
	"go/token"
	"strings"

	"golang.org/x/tools/go/ssa"
)

var (
	nPourFunds  = cn("accountant", "", "pourFunds")
	nCheckFunds = cn("accountant", "", "checkHasSufficientfunds")
	nSupply     = cn("spice", "*Melange", "Supply")
	nDrain      = cn("spice", "*Melange", "Drain")
	nTransfer   = cn("spice", "", "Transfer")
)

// phiEntries expands value v through φ-nodes and returns for every non-φ leaf the CFG edge through
// which it enters (nil edge when v itself is the leaf).
type phiEntry struct {
	val  ssa.Value
	edge *Edge
}

func phiEntries(v ssa.Value) []phiEntry {
	var out []phiEntry
	seen := map[*ssa.Phi]bool{}
	var walk func(v ssa.Value, e *Edge)
	walk = func(v ssa.Value, e *Edge) {
		if p, ok := v.(*ssa.Phi); ok {
			if seen[p] {
				return
			}
			seen[p] = true
			for i, ev := range p.Edges {
				pred := p.Block().Preds[i]
				idx := -1
				for k, s := range pred.Succs {
					if s == p.Block() {
						idx = k
					}
				}
				ed := Edge{pred, idx}
				walk(ev, &ed)
			}
			return
		}
		out = append(out, phiEntry{v, e})
	}
	walk(v, nil)
	return out
}

// crossesBeforeEdge: every path from entry that takes edge e has crossed one of guards (or e is one).
func crossesBeforeEdge(fn *ssa.Function, e Edge, guards []Edge) bool {
	if len(guards) == 0 {
		return false
	}
	gs := edgeSet(guards)
	if gs[e] {
		return true
	}
	return !reachable([]*ssa.BasicBlock{fn.Blocks[0]}, gs)[e.From]
}

// appendsFeeding returns the append calls whose result may flow into slice value s.
func appendsFeeding(s ssa.Value) []*ssa.Call {
	var out []*ssa.Call
	seen := map[ssa.Value]bool{}
	var walk func(v ssa.Value)
	walk = func(v ssa.Value) {
		if seen[v] {
			return
		}
		seen[v] = true
		switch x := v.(type) {
		case *ssa.Phi:
			for _, e := range x.Edges {
				walk(e)
			}
		case *ssa.Call:
			if b, ok := x.Call.Value.(*ssa.Builtin); ok && b.Name() == "append" {
				out = append(out, x)
				walk(x.Call.Args[0])
			}
		case *ssa.Slice:
			walk(x.X)
		case *ssa.UnOp:
			if x.Op == token.MUL {
				if _, ok := x.X.(*ssa.Alloc); ok {
					for _, sv := range reachingStores(x).vals {
						walk(sv)
					}
				}
			}
		case *ssa.Extract: // the slice is a result of a same-package helper: it is filled there
			if c, ok := x.Tuple.(*ssa.Call); ok {
				if h := samePkgHelper(c.Parent(), c); h != nil {
					for _, ret := range returnsOf(h) {
						vals, _ := resultVals(ret, x.Index)
						for _, rv := range vals {
							walk(rv)
						}
					}
				}
			}
		}
	}
	walk(s)
	return out
}

// hostsOf: the functions among fn and the same-package helpers it calls (two levels) that contain a direct
// call of callee — the rule's local analyses run where the call lives.
func hostsOf(fn *ssa.Function, callee string) []*ssa.Function {
	seen := map[*ssa.Function]bool{}
	var out []*ssa.Function
	for _, d := range deepCalls(fn, byName(callee), deepDepth) {
		h := d.c.Parent()
		if !seen[h] {
			seen[h] = true
			out = append(out, h)
		}
	}
	return out
}

func validateCallsFor(fn *ssa.Function, y ssa.Value) []Edge {
	var es []Edge
	for _, c := range callsTo(fn, nValidateLeaf) {
		_, a := callArgs(c)
		if len(a) == 2 && sameVal(a[1], y) {
			es = append(es, passErrNil(c)...)
		}
	}
	return es
}

func init() {
	register("C01", []string{"./accountant", "./spice"},
		"Structural necessary conditions of 'no overdrawing tip is ever built upon': an edge that confirms a tip is added only from vertices that passed validateLeaf (or were already confirmed), with the validated value bound to the linked one; "+
			"a tip that fails validation is deleted together with its index entry on every path; validateLeaf reports success only for a root, under the trusted-node/non-spice branch fed by checkIsTrustedNode(signer) alone, or behind the success edge of the funds check; "+
			"the funds check receives checkpoint funds, the tip itself and every walker item with consistent inflow/outflow roles, and pourFunds classifies issuer→outflow, receiver→inflow with the same amount. "+
			"That the walk visits all ancestors of the DAG, the arithmetic itself and cross-node behaviour are not decided.",
		runC01)
}

func runC01(w *World, r *Report) {
	r.NotDecided = []string{"that the graph walker enumerates all ancestors (library behaviour)", "arithmetic of Supply/Drain (see C05)", "the post-truncation IsRoot shortcut for an old tip whose parents were all checkpointed (history dependent)", "behaviour across nodes / merge of branches (C02)"}

	// ---- 1. confirm only validated
	r.rule("confirm-only-validated", "AddEdge(src→new) outside LoadDag: src originates only from vertices that passed validateLeaf or were found non-tip", 4)
	if f := w.fx(r, "accountant", "AccountingBook", "addLeafMemorized"); f != nil {
		fn := f.fn
		var isLeafTrue []Edge
		for _, d := range deepCalls(fn, byName(dagM("IsLeaf")), deepDepth) {
			isLeafTrue = append(isLeafTrue, passBool(d.c, 0, true)...)
		}
		for _, ed := range deepCalls(fn, byName(nAddEdge), deepDepth) {
			e := ed.c
			_, a := callArgs(e)
			x, ok := vertexOfHashArg(a[0])
			if !ok {
				r.undecided("confirm-only-validated", "addLeafMemorized/AddEdge-src", lineOf(w, e), "source vertex must be identifiable", pathOf(a[0]))
				continue
			}
			ld, ok := x.(*ssa.UnOp)
			var slice ssa.Value
			if ok {
				if ia, ok := ld.X.(*ssa.IndexAddr); ok {
					slice = ia.X
				}
			}
			if slice == nil {
				r.undecided("confirm-only-validated", "addLeafMemorized/AddEdge-src", lineOf(w, e), "source vertex must come from the validated list", "src is "+pathOf(x))
				continue
			}
			apps := appendsFeeding(ed.argValue(slice))
			if len(apps) == 0 {
				r.bad("confirm-only-validated", "addLeafMemorized/validated-list", lineOf(w, e), "validated list must be filled by append behind the tip test", fmt.Sprintf("appends=%d isLeaf-edges=%d", len(apps), len(isLeafTrue)))
				continue
			}
			for _, ap := range apps {
				ys := sliceLitElems(ap.Call.Args[1])
				if len(ys) == 0 {
					r.undecided("confirm-only-validated", "addLeafMemorized/append", lineOf(w, ap), "appended element must be identifiable", "not a single-element append")
					continue
				}
				for _, y := range ys {
					// at: the place the vertex y is handed on (the append, or the successful return of a helper that looks the
					// parent up and hands it back to the loop that appends it)
					var validatedAt func(at ssa.Instruction, y ssa.Value, depth int) bool
					validatedAt = func(at ssa.Instruction, y ssa.Value, depth int) bool {
						if ex, isEx := y.(*ssa.Extract); isEx && depth < 2 {
							if hc, isCall := ex.Tuple.(*ssa.Call); isCall {
								if h := samePkgHelper(at.Parent(), hc); h != nil {
									ok, n := true, 0
									for _, ret := range returnsOf(h) {
										if !successReturn(ret) {
											continue
										}
										vals, zero := resultVals(ret, ex.Index)
										if zero {
											continue
										}
										for _, rv := range vals {
											n++
											if !validatedAt(ret, rv, depth+1) {
												ok = false
											}
										}
									}
									return ok && n > 0
								}
							}
						}
						ve := validateCallsFor(at.Parent(), y) // where the list is filled (addLeafMemorized or its helper)
						okAll := len(ve) > 0
						if !behind(at, ve) { // validated unconditionally is fine too
							if len(isLeafTrue) == 0 {
								okAll = false
							}
							nLocal := 0
							for _, te := range isLeafTrue {
								if te.From.Parent() != at.Parent() {
									continue
								}
								nLocal++
								if !mustCrossFrom(te, at.Block(), ve) {
									okAll = false
								}
							}
							if nLocal == 0 {
								okAll = false
							}
						}
						return okAll
					}
					okAll := validatedAt(ap, y, 0)
					r.check(okAll, "confirm-only-validated", "addLeafMemorized/append("+describeVertexSource(y)+")", lineOf(w, ap),
						"a parent that is still a tip enters the to-be-linked list only behind validateLeaf(ctx, that parent) == nil",
						"append reachable from the isLeaf==true edge without crossing the success edge of validateLeaf for the appended vertex")
				}
			}
		}
	}
	createdVertexParentsValidated(w, r, "confirm-only-validated")
	// a vertex admitted without an edge from each declared parent is a root, and roots are exempt from the funds check
	parentsExist(w, r, "admitted-vertex-has-its-parents")
	checkpointCountsOnlyTheWalked(w, r, "checkpoint-counts-only-the-walked")
	// … and every walked vertex is folded: a vertex that is stored and pruned without having been counted takes its
	// spend out of the checkpoint the next validation starts from
	saveWhatIsCounted(w, r, truncateModel(w))
	// the funds validation adds amounts with Supply, which is exact on canonical amounts only
	canonicalAtEntry(w, r)

	// ---- 2. a failing tip is dropped together with its index entry
	r.rule("drop-with-index", "from the failure edge of validateLeaf(ctx, v) every path to an exit or to the next validation passes DeleteVertex(v.Hash) and removeTrxInVertex(v.Transaction.Hash)", 4)
	for _, name := range []string{"getValidLeaves", "addLeafMemorized"} {
		f := w.fx(r, "accountant", "AccountingBook", name)
		if f == nil {
			continue
		}
		var vcalls []ssa.CallInstruction
		for _, host := range hostsOf(f.fn, nValidateLeaf) {
			vcalls = append(vcalls, callsTo(host, nValidateLeaf)...)
		}
		for _, c := range vcalls {
			_, a := callArgs(c)
			v := pathOf(a[1])
			for _, what := range []struct {
				label string
				stop  func(ssa.Instruction, *frame) bool
			}{
				{"DeleteVertex", func(in ssa.Instruction, fr *frame) bool {
					ci, ok := in.(ssa.CallInstruction)
					if !ok || calleeName(ci) != nDeleteVertex {
						return false
					}
					_, da := callArgs(ci)
					x, ok := vertexOfHashArg(da[0])
					return ok && fr.cx.res(x) == v
				}},
				{"removeTrxInVertex", func(in ssa.Instruction, fr *frame) bool {
					ci, ok := in.(ssa.CallInstruction)
					if !ok || calleeName(ci) != nRemoveTrx {
						return false
					}
					_, ra := callArgs(ci)
					return fr.cx.res(ra[0]) == v+".Transaction.Hash"
				}},
			} {
				escapes := 0
				for _, fe := range failErrNonNil(c) {
					// helpers are followed (a roll-back helper called with the failing tip)
					dw := newDeepWalk(func(in ssa.Instruction, fr *frame) bool {
						if what.stop(in, fr) {
							return true
						}
						if !fr.top() {
							return false
						}
						if in == ssa.Instruction(c.(*ssa.Call)) {
							escapes++ // next iteration reached
							return true
						}
						if _, ok := in.(*ssa.Return); ok {
							escapes++
							return true
						}
						return false
					})
					dw.run(topFrame(c.Parent()), fe.To(), 0)
				}
				r.check(escapes == 0 && len(failErrNonNil(c)) > 0, "drop-with-index", name+"/"+what.label+"("+describeVertexSource(a[1])+")", lineOf(w, c),
					"invalid tip is removed: "+what.label, fmt.Sprintf("%d paths leave the failure branch without it (failure edges: %d)", escapes, len(failErrNonNil(c))))
			}
		}
	}

	// ---- 2b. the checkpoint a validation reads and the DAG it walks are switched atomically
	checkpointPruneAtomic(w, r)
	checkpointWritesEveryAddress(w, r, "checkpoint-replaces-every-record")

	// ---- 3. validateLeaf is a funds check
	vl := w.fx(r, "accountant", "AccountingBook", "validateLeaf")
	if vl == nil {
		return
	}
	fn := vl.fn
	leaf := fn.Params[2].Name()
	r.rule("validate-success-classes", "validateLeaf may report success only (i) for a root, (ii) inside the non-spice/trusted branch, (iii) behind the success edge of the funds check", 3)
	var rootE, bypassE, fundsE []Edge
	for _, c := range vl.calls(dagM("IsRoot")) {
		_, a := callArgs(c)
		if x, ok := vertexOfHashArg(a[0]); ok && pathOf(x) == leaf {
			rootE = append(rootE, passBool(c, 0, true)...)
		}
	}
	trustedOK := false
	for _, c := range vl.calls(cn("accountant", "*AccountingBook", "checkIsTrustedNode")) {
		_, a := callArgs(c)
		if pathOf(a[0]) == leaf+".SignerPublicAddress" {
			bypassE = append(bypassE, passBool(c, 0, true)...)
			trustedOK = true
		}
	}
	for _, c := range vl.calls(cn("transaction", "Transaction", "IsSpiceTransfer")) {
		recv, _ := callArgs(c)
		if pathOf(recv) == leaf+".Transaction" {
			bypassE = append(bypassE, passBool(c, 0, false)...)
		}
	}
	var fundsCall ssa.CallInstruction
	for _, c := range vl.calls(nCheckFunds) {
		fundsCall = c
		fundsE = append(fundsE, passErrNil(c)...)
	}
	// … and that function answers from the trusted-nodes store itself, on every call (a remembered answer
	// outlives RemoveTrustedNode)
	if tf := w.fx(r, "accountant", "AccountingBook", "checkIsTrustedNode"); tf != nil {
		var views []ssa.CallInstruction
		for _, c := range tf.calls("(*" + badgerPkg + ".DB).View") {
			recv, _ := callArgs(c)
			if strings.HasSuffix(pathOf(recv), ".trustedNodesDB") {
				views = append(views, c)
			}
		}
		early := 0
		for _, ret := range returnsOf(tf.fn) {
			vals, zero := resultVals(ret, 0)
			if zero {
				continue
			}
			allFalse := len(vals) > 0
			for _, v := range vals {
				if bv, isC := boolConst(v); !isC || bv {
					allFalse = false
				}
			}
			if allFalse {
				continue
			}
			dominated := false
			for _, vc := range views {
				vi := vc.(ssa.Instruction)
				if vi.Block() == ret.Block() || vi.Block().Dominates(ret.Block()) {
					dominated = true
				}
			}
			if !dominated {
				early++
			}
		}
		r.check(len(views) > 0 && early == 0, "validate-success-classes", "checkIsTrustedNode/answers-from-the-store", w.Pos(tf.fn.Pos()),
			"a node is reported trusted only after the trusted-nodes store was read in this call", fmt.Sprintf("%d returns that may report 'trusted' are reachable without the store lookup (store lookups: %d)", early, len(views)))
	}
	r.check(trustedOK, "validate-success-classes", "validateLeaf/trusted-source", w.Pos(fn.Pos()), "the trusted flag is the result of checkIsTrustedNode(leaf.SignerPublicAddress)", "no such call")
	classes := map[string]int{}
	for _, ret := range returnsOf(fn) {
		if !successReturn(ret) {
			continue
		}
		cls := ""
		switch {
		case behind(ret, rootE):
			cls = "root"
		case behind(ret, bypassE):
			cls = "non-spice-or-trusted"
		case behind(ret, fundsE):
			cls = "funds-check-passed"
		}
		classes[cls]++
		r.check(cls != "", "validate-success-classes", "validateLeaf/"+describeExit(ret)+"@"+cls, lineOf(w, ret),
			"a success return of validateLeaf belongs to one of the three classes", "success return outside root / trusted-or-non-spice / funds-check-passed")
	}
	for _, cls := range []string{"root", "non-spice-or-trusted", "funds-check-passed"} {
		r.check(classes[cls] > 0, "validate-success-classes", "validateLeaf/class:"+cls, w.Pos(fn.Pos()), "class "+cls+" exists", "no success return of this class (anchor drift)")
	}

	// role consistency
	r.rule("funds-roles", "checkpoint funds → inflow; pourFunds(issuer, tip|ancestor, &in, &out) with constant roles; checkHasSufficientfunds(&in,&out) drains out from in; pourFunds: issuer→out, receiver→in, same amount", 6)
	if fundsCall != nil {
		_, fa := callArgs(fundsCall)
		in, out := pathOf(fa[0]), pathOf(fa[1])
		issuer := leaf + ".Transaction.IssuerAddress"
		pcs := vl.calls(nPourFunds)
		nTip, nAnc := 0, 0
		for _, c := range pcs {
			_, a := callArgs(c)
			ok := pathOf(a[0]) == issuer && pathOf(a[2]) == in && pathOf(a[3]) == out
			which := "ancestor"
			if pathOf(a[1]) == leaf {
				which = "tip"
				nTip++
			} else {
				nAnc++
			}
			r.check(ok, "funds-roles", "validateLeaf/pourFunds("+which+")", lineOf(w, c), "pourFunds(leaf issuer, vertex, &in, &out) with the same in/out as the funds check",
				fmt.Sprintf("called with (%s, %s, %s, %s); funds check uses in=%s out=%s", pathOf(a[0]), pathOf(a[1]), pathOf(a[2]), pathOf(a[3]), in, out))
		}
		r.check(nTip == 1 && nAnc >= 1, "funds-roles", "validateLeaf/pourFunds-coverage", w.Pos(fn.Pos()), "the tip itself and the walker items are both poured", fmt.Sprintf("tip=%d ancestor=%d", nTip, nAnc))
		// checkpoint funds supplied to inflow
		ckOK := false
		for _, c := range vl.calls(cn("accountant", "*AccountingBook", "readAddressFundsFromStorage")) {
			_, a := callArgs(c)
			if pathOf(a[0]) != issuer {
				continue
			}
			s := resultAt(c, 0)
			for _, sc := range vl.calls(nSupply) {
				recv, sa := callArgs(sc)
				if pathOf(recv) == in && s != nil && sameVal(sa[0], s) {
					ckOK = true
				}
			}
		}
		{
			li := ComputeLocks(w, acctScope)
			for _, c := range vl.calls(cn("accountant", "*AccountingBook", "readAddressFundsFromStorage"), dagM("AncestorsWalker")) {
				held := li.At(c)
				r.check(held.Has(abMux, "W"), "funds-roles", "validateLeaf/"+shortCallee(c)+"-under-ledger-lock", lineOf(w, c), "checkpoint read and ancestor walk of a validation see one consistent ledger (exclusive ledger lock held by every caller)", "lockset "+held.String())
			}
		}
		r.check(ckOK, "funds-roles", "validateLeaf/checkpoint→in", w.Pos(fn.Pos()), "checkpointed funds of the issuer are supplied to the inflow side", "no in.Supply(readAddressFundsFromStorage(issuer))")
		// funds check must be reached only after the walk: every path from the walker call to the funds check crosses the exhausted edge
		for _, wc := range vl.calls(dagM("AncestorsWalker")) {
			data := resultAt(wc, 0)
			// (the receive may sit in a helper that is handed the channel: the walk follows it and is pruned by the
			// helper return it came back through)
			dataPath := pathOf(data)
			reached := false
			dw := newDeepWalk(func(in ssa.Instruction, _ *frame) bool {
				if in == fundsCall.(ssa.Instruction) {
					reached = true
				}
				return reached
			})
			nExh := 0
			dw.cutSpec = func(fn2 *ssa.Function, res resolver) []Edge {
				es := exhaustedEdgesOfPath(fn2, res, dataPath)
				nExh += len(es)
				return es
			}
			dw.run(topFrame(fn), fn.Blocks[0], 0)
			okOrder := nExh > 0 && !reached
			r.check(okOrder, "funds-roles", "validateLeaf/check-after-full-walk", lineOf(w, fundsCall), "the funds check runs only after the ancestor walk was exhausted", "funds check reachable before the walker channel is exhausted")
			// every received item is poured (or skipped as already visited)
			recvs, _ := exhaustedEdges(fn, data)
			for _, rv := range recvs {
				var okv ssa.Value
				for _, ref := range *rv.Referrers() {
					if e, ok := ref.(*ssa.Extract); ok && e.Index == 1 {
						okv = e
					}
				}
				if okv == nil {
					continue
				}
				// the only tolerated way back to the receive without pouring: the item was already visited
				var item ssa.Value
				for _, ref := range *rv.Referrers() {
					if e, ok := ref.(*ssa.Extract); ok && e.Index == 0 {
						item = e
					}
				}
				var skipEdges []Edge
				instrsOf(fn, func(in ssa.Instruction) {
					if l, ok := in.(*ssa.Lookup); ok && l.CommaOk && item != nil && sameVal(l.Index, item) {
						if visitedSetIsLocal(fn, l.X) {
							for _, ref := range *l.Referrers() {
								if e, ok := ref.(*ssa.Extract); ok && e.Index == 1 {
									skipEdges = append(skipEdges, trueEdges(fn, e)...)
								}
							}
						}
					}
				})
				skipped := 0
				for _, te := range trueEdges(fn, okv) {
					walkFrom(nil, te.To(), edgeSet(skipEdges), func(x ssa.Instruction) bool {
						if ci, ok := x.(ssa.CallInstruction); ok && calleeName(ci) == nPourFunds {
							return true
						}
						if _, ok := x.(*ssa.Return); ok {
							return true // aborting the validation is not success
						}
						if x == ssa.Instruction(rv) {
							skipped++
							return true
						}
						return false
					})
				}
				r.check(skipped == 0, "funds-roles", "validateLeaf/every-item-poured", lineOf(w, rv), "every ancestor delivered by the walker is poured unless it is in the local visited set",
					fmt.Sprintf("%d ways back to the receive without pourFunds other than the visited-set skip", skipped))
			}
		}
	}
	sufficiencyByDrain(w, r, "funds-roles")
	pourFundsRoles(w, r, "funds-roles")
	// errors of pourFunds / Supply in validateLeaf are not ignored
	r.rule("validate-no-dropped-error", "inside validateLeaf no error of a funds-accounting step is dropped (a dropped error would turn 'cannot account' into 'valid')", 5)
	for _, c := range vl.calls(nPourFunds, nSupply, nCheckFunds, nVerify) {
		ev := errResult(c)
		if ev == nil {
			r.bad("validate-no-dropped-error", "validateLeaf/"+shortCallee(c), lineOf(w, c), "error result must be checked", "discarded")
			continue
		}
		bad := 0
		for _, fe := range failErrNonNil(c) {
			walkFrom(nil, fe.To(), nil, func(x ssa.Instruction) bool {
				if ret, ok := x.(*ssa.Return); ok {
					if successReturn(ret) {
						bad++
					}
					return true
				}
				return false
			})
		}
		r.check(bad == 0 && len(failErrNonNil(c)) > 0, "validate-no-dropped-error", "validateLeaf/"+shortCallee(c), lineOf(w, c), "failure of this step fails the validation", fmt.Sprintf("%d success returns reachable from its failure edge; failure edges=%d", bad, len(failErrNonNil(c))))
	}
	_ = strings.Contains
}

func describeVertexSource(v ssa.Value) string {
	for _, o := range origins(v) {
		if ex, ok := o.(*ssa.Extract); ok {
			if c, ok := ex.Tuple.(*ssa.Call); ok {
				return shortCallee(c) + "()"
			}
			if n, ok := ex.Tuple.(*ssa.Next); ok {
				if rg, ok := n.Iter.(*ssa.Range); ok {
					return "range " + pathOf(rg.X)
				}
			}
		}
		if c, ok := o.(*ssa.Call); ok {
			return shortCallee(c) + "()"
		}
		return pathOf(o)
	}
	return pathOf(v)
}

// checkpointPruneAtomic (shared by C01, C06): truncate writes the funds checkpoint and prunes the
// checkpointed vertices without ever releasing the exclusive ledger lock in between.
func checkpointPruneAtomic(w *World, r *Report) {
	r.rule("checkpoint-prune-atomic", "truncate writes the funds checkpoint and prunes the checkpointed vertices without ever releasing the exclusive ledger lock in between (otherwise a validation or balance query in the window counts checkpointed receipts twice)", 3)
	f := w.fx(r, "accountant", "AccountingBook", "truncate")
	if f == nil {
		return
	}
	li := ComputeLocks(w, acctScope)
	saves := deepCalls(f.fn, byName(nSaveFunds), deepDepth)
	dels := deepCalls(f.fn, byName(nDeleteVertex), deepDepth)
	for _, d := range append(append([]dcall{}, saves...), dels...) {
		held := li.At(d.c)
		r.check(held.Has(abMux, "W"), "checkpoint-prune-atomic", "truncate/"+shortCallee(d.c), lineOf(w, d.c), "runs under the exclusive ledger lock", "lockset "+held.String())
	}
	for _, sv := range saves {
		unlocks := 0
		dw := newDeepWalk(func(in ssa.Instruction, _ *frame) bool {
			if c, ok := in.(*ssa.Call); ok { // deferred unlocks run at return: not in between
				if op, _, id, ok := lockOp(c); ok && op == "unlock" && id == abMux {
					unlocks++
				}
			}
			return false
		})
		si := sv.c.(ssa.Instruction)
		dw.run(frameFor(f.fn, sv.chain), si.Block(), indexIn(si.Block(), si)+1)
		r.check(unlocks == 0, "checkpoint-prune-atomic", "truncate/no-unlock-after-checkpoint", lineOf(w, sv.c), "no unlock of the ledger lock between the checkpoint write and the end of the truncation", fmt.Sprintf("%d unlock calls reachable after the checkpoint write", unlocks))
	}
}

// pourFundsRoles: the per-vertex classifier shared by validation (C01) and balance queries (C06).
func pourFundsRoles(w *World, r *Report, rule string) {
	f := w.fx(r, "accountant", "", "pourFunds")
	if f == nil {
		return
	}
	pf := f.fn
	addr, vrx, pin, pout := pf.Params[0].Name(), pf.Params[1].Name(), pf.Params[2].Name(), pf.Params[3].Name()
	seen := map[string]bool{}
	topSite := map[string]ssa.Instruction{}
	supplies := deepCalls(pf, byName(nSupply), deepDepth)
	for _, d := range supplies {
		c := d.c
		recv, a := callArgs(c)
		side := d.path(recv)
		var want string
		switch side {
		case pout:
			want = "IssuerAddress"
		case pin:
			want = "ReceiverAddress"
		default:
			r.bad(rule, "pourFunds/Supply("+side+")", lineOf(w, c), "Supply only on the in/out parameters", "unexpected receiver")
			continue
		}
		seen[side] = true
		if len(d.chain) > 0 {
			topSite[side] = d.chain[0].(ssa.Instruction)
		} else {
			topSite[side] = c.(ssa.Instruction)
		}
		guard := func(fn2 *ssa.Function, res resolver) []Edge {
			is := func(p string) func(ssa.Value) bool { return func(v ssa.Value) bool { return res(v) == p } }
			return cmpEdges(fn2, is(vrx+".Transaction."+want), is(addr), true)
		}
		guarded := behindDeepSite(d, guard)
		amountOK := d.path(a[0]) == vrx+".Transaction.Spice"
		r.check(guarded && amountOK, rule, "pourFunds/"+side+"←"+want, lineOf(w, c),
			fmt.Sprintf("%s.Supply(vrx.Transaction.Spice) only behind vrx.Transaction.%s == address", side, want), fmt.Sprintf("guarded=%v amount=%s", guarded, d.path(a[0])))
	}
	// the two sides are independent tests: some execution performs both Supplies (a transfer whose issuer and receiver are
	// the same address is counted on both sides; a first-match switch would count it as spent only)
	both := false
	if a, b := topSite[pin], topSite[pout]; a != nil && b != nil {
		for _, pr := range [][2]ssa.Instruction{{a, b}, {b, a}} {
			walkFrom(pr[0], nil, nil, func(x ssa.Instruction) bool {
				if x == pr[1] {
					both = true
				}
				return both
			})
		}
	}
	r.check(both, rule, "pourFunds/sides-independent", w.Pos(pf.Pos()), "one execution can supply both the outflow and the inflow side (self-transfers count on both)", "once one side matched the other side's Supply is unreachable")
	r.check(seen[pin] && seen[pout], rule, "pourFunds/both-sides", w.Pos(pf.Pos()), "both inflow and outflow are accumulated", fmt.Sprintf("in=%v out=%v", seen[pin], seen[pout]))
	// errors of Supply are propagated (where the Supply lives, and by the helper call that leads to it)
	for _, d := range supplies {
		sites := append([]ssa.CallInstruction{d.c}, d.chain...)
		for _, c := range sites {
			fn2 := c.Parent()
			bad := 0
			propagated := false
			for _, ret := range returnsOf(fn2) {
				vals, _ := resultVals(ret, len(ret.Results)-1)
				for _, v := range vals {
					if ev := errResult(c); ev != nil && sameVal(v, ev) {
						propagated = true
					}
				}
			}
			for _, fe := range failErrNonNil(c) {
				walkFrom(nil, fe.To(), nil, func(x ssa.Instruction) bool {
					if ret, ok := x.(*ssa.Return); ok {
						if successReturn(ret) {
							bad++
						}
						return true
					}
					return false
				})
			}
			r.check(bad == 0 && (len(failErrNonNil(c)) > 0 || propagated), rule, "pourFunds/Supply-error-propagated", lineOf(w, c), "a failing Supply makes pourFunds fail", "success return reachable after a failed Supply")
		}
	}
}

// sufficiencyByDrain: the ledger's "can the inflow pay for the outflow" verdict is the verdict of the spice arithmetic
// itself — checkHasSufficientfunds succeeds only behind the success of in.Drain(*out, …); no parallel comparison decides
// (shared by C01 and C05: a predicate that re-implements the borrow test can disagree with Transfer by one unit).
func sufficiencyByDrain(w *World, r *Report, rule string) {
	if f := w.fx(r, "accountant", "", "checkHasSufficientfunds"); f != nil {
		ok := false
		for _, c := range f.calls(nDrain) {
			recv, a := callArgs(c)
			if pathOf(recv) == f.fn.Params[0].Name() && pathOf(a[0]) == f.fn.Params[1].Name() {
				rets := returnsOf(f.fn)
				allBehind := true
				for _, ret := range rets {
					if successReturn(ret) && !behind(ret, passErrNil(c)) {
						allBehind = false
					}
				}
				ok = allBehind
			}
		}
		r.check(ok, rule, "checkHasSufficientfunds/in.Drain(out)", w.Pos(f.fn.Pos()), "success only if in.Drain(*out, …) succeeded", "drain has other receiver/amount or its error does not gate success")
	}
}

// createdVertexParentsValidated: the parents CreateLeaf links a new vertex to originate only from getValidLeaves, and
// getValidLeaves hands out a tip only behind the success edge of validateLeaf for that tip (shared by C01 and C09:
// "a vertex created by a node references only tips that were valid at that moment").
func createdVertexParentsValidated(w *World, r *Report, rule string) {
	if f := w.fx(r, "accountant", "AccountingBook", "CreateLeaf"); f != nil {
		for _, e := range f.calls(nAddEdge) {
			_, a := callArgs(e)
			x, ok := vertexOfHashArg(a[0])
			if !ok {
				r.undecided(rule, "CreateLeaf/AddEdge-src", lineOf(w, e), "source vertex must be identifiable", pathOf(a[0]))
				continue
			}
			bad := ""
			n := 0
			for _, o := range originsLocal(x, 2) {
				n++
				ex, isEx := o.(*ssa.Extract)
				if c, isNil := o.(*ssa.Const); isNil && c.Value == nil {
					continue
				}
				if !isEx {
					bad = "origin " + pathOf(o)
					continue
				}
				c, isCall := ex.Tuple.(*ssa.Call)
				if !isCall || calleeName(c) != cn("accountant", "*AccountingBook", "getValidLeaves") || ex.Index > 1 {
					bad = "origin " + pathOf(o)
				}
			}
			r.check(bad == "" && n > 0, rule, "CreateLeaf/AddEdge-src", lineOf(w, e), "parents of a locally created vertex originate only from getValidLeaves", bad)
		}
	}
	if f := w.fx(r, "accountant", "AccountingBook", "getValidLeaves"); f != nil {
		fn := f.fn
		for idx := 0; idx < 2; idx++ {
			for _, ret := range returnsOf(fn) {
				for _, pe := range phiEntries(ret.Results[idx]) {
					if isNilConst(pe.val) {
						continue
					}
					ve := validateCallsFor(fn, pe.val)
					ok := false
					if pe.edge != nil {
						ok = crossesBeforeEdge(fn, *pe.edge, ve)
					} else {
						ok = behind(ret, ve)
					}
					r.check(ok, rule, fmt.Sprintf("getValidLeaves/result#%d=%s", idx, describeVertexSource(pe.val)), lineOf(w, ret),
						"a tip is handed out as a parent only behind validateLeaf(ctx, that tip) == nil", "value reaches the result without crossing the success edge of its validation")
				}
			}
		}
	}
}
