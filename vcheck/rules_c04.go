package main

// C04 — tamper evidence: altered vertices and transactions are never admitted (structural part).

import (
	"fmt"
	"go/constant"
	"go/token"
	"go/types"
	"reflect"
	"sort"
	"strings"

	"golang.org/x/tools/go/ssa"
)

// fieldUses classifies, for receiver-rooted field paths of fn, whether the field's value is used
// for its content (anything but builtin len) and whether its length is used.
type fieldUse struct {
	content bool
	length  bool
}

func receiverFieldUses(fn *ssa.Function) map[string]*fieldUse {
	out := map[string]*fieldUse{}
	if fn == nil || len(fn.Params) == 0 {
		return out
	}
	recv := fn.Params[0].Name()
	curKey := ""
	classifyLoad := func(u *fieldUse, ld ssa.Value) {
		for _, ref := range *ld.Referrers() {
			if c, ok := ref.(*ssa.Call); ok {
				if b, isB := c.Call.Value.(*ssa.Builtin); isB && b.Name() == "len" {
					u.length = true
					continue
				}
				// the digest is assembled by a helper of the same package: the field counts as far as the helper uses
				// the parameter it arrives in
				if h := samePkgHelper(fn, c); h != nil {
					handled := false
					for k, a := range c.Call.Args {
						if a != ld || k >= len(h.Params) {
							continue
						}
						handled = true
						pu, sub := paramUses(h, k, 1)
						u.content = u.content || pu.content
						u.length = u.length || pu.length
						for name, su := range sub {
							key := curKey + "." + name
							if out[key] == nil {
								out[key] = &fieldUse{}
							}
							out[key].content = out[key].content || su.content
							out[key].length = out[key].length || su.length
						}
					}
					if handled {
						continue
					}
				}
			}
			if _, isDbg := ref.(*ssa.DebugRef); isDbg {
				continue
			}
			u.content = true
		}
	}
	instrsOf(fn, func(in ssa.Instruction) {
		fa, ok := in.(*ssa.FieldAddr)
		if !ok {
			return
		}
		p := pathOf(fa)
		if !strings.HasPrefix(p, recv+".") {
			return
		}
		key := strings.TrimPrefix(p, recv+".")
		u := out[key]
		if u == nil {
			u = &fieldUse{}
			out[key] = u
		}
		curKey = key
		for _, ref := range *fa.Referrers() {
			switch x := ref.(type) {
			case *ssa.UnOp:
				if x.Op == token.MUL {
					classifyLoad(u, x)
				}
			case *ssa.Slice: // v.Hash[:] — the bytes themselves
				u.content = true
			case *ssa.FieldAddr, *ssa.DebugRef:
			default:
				u.content = true
			}
		}
	})
	return out
}

// paramUses classifies how helper h uses its parameter #k (content / length), and — for a struct parameter — how it
// uses each of its fields.
func paramUses(h *ssa.Function, k int, depth int) (fieldUse, map[string]*fieldUse) {
	var u fieldUse
	sub := map[string]*fieldUse{}
	if k >= len(h.Params) {
		return u, sub
	}
	var classify func(v ssa.Value, tgt *fieldUse)
	classify = func(v ssa.Value, tgt *fieldUse) {
		for _, ref := range *v.Referrers() {
			switch x := ref.(type) {
			case *ssa.DebugRef:
			case *ssa.Call:
				if b, isB := x.Call.Value.(*ssa.Builtin); isB && b.Name() == "len" {
					tgt.length = true
					continue
				}
				if h2 := samePkgHelper(h, x); h2 != nil && depth > 0 {
					for j, a := range x.Call.Args {
						if a == v {
							pu, _ := paramUses(h2, j, depth-1)
							tgt.content = tgt.content || pu.content
							tgt.length = tgt.length || pu.length
						}
					}
					continue
				}
				tgt.content = true
			case *ssa.Field:
				name := fieldName(x.X.Type(), x.Field)
				if sub[name] == nil {
					sub[name] = &fieldUse{}
				}
				classify(x, sub[name])
			case *ssa.Store: // by-value struct parameter spilled into a local: follow the local's fields
				if al, ok := x.Addr.(*ssa.Alloc); ok && x.Val == v {
					for _, r2 := range *al.Referrers() {
						if fa, ok := r2.(*ssa.FieldAddr); ok {
							name := fieldName(fa.X.Type(), fa.Field)
							if sub[name] == nil {
								sub[name] = &fieldUse{}
							}
							for _, r3 := range *fa.Referrers() {
								if ld, ok := r3.(*ssa.UnOp); ok && ld.Op == token.MUL {
									classify(ld, sub[name])
								}
							}
						}
					}
					continue
				}
				tgt.content = true
			default:
				tgt.content = true
			}
		}
	}
	classify(h.Params[k], &u)
	for _, su := range sub {
		if su.content {
			u.content = true
		}
	}
	return u, sub
}

// lengthsEncoded: does any len(...) value in fn flow into something other than the size of a make?
func lengthsEncoded(fn *ssa.Function) bool {
	enc := false
	instrsOf(fn, func(in ssa.Instruction) {
		c, ok := in.(*ssa.Call)
		if !ok {
			return
		}
		if b, isB := c.Call.Value.(*ssa.Builtin); !isB || b.Name() != "len" {
			return
		}
		seen := map[ssa.Value]bool{}
		var follow func(v ssa.Value)
		follow = func(v ssa.Value) {
			if seen[v] {
				return
			}
			seen[v] = true
			for _, ref := range *v.Referrers() {
				switch x := ref.(type) {
				case *ssa.BinOp:
					if x.Op == token.ADD || x.Op == token.SUB || x.Op == token.MUL {
						follow(x)
					} else {
						// comparisons do not encode
					}
				case *ssa.MakeSlice, *ssa.DebugRef, *ssa.If:
				case *ssa.Convert:
					follow(x)
				case *ssa.Slice: // used as an offset only
				default:
					enc = true
				}
			}
		}
		follow(c)
	})
	return enc
}

func msgpackTagged(st *types.Struct) map[string]types.Type {
	out := map[string]types.Type{}
	for i := 0; i < st.NumFields(); i++ {
		tag := reflect.StructTag(st.Tag(i)).Get("msgpack")
		if tag == "-" {
			continue
		}
		out[st.Field(i).Name()] = st.Field(i).Type()
	}
	return out
}

func isVarWidth(t types.Type) bool {
	switch u := t.Underlying().(type) {
	case *types.Basic:
		return u.Info()&types.IsString != 0
	case *types.Slice:
		return true
	}
	return false
}

func init() {
	register("C04", []string{"./accountant", "./transaction", "./wallet"},
		"Structural necessary conditions of tamper evidence: the gossip-add entry point inserts a vertex only behind the success edge of its verification; the verification chain is complete and bound to the right fields "+
			"(vertex digest/signature/sealer, issuer signature, receiver signature when present, sha256 equality, checksum-validated address → key → ed25519.Verify); every stored/wire field of Vertex and Transaction either contributes content to a signed digest or is itself a verification input; "+
			"a signed message built from several variable-width fields must also carry their lengths (necessary for injectivity); a signature whose verification is selected by a test on the field itself must be bound by an authenticated digest. "+
			"Cryptographic strength and the bit-level behaviour of base58/ed25519 are not decided.",
		runC04)
}

func runC04(w *World, r *Report) {
	r.NotDecided = []string{"cryptographic strength of sha256/ed25519", "bit-flip behaviour of base58 and ed25519 libraries", "that the ledger is unchanged after a rejection (C15 validate-before-mutate covers the handlers; C03/C09 the roll-backs)"}

	// 1. verify before admit
	r.rule("verify-before-admit", "gossip admission: AddVertexByID lies behind the success edge of leaf.verify(ab.verifier) for the inserted leaf; local creation inserts a vertex built by NewVertex in the same function", 3)
	gossipVerifyBeforeAdmit(w, r, "verify-before-admit")
	for _, name := range []string{"CreateLeaf", "CreateGenesis"} {
		if f := w.fx(r, "accountant", "AccountingBook", name); f != nil {
			for _, d := range deepCalls(f.fn, byName(nAddVertexByID), deepDepth) {
				s := d.c
				_, a := callArgs(s)
				_, nv := newVertexSource(f.fn, d.path(a[1]))
				signerOK := false
				if nv != nil {
					signerOK = strings.HasSuffix(pathOf(nv.Call.Args[4]), ".signer")
				}
				top := ssa.Instruction(s.(ssa.Instruction))
				if len(d.chain) > 0 { // the insertion sits in a helper: the helper call is what must follow NewVertex's success
					top = d.chain[0].(ssa.Instruction)
				}
				r.check(nv != nil && signerOK && behind(top, passErrNil(nv)), "verify-before-admit", name+"/AddVertexByID", lineOf(w, s), "a locally created vertex is the result of NewVertex(…, ab.signer) in this function", "inserted vertex has another origin")
			}
		}
	}

	// a vertex that fails verification leaves nothing behind in the index (the ledger half of "rejected and unchanged")
	rollbackReservation(w, r, "rejected-vertex-leaves-no-index-entry")

	// 2. chain
	r.rule("verification-chain", "each link of the verification chain reports success only as the result of the next link applied to the right fields", 5)
	if f := w.fx(r, "accountant", "Vertex", "verify"); f != nil {
		fn := f.fn
		v := fn.Params[0].Name()
		finals := f.calls("(" + modPath + "/accountant.signatureVerifier).Verify")
		okFinal := false
		why := "no final verifier.Verify call"
		for _, c := range finals {
			_, a := callArgs(c)
			ic, isCall := strip(a[0]).(*ssa.Call)
			msgOK := isCall && calleeName(ic) == cn("accountant", "*Vertex", "initData") && pathOf(ic.Call.Args[0]) == v
			bind := msgOK && pathOf(a[1]) == v+".Signature" && pathOf(a[2]) == v+".Hash" && pathOf(a[3]) == v+".SignerPublicAddress"
			// every success return propagates this call
			propagates := true
			for _, ret := range returnsOf(fn) {
				if !successReturn(ret) {
					continue
				}
				vals, _ := resultVals(ret, 0)
				for _, rv := range vals {
					if !sameVal(rv, c.(*ssa.Call)) {
						propagates = false
					}
				}
			}
			// reached only after the transaction verified
			var trxOK []Edge
			var recvOK []Edge
			for _, tc := range f.calls(cn("transaction", "*Transaction", "VerifyIssuer")) {
				recv, _ := callArgs(tc)
				if pathOf(recv) == v+".Transaction" {
					trxOK = append(trxOK, passErrNil(tc)...)
				}
			}
			for _, tc := range f.calls(cn("transaction", "*Transaction", "VerifyIssuerReceiver")) {
				recv, _ := callArgs(tc)
				if pathOf(recv) == v+".Transaction" {
					trxOK = append(trxOK, passErrNil(tc)...)
					recvOK = append(recvOK, passErrNil(tc)...)
				}
			}
			after := behind(c, trxOK)
			// when a receiver signature is present, the receiver check is on the path
			present := edgesWhere(fn, func(fact) bool { return false })
			for _, b := range fn.Blocks {
				for i := range b.Succs {
					for _, pf := range pfactsOnEdge(Edge{b, i}) {
						if pf.kind == kLenMin && pf.min >= 1 && pf.path == v+".Transaction.ReceiverSignature" {
							present = append(present, Edge{b, i})
						}
					}
				}
			}
			recvChecked := len(present) > 0
			for _, pe := range present {
				if !mustCrossFrom(pe, c.Block(), recvOK) {
					recvChecked = false
				}
			}
			okFinal = bind && propagates && after && recvChecked
			why = fmt.Sprintf("bound=%v propagates=%v afterTransactionVerification=%v receiverCheckedWhenPresent=%v", bind, propagates, after, recvChecked)
		}
		r.check(okFinal, "verification-chain", "Vertex.verify", w.Pos(fn.Pos()),
			"success = verifier.Verify(v.initData(), v.Signature, v.Hash, v.SignerPublicAddress) after the transaction's signatures verified (receiver's too when present)", why)
	}
	trxVerify := func(name string, steps [][2]string) {
		f := w.fx(r, "transaction", "Transaction", name)
		if f == nil {
			return
		}
		fn := f.fn
		t := fn.Params[0].Name()
		calls := f.calls("(" + modPath + "/transaction.Verifier).Verify")
		ok := len(calls) == len(steps)
		why := fmt.Sprintf("%d Verify calls, expected %d", len(calls), len(steps))
		if ok {
			for i, c := range calls {
				_, a := callArgs(c)
				mc, isCall := strip(a[0]).(*ssa.Call)
				msgOK := isCall && calleeName(mc) == cn("transaction", "*Transaction", "GetMessage") && pathOf(mc.Call.Args[0]) == t
				if !(msgOK && pathOf(a[1]) == t+"."+steps[i][0] && pathOf(a[2]) == t+".Hash" && pathOf(a[3]) == t+"."+steps[i][1]) {
					ok = false
					why = fmt.Sprintf("step %d verifies (%s, %s, %s, %s)", i, pathOf(a[0]), pathOf(a[1]), pathOf(a[2]), pathOf(a[3]))
				}
				if i+1 < len(calls) { // earlier steps gate the later ones
					if !behind(calls[i+1], passErrNil(c)) {
						ok = false
						why = "a later step is reachable after an earlier one failed"
					}
				}
			}
			last := calls[len(calls)-1]
			for _, ret := range returnsOf(fn) {
				if !successReturn(ret) {
					continue
				}
				vals, _ := resultVals(ret, 0)
				for _, rv := range vals {
					if !sameVal(rv, last.(*ssa.Call)) {
						ok = false
						why = "a success return does not propagate the last verification"
					}
				}
			}
		}
		r.check(ok, "verification-chain", "Transaction."+name, w.Pos(fn.Pos()), "verifies GetMessage() against Hash with the named signature/address pairs, in order, propagating the last result", why)
	}
	trxVerify("VerifyIssuer", [][2]string{{"IssuerSignature", "IssuerAddress"}})
	trxVerify("VerifyIssuerReceiver", [][2]string{{"IssuerSignature", "IssuerAddress"}, {"ReceiverSignature", "ReceiverAddress"}})

	walletVerifyChain(w, r, "verification-chain")
	if f := w.fx(r, "wallet", "Helper", "AddressToPubKey"); f != nil {
		fn := f.fn
		addr := fn.Params[1].Name()
		var dec ssa.Value
		for _, c := range f.calls(cn("serializer", "", "Base58Decode")) {
			if pathOf(c.Common().Args[0]) == addr {
				dec = resultAt(c, 0)
			}
		}
		var csE []Edge
		for _, c := range f.calls("bytes.Equal") {
			csE = append(csE, passBool(c, 0, true)...)
		}
		ok := dec != nil
		for _, ret := range returnsOf(fn) {
			if !successReturn(ret) {
				continue
			}
			if !behind(ret, csE) {
				ok = false
			}
			// returned key derives from the decoded address (through any number of reslicings)
			from := false
			var chase func(v ssa.Value, d int)
			chase = func(v ssa.Value, d int) {
				if d > 8 || from {
					return
				}
				for _, o := range origins(v) {
					if dec != nil && sameVal(o, dec) {
						from = true
						return
					}
					if sl, isSl := o.(*ssa.Slice); isSl {
						chase(sl.X, d+1)
					}
				}
			}
			chase(ret.Results[0], 0)
			if !from {
				ok = false
			}
		}
		// the checksum compared is computed over version+key of the decoded bytes
		csCalls := f.calls(cn("wallet", "", "checksum"))
		r.check(ok && len(csCalls) >= 1, "verification-chain", "wallet.Helper.AddressToPubKey", w.Pos(fn.Pos()),
			"a key is returned only behind the checksum equality and is a slice of the decoded address", fmt.Sprintf("ok=%v checksum-calls=%d", ok, len(csCalls)))
		if dec != nil {
			r.rule("address-fully-consumed", "every byte of the decoded address is consumed (as version, key or checksum): no address with surplus bytes resolves to a key", 1)
			covered, detail := addressBytesCovered(fn, dec)
			r.check(covered, "address-fully-consumed", "wallet.Helper.AddressToPubKey/decoded-bytes", w.Pos(fn.Pos()),
				"the byte ranges of the decoded address that reach the checksum comparison and the returned key tile [0,len) on every successful return", detail)
		}
	}

	// 3. signed-field coverage
	r.rule("signed-field-coverage", "every stored/wire field of Vertex and Transaction contributes content to its signed digest or is a verification input", 14)
	type cov struct {
		pkg, typ, digestFn string
		inputs             map[string]bool
		nested             map[string]string // field → sub-field that stands for it in the digest
	}
	for _, cv := range []cov{
		{"accountant", "Vertex", "initData", map[string]bool{"Signature": true, "Hash": true, "SignerPublicAddress": true}, map[string]string{"Transaction": "Transaction.Hash"}},
		{"transaction", "Transaction", "GetMessage", map[string]bool{"IssuerSignature": true, "ReceiverSignature": true, "Hash": true}, map[string]string{"Spice": "Spice.Currency+Spice.SupplementaryCurrency"}},
	} {
		f := w.fx(r, cv.pkg, cv.typ, cv.digestFn)
		if f == nil {
			continue
		}
		uses := receiverFieldUses(f.fn)
		tn := w.Pkg(cv.pkg).Pkg.Scope().Lookup(cv.typ).(*types.TypeName)
		st := tn.Type().Underlying().(*types.Struct)
		fields := msgpackTagged(st)
		var names []string
		for n := range fields {
			names = append(names, n)
		}
		sort.Strings(names)
		for _, n := range names {
			key := cv.typ + "." + n
			if cv.inputs[n] {
				r.ok("signed-field-coverage", key, w.Pos(f.fn.Pos()), "verification input (checked by the chain rule)")
				continue
			}
			ok := false
			if sub, isNested := cv.nested[n]; isNested {
				ok = true
				for _, s := range strings.Split(sub, "+") {
					if u := uses[s]; u == nil || !u.content {
						ok = false
					}
				}
			} else if u := uses[n]; u != nil && u.content {
				ok = true
			}
			r.check(ok, "signed-field-coverage", key, w.Pos(f.fn.Pos()), "field content flows into "+cv.digestFn+"()", "field is stored/transmitted but not covered by the signed digest")
		}
		// signed sub-struct: every field of spice.Melange
		if cv.typ == "Transaction" {
			if mt, ok := fields["Spice"]; ok {
				ms := mt.Underlying().(*types.Struct)
				for n := range msgpackTagged(ms) {
					u := uses["Spice."+n]
					r.check(u != nil && u.content, "signed-field-coverage", "Transaction.Spice."+n, w.Pos(f.fn.Pos()), "amount component flows into GetMessage()", "not covered")
				}
			}
		}
	}

	// 3b. a digest assembled by copying into a pre-sized buffer: the buffer has room for every fixed-width part
	// (copy() into a slice that is too short silently writes less: the last field would drop out of the signature)
	r.rule("digest-buffer-fits", "when a signed message is assembled with copy() into make([]byte, Σ len(variable parts) + C), C is at least the total width of the fixed-width parts copied in", 1)
	nBuf := 0
	for _, cv := range [][3]string{{"accountant", "Vertex", "initData"}, {"transaction", "Transaction", "GetMessage"}} {
		f := w.fx(r, cv[0], cv[1], cv[2])
		if f == nil {
			continue
		}
		for _, fn := range withHelpers(f.fn, 1) {
			instrsOf(fn, func(in ssa.Instruction) {
				mk, ok := in.(*ssa.MakeSlice)
				if !ok {
					return
				}
				// constant term of the length expression
				var constTerm func(v ssa.Value) (int64, bool)
				constTerm = func(v ssa.Value) (int64, bool) {
					switch x := v.(type) {
					case *ssa.Const:
						return intConst(x)
					case *ssa.BinOp:
						if x.Op == token.ADD {
							a, okA := constTerm(x.X)
							b, okB := constTerm(x.Y)
							return a + b, okA && okB
						}
						return 0, false
					case *ssa.Call:
						if bi, isB := x.Call.Value.(*ssa.Builtin); isB && bi.Name() == "len" {
							return 0, true
						}
					case *ssa.Convert:
						return constTerm(x.X)
					}
					return 0, false
				}
				c, okC := constTerm(mk.Len)
				if !okC {
					return
				}
				if k, isK := intConst(mk.Len); isK && k <= 8 {
					return // a fixed-width scratch buffer, not the message
				}
				// fixed-width parts copied into (reslices of) this buffer
				var fixed int64
				parts := 0
				instrsOf(fn, func(in2 ssa.Instruction) {
					cp, ok := in2.(*ssa.Call)
					if !ok {
						return
					}
					if bi, isB := cp.Call.Value.(*ssa.Builtin); !isB || bi.Name() != "copy" {
						return
					}
					dst := cp.Call.Args[0]
					for i := 0; i < 4; i++ {
						if sl, isSl := dst.(*ssa.Slice); isSl {
							dst = sl.X
						}
					}
					if dst != ssa.Value(mk) {
						return
					}
					src := cp.Call.Args[1]
					width := int64(-1)
					switch y := src.(type) {
					case *ssa.MakeSlice:
						if k, isK := intConst(y.Len); isK {
							width = k
						}
					case *ssa.Slice:
						var lo int64
						loOK := true
						if y.Low != nil {
							lo, loOK = intConst(y.Low)
						}
						if loOK && y.High != nil {
							if hi, isK := intConst(y.High); isK {
								width = hi - lo
							}
						} else if loOK {
							if pt, isP := y.X.Type().Underlying().(*types.Pointer); isP {
								if arr, isA := pt.Elem().Underlying().(*types.Array); isA {
									width = arr.Len() - lo
								}
							}
						}
					}
					if width >= 0 {
						// executed once per element of a constant-length literal when it sits in such a range loop
						mult := int64(1)
						if h := enclosingRangeHeader(cp.Block()); h != nil && len(h.Instrs) > 0 {
							if iff, isIf := h.Instrs[len(h.Instrs)-1].(*ssa.If); isIf {
								if bo, isBo := iff.Cond.(*ssa.BinOp); isBo && bo.Op == token.LSS {
									if k, isK := intConst(bo.Y); isK && k > 0 {
										mult = k
									}
								}
							}
						}
						fixed += width * mult
						parts += int(mult)
					}
				})
				if parts == 0 {
					return
				}
				nBuf++
				r.check(c >= fixed, "digest-buffer-fits", shortFn(fn)+"/make", lineOf(w, mk), "the message buffer has room for its fixed-width parts",
					fmt.Sprintf("%d fixed-width parts of %d bytes in total are copied into a buffer that reserves only %d bytes beyond the variable parts: the last part is silently truncated out of the signed message", parts, fixed, c))
			})
		}
	}
	if nBuf == 0 {
		r.ok("digest-buffer-fits", "none", "-", "no digest is assembled by copying fixed-width parts into a pre-sized buffer")
	}

	// 4. injectivity
	r.rule("encoding-injective", "a signed message that concatenates two or more variable-width fields must also encode their lengths (otherwise bytes can move across a field boundary without changing hash or signatures)", 2)
	for _, cv := range [][3]string{{"accountant", "Vertex", "initData"}, {"transaction", "Transaction", "GetMessage"}} {
		f := w.fx(r, cv[0], cv[1], cv[2])
		if f == nil {
			continue
		}
		uses := receiverFieldUses(f.fn)
		st := w.Pkg(cv[0]).Pkg.Scope().Lookup(cv[1]).(*types.TypeName).Type().Underlying().(*types.Struct)
		var vw []string
		for i := 0; i < st.NumFields(); i++ {
			n := st.Field(i).Name()
			if u := uses[n]; u != nil && u.content && isVarWidth(st.Field(i).Type()) {
				vw = append(vw, n)
			}
		}
		sort.Strings(vw)
		enc := lengthsEncoded(f.fn)
		r.check(len(vw) < 2 || enc, "encoding-injective", cv[0]+".(*"+cv[1]+")."+cv[2], w.Pos(f.fn.Pos()),
			"at most one variable-width contributor, or lengths are part of the signed bytes",
			fmt.Sprintf("variable-width contributors %v are concatenated and no length flows into the message: e.g. Subject=\"ab\",Data=\"c\" and Subject=\"a\",Data=\"bc\" have the same message, hash and signatures", vw))
	}

	// 4b. the layout of the signed bytes does not depend on the data: every field is written at its own fixed place
	r.rule("signed-layout-is-data-independent", "no branch in the builders of the signed messages (initData, GetMessage, the gossiper statement) depends on the content of a field of the signed object: a layout chosen by comparing fields makes different field assignments produce the same bytes", 2)
	for _, cv := range [][3]string{{"accountant", "Vertex", "initData"}, {"transaction", "Transaction", "GetMessage"}, {"gossip", "", "createGossiperMessageToSign"}, {"gossip", "", "initConnectionData"}} {
		fn := w.Func(cv[0], cv[1], cv[2])
		if fn == nil {
			continue
		}
		bad := ""
		for _, g := range withHelpers(fn, 2) {
			for _, b := range g.Blocks {
				iff, ok := b.Instrs[len(b.Instrs)-1].(*ssa.If)
				if !ok {
					continue
				}
				if src := contentDependence(iff.Cond, map[ssa.Value]bool{}, 0); src != "" {
					bad += fmt.Sprintf(" the branch at %s in %s depends on the content of %s;", lineOf(w, iff), shortFn(g), src)
				}
			}
		}
		r.seen(shortFn(fn))
		r.check(bad == "", "signed-layout-is-data-independent", cv[0]+"."+cv[2], w.Pos(fn.Pos()), "fields are written in a fixed order at places that depend at most on lengths", bad)
	}

	// 4c. a creation time enters the signed bytes with everything it has: UnixNano is the only accessor of time.Time that keeps
	// the full precision of what is stored and transmitted (the wire form and the storage form carry nanoseconds)
	r.rule("signed-time-at-full-precision", "in the builders of the signed messages (Vertex.initData, Transaction.GetMessage, transaction.New, Transaction.Sign and their same-package helpers) a time.Time is read only with UnixNano, and the number read is not narrowed by a division, remainder, shift or mask before it is written: a coarser reading (Unix, UnixMilli, UnixMicro, Truncate, Round …) leaves the low digits of the stored creation time outside the signature", 3)
	for _, cv := range [][3]string{{"accountant", "Vertex", "initData"}, {"transaction", "Transaction", "GetMessage"}, {"transaction", "", "New"}, {"transaction", "Transaction", "Sign"}} {
		fn := w.Func(cv[0], cv[1], cv[2])
		if fn == nil {
			continue
		}
		bad := ""
		n := 0
		for _, g := range withHelpers(fn, 2) {
			instrsOf(g, func(in ssa.Instruction) {
				c, ok := in.(*ssa.Call)
				if !ok {
					return
				}
				cal := c.Call.StaticCallee()
				if cal == nil || cal.Pkg == nil || cal.Pkg.Pkg.Path() != "time" || cal.Signature.Recv() == nil || !strings.HasSuffix(cal.Signature.Recv().Type().String(), "time.Time") {
					return
				}
				if cal.Name() != "UnixNano" {
					// a coarse reading that only decides a comparison (the freshness window of Sign) writes nothing
					var written func(v ssa.Value, depth int) bool
					written = func(v ssa.Value, depth int) bool {
						if depth > 4 || v.Referrers() == nil {
							return false
						}
						for _, ref := range *v.Referrers() {
							switch x := ref.(type) {
							case *ssa.Convert:
								if written(x, depth+1) {
									return true
								}
							case *ssa.ChangeType:
								if written(x, depth+1) {
									return true
								}
							case *ssa.Phi:
								if written(x, depth+1) {
									return true
								}
							case *ssa.BinOp:
								switch x.Op {
								case token.EQL, token.NEQ, token.LSS, token.LEQ, token.GTR, token.GEQ:
								default:
									if written(x, depth+1) {
										return true
									}
								}
							case *ssa.Store:
								if x.Val == v {
									return true
								}
							case *ssa.Return:
								for _, cs := range staticCallers(w, x.Parent()) {
									if cv, isVal := cs.(ssa.Value); isVal && written(cv, depth+1) {
										return true
									}
								}
							case ssa.CallInstruction:
								n := calleeName(x)
								if cal2 := x.Common().StaticCallee(); cal2 != nil && cal2.Pkg != nil && cal2.Pkg.Pkg.Path() == "time" {
									if cv, isVal := x.(ssa.Value); isVal && written(cv, depth+1) {
										return true
									}
									continue
								}
								if !strings.HasPrefix(n, "fmt.") && !strings.Contains(n, "logger.") && !strings.Contains(n, "/logging.") {
									return true
								}
							}
						}
						return false
					}
					if !written(c, 0) {
						return
					}
					if bt, isBasic := cal.Signature.Results().At(0).Type().Underlying().(*types.Basic); cal.Signature.Results().Len() == 1 && (isBasic && bt.Info()&types.IsInteger != 0 || strings.HasSuffix(cal.Signature.Results().At(0).Type().String(), "time.Time")) {
						bad += fmt.Sprintf(" %s reads the time with %s at %s;", shortFn(g), cal.Name(), lineOf(w, c))
					}
					return
				}
				n++
				var narrowed func(v ssa.Value, depth int) string
				narrowed = func(v ssa.Value, depth int) string {
					if depth > 4 || v.Referrers() == nil {
						return ""
					}
					for _, ref := range *v.Referrers() {
						switch x := ref.(type) {
						case *ssa.BinOp:
							switch x.Op {
							case token.QUO, token.REM, token.SHR, token.AND, token.AND_NOT:
								if x.X == v {
									return fmt.Sprintf(" the nanoseconds read at %s are narrowed by %s at %s;", lineOf(w, c), x.Op, lineOf(w, x))
								}
							}
							if s := narrowed(x, depth+1); s != "" {
								return s
							}
						case *ssa.Convert:
							if bt, ok := x.Type().Underlying().(*types.Basic); ok && bt.Info()&types.IsInteger != 0 && (bt.Kind() == types.Int8 || bt.Kind() == types.Int16 || bt.Kind() == types.Int32 || bt.Kind() == types.Uint8 || bt.Kind() == types.Uint16 || bt.Kind() == types.Uint32) {
								return fmt.Sprintf(" the nanoseconds read at %s are converted to %s at %s;", lineOf(w, c), bt, lineOf(w, x))
							}
							if s := narrowed(x, depth+1); s != "" {
								return s
							}
						case *ssa.Phi:
							if s := narrowed(x, depth+1); s != "" {
								return s
							}
						}
					}
					return ""
				}
				bad += narrowed(c, 0)
			})
		}
		r.seen(shortFn(fn))
		r.check(bad == "" && n > 0, "signed-time-at-full-precision", cv[0]+"."+strings.TrimPrefix(cv[1]+".", ".")+cv[2], w.Pos(fn.Pos()), fmt.Sprintf("the creation time is read %d time(s), with UnixNano, and written as read", n), bad)
	}

	// 4d. what is verified is what was offered: a copy of a signed object's variable-length field into a buffer of a fixed
	// size drops the surplus and pads the missing — the check then runs on a normalised value, not on the offered one
	r.rule("no-fixed-size-copy-of-a-variable-field", "in the packages that carry vertices and transactions (accountant, transaction, gossip, transformers) no copy(dst, src) writes a slice field of accountant.Vertex / transaction.Transaction / a protobuf message into a destination of constant length (make([]byte, K), a [K]byte): such a copy truncates a longer value and zero-pads a shorter one", 0)
	{
		nCopy := 0
		for _, fn := range w.RepoFuncs("accountant", "transaction", "gossip", "transformers") {
			instrsOf(fn, func(in ssa.Instruction) {
				c, ok := in.(*ssa.Call)
				if !ok {
					return
				}
				if b, isB := c.Call.Value.(*ssa.Builtin); !isB || b.Name() != "copy" || len(c.Call.Args) != 2 {
					return
				}
				dst, src := c.Call.Args[0], c.Call.Args[1]
				constLen := false
				for _, o := range origins(dst) {
					switch x := o.(type) {
					case *ssa.MakeSlice:
						if _, isK := intConst(x.Len); isK {
							constLen = true
						}
					case *ssa.Slice:
						if al, isAl := x.X.(*ssa.Alloc); isAl {
							if _, isArr := deref(al.Type()).Underlying().(*types.Array); isArr {
								constLen = true
							}
						}
					case *ssa.Alloc:
						if _, isArr := deref(x.Type()).Underlying().(*types.Array); isArr {
							constLen = true
						}
					}
				}
				if !constLen {
					return
				}
				field := ""
				var walk func(v ssa.Value, d int)
				walk = func(v ssa.Value, d int) {
					if v == nil || d > 5 || field != "" {
						return
					}
					for _, o := range origins(v) {
						switch x := o.(type) {
						case *ssa.UnOp:
							if fa, ok := x.X.(*ssa.FieldAddr); ok {
								t := deref(fa.X.Type()).String()
								if strings.HasSuffix(t, "accountant.Vertex") || strings.HasSuffix(t, "transaction.Transaction") || isPBMessagePtr(fa.X.Type()) {
									if _, isSl := x.Type().Underlying().(*types.Slice); isSl {
										field = pathOf(x)
									}
								}
							}
						case *ssa.Field:
							t := deref(x.X.Type()).String()
							if strings.HasSuffix(t, "accountant.Vertex") || strings.HasSuffix(t, "transaction.Transaction") {
								if _, isSl := x.Type().Underlying().(*types.Slice); isSl {
									field = pathOf(x)
								}
							}
						case *ssa.Parameter:
							if _, isSl := x.Type().Underlying().(*types.Slice); isSl && d < 2 {
								for _, cs := range staticCallers(w, x.Parent()) {
									for k, p2 := range x.Parent().Params {
										if p2 == x && k < len(cs.Common().Args) {
											walk(cs.Common().Args[k], d+1)
										}
									}
								}
							}
						}
					}
				}
				walk(src, 0)
				if field == "" {
					return
				}
				nCopy++
				r.bad("no-fixed-size-copy-of-a-variable-field", shortFn(fn)+"/copy("+field+")", lineOf(w, c), "a variable-length field is copied whole",
					field+" is copied into a destination of constant length: a value of another length is silently cut or zero-padded, and what is verified, stored or forwarded afterwards is not what was offered")
			})
		}
		if nCopy == 0 {
			r.ok("no-fixed-size-copy-of-a-variable-field", "none", "-", "no variable-length field is copied into a fixed-size destination")
		}
	}

	// 5. conditionally verified field must be bound
	r.rule("conditional-signature-bound", "a signature whose verification is selected by a test on the field itself must contribute (content or presence) to an authenticated digest", 1)
	if f := w.fx(r, "accountant", "Vertex", "verify"); f != nil {
		v := f.fn.Params[0].Name()
		var selectors []string
		for _, b := range f.fn.Blocks {
			for i := range b.Succs {
				for _, pf := range pfactsOnEdge(Edge{b, i}) {
					if strings.HasPrefix(pf.path, v+".") && strings.Contains(pf.path, "Signature") {
						selectors = append(selectors, strings.TrimPrefix(pf.path, v+"."))
					}
				}
			}
		}
		selectors = uniqStrings(selectors)
		if len(selectors) == 0 {
			r.ok("conditional-signature-bound", "accountant.(*Vertex).verify", w.Pos(f.fn.Pos()), "no signature verification is selected by the signature's own presence")
		}
		vd := receiverFieldUses(w.Func("accountant", "Vertex", "initData"))
		td := receiverFieldUses(w.Func("transaction", "Transaction", "GetMessage"))
		for _, s := range selectors {
			bound := false
			if u := vd[s]; u != nil && (u.content || u.length) {
				bound = true
			}
			if strings.HasPrefix(s, "Transaction.") {
				if u := td[strings.TrimPrefix(s, "Transaction.")]; u != nil && (u.content || u.length) {
					bound = true
				}
			}
			r.check(bound, "conditional-signature-bound", "accountant.(*Vertex).verify/"+s, w.Pos(f.fn.Pos()),
				"presence of "+s+" is covered by the vertex or transaction digest",
				"verification of "+s+" happens only if it is non-empty and neither digest covers it: stripping it from a countersigned transaction yields a vertex that still verifies")
		}
	}
}

// ---------------------------------------------------------------------------------------------
// address-fully-consumed: a small symbolic evaluation of the slicing done on the decoded address.

// lin is the linear form a + b·L, L = len(decoded address).
type lin struct{ a, b int64 }

func (x lin) String() string {
	switch {
	case x.b == 0:
		return fmt.Sprint(x.a)
	case x.a == 0 && x.b == 1:
		return "len"
	case x.b == 1:
		return fmt.Sprintf("len%+d", x.a)
	}
	return fmt.Sprintf("%d%+d·len", x.a, x.b)
}

type linRange struct {
	lo, hi lin
	pos    token.Pos
}

// addressBytesCovered: do the consumed sub-ranges of dec tile [0, len(dec)) on every success return?
func addressBytesCovered(fn *ssa.Function, dec ssa.Value) (bool, string) {
	ranges := map[ssa.Value]linRange{} // slices of dec, in absolute positions
	ranges[dec] = linRange{lin{0, 0}, lin{0, 1}, dec.Pos()}
	var evalInt func(v ssa.Value, d int) (lin, bool)
	rangeOf := func(v ssa.Value) (linRange, bool) {
		rg, ok := ranges[strip(v)]
		if !ok {
			rg, ok = ranges[v]
		}
		return rg, ok
	}
	evalInt = func(v ssa.Value, d int) (lin, bool) {
		if d > 8 {
			return lin{}, false
		}
		switch x := v.(type) {
		case *ssa.Const:
			if x.Value != nil {
				if n, ok := constant.Int64Val(constant.ToInt(x.Value)); ok {
					return lin{n, 0}, true
				}
			}
		case *ssa.Convert:
			return evalInt(x.X, d+1)
		case *ssa.Call:
			if b, ok := x.Call.Value.(*ssa.Builtin); ok && b.Name() == "len" && len(x.Call.Args) == 1 {
				if rg, ok := rangeOf(x.Call.Args[0]); ok {
					return lin{rg.hi.a - rg.lo.a, rg.hi.b - rg.lo.b}, true
				}
			}
		case *ssa.BinOp:
			l, ok1 := evalInt(x.X, d+1)
			rr, ok2 := evalInt(x.Y, d+1)
			if ok1 && ok2 {
				switch x.Op {
				case token.ADD:
					return lin{l.a + rr.a, l.b + rr.b}, true
				case token.SUB:
					return lin{l.a - rr.a, l.b - rr.b}, true
				}
			}
		}
		return lin{}, false
	}
	// slices of dec, to a fixpoint (blocks are in dominance-compatible order for straight-line code; iterate anyway)
	unknownSlice := ""
	for iter := 0; iter < 4; iter++ {
		instrsOf(fn, func(in ssa.Instruction) {
			sl, ok := in.(*ssa.Slice)
			if !ok {
				return
			}
			if _, done := ranges[sl]; done {
				return
			}
			base, ok := rangeOf(sl.X)
			if !ok {
				return
			}
			lo, hi := base.lo, base.hi
			if sl.Low != nil {
				l, ok := evalInt(sl.Low, 0)
				if !ok {
					unknownSlice = "slice bound not linear in len(decoded)"
					return
				}
				lo = lin{base.lo.a + l.a, base.lo.b + l.b}
			}
			if sl.High != nil {
				h, ok := evalInt(sl.High, 0)
				if !ok {
					unknownSlice = "slice bound not linear in len(decoded)"
					return
				}
				hi = lin{base.lo.a + h.a, base.lo.b + h.b}
			}
			ranges[sl] = linRange{lo, hi, sl.Pos()}
		})
	}
	if unknownSlice != "" {
		return false, unknownSlice
	}
	// consumed ranges: a slice used by anything but a re-slice or len(); an element read at a constant index
	var consumed []linRange
	for v, rg := range ranges {
		refs := v.Referrers()
		if refs == nil {
			continue
		}
		for _, ref := range *refs {
			switch x := ref.(type) {
			case *ssa.Slice:
				continue
			case *ssa.DebugRef:
				continue
			case *ssa.Call:
				if b, ok := x.Call.Value.(*ssa.Builtin); ok && b.Name() == "len" {
					continue
				}
				consumed = append(consumed, rg)
			case *ssa.IndexAddr:
				if sameVal(x.X, v) {
					if i, ok := evalInt(x.Index, 0); ok {
						consumed = append(consumed, linRange{lin{rg.lo.a + i.a, rg.lo.b + i.b}, lin{rg.lo.a + i.a + 1, rg.lo.b + i.b}, x.Pos()})
						continue
					}
				}
				consumed = append(consumed, rg)
			default:
				consumed = append(consumed, rg)
			}
		}
	}
	// is len(dec) pinned on the way to a success return?  (an equality between a constant and a form with b≠0)
	pinnedAt := func(ret *ssa.Return) (int64, bool) {
		type cand struct {
			L     int64
			edges []Edge
		}
		byL := map[int64][]Edge{}
		for _, b := range fn.Blocks {
			for i := range b.Succs {
				e := Edge{b, i}
				for _, f := range edgeFacts(e) {
					if f.kind != fEq || f.x == nil || f.y == nil {
						continue
					}
					l, ok1 := evalInt(f.x, 0)
					rr, ok2 := evalInt(f.y, 0)
					if !ok1 || !ok2 {
						continue
					}
					d := lin{l.a - rr.a, l.b - rr.b} // d.a + d.b·L == 0
					if d.b != 0 && (-d.a)%d.b == 0 {
						L := -d.a / d.b
						byL[L] = append(byL[L], e)
					}
				}
			}
		}
		for L, es := range byL {
			if behind(ret, es) {
				return L, true
			}
		}
		return 0, false
	}
	tiles := func(rs []linRange, end lin) (bool, lin) {
		cur := lin{0, 0}
		for step := 0; step < len(rs)+1; step++ {
			if cur == end {
				return true, cur
			}
			adv := false
			for _, rg := range rs {
				// rg.lo ≤ cur < rg.hi, comparable only when the len-coefficients agree
				if rg.lo.b == cur.b && rg.lo.a <= cur.a && (rg.hi.b != cur.b || rg.hi.a > cur.a) {
					if rg.hi.b == cur.b && rg.hi.a <= cur.a {
						continue
					}
					cur = rg.hi
					adv = true
					break
				}
			}
			if !adv {
				return false, cur
			}
		}
		return cur == end, cur
	}
	nSucc := 0
	for _, ret := range returnsOf(fn) {
		if !successReturn(ret) {
			continue
		}
		nSucc++
		rs := consumed
		end := lin{0, 1}
		if L, ok := pinnedAt(ret); ok {
			rs = nil
			for _, rg := range consumed {
				rs = append(rs, linRange{lin{rg.lo.a + rg.lo.b*L, 0}, lin{rg.hi.a + rg.hi.b*L, 0}, rg.pos})
			}
			end = lin{L, 0}
		}
		if ok, reached := tiles(rs, end); !ok {
			var parts []string
			for _, rg := range rs {
				parts = append(parts, fmt.Sprintf("[%v:%v]", rg.lo, rg.hi))
			}
			sort.Strings(parts)
			return false, fmt.Sprintf("consumed ranges %s cover the decoded address only up to %v, not to %v: bytes beyond are ignored, so distinct addresses resolve to one key", strings.Join(uniqStrings(parts), " "), reached, end)
		}
	}
	return nSucc > 0, fmt.Sprintf("%d success returns", nSucc)
}

// walletVerifyChain: wallet.Helper.Verify reports success only behind the digest equality, the address
// decoding and ed25519.Verify under the key of that very address (shared by C04 and C16: every notary
// authorisation check ends here).
func walletVerifyChain(w *World, r *Report, rule string) {
	if f := w.fx(r, "wallet", "Helper", "Verify"); f != nil {
		fn := f.fn
		msg, sig, hash, addr := fn.Params[1].Name(), fn.Params[2].Name(), fn.Params[3].Name(), fn.Params[4].Name()
		var digest ssa.Value
		digestNames := map[string]bool{}
		for _, c := range f.calls("crypto/sha256.Sum256") {
			if pathOf(c.Common().Args[0]) == msg {
				digest = callValue(c)
				digestNames[pathOf(digest)] = true
				for _, ref := range *digest.Referrers() { // `digest := sha256.Sum256(…)` kept in a variable because it is sliced
					if st, ok := ref.(*ssa.Store); ok {
						digestNames[pathOf(st.Addr)] = true
					}
				}
			}
		}
		digestPath := func(p, _ string) bool { return digestNames[p] }
		var eqE, keyE, sigE []Edge
		if digest != nil {
			dp := pathOf(digest)
			for _, c := range f.calls("bytes.Equal") {
				a := c.Common().Args
				pa, pb := pathOf(a[0]), pathOf(a[1])
				if (pa == hash && digestPath(pb, dp)) || (pb == hash && digestPath(pa, dp)) {
					eqE = append(eqE, passBool(c, 0, true)...)
				}
			}
		}
		var key ssa.Value
		for _, c := range f.calls(cn("wallet", "Helper", "AddressToPubKey")) {
			_, a := callArgs(c)
			if pathOf(a[0]) == addr {
				keyE = append(keyE, passErrNil(c)...)
				key = resultAt(c, 0)
			}
		}
		for _, c := range f.calls("crypto/ed25519.Verify") {
			a := c.Common().Args
			if key != nil && sameVal(a[0], key) && digest != nil && digestPath(pathOf(a[1]), pathOf(digest)) && pathOf(a[2]) == sig {
				sigE = append(sigE, passBool(c, 0, true)...)
			}
		}
		ok := true
		n := 0
		for _, ret := range returnsOf(fn) {
			if !successReturn(ret) {
				continue
			}
			n++
			if !(behind(ret, eqE) && behind(ret, keyE) && behind(ret, sigE)) {
				ok = false
			}
		}
		r.check(ok && n > 0, rule, "wallet.Helper.Verify", w.Pos(fn.Pos()),
			"success only behind sha256(message)==hash, AddressToPubKey(address) ok and ed25519.Verify(key(address), digest, signature) true",
			fmt.Sprintf("hashEq-edges=%d key-edges=%d sig-edges=%d success-returns=%d", len(eqE), len(keyE), len(sigE), n))
	}
}

// gossipVerifyBeforeAdmit: on the gossip / replay admission path the insertion lies behind the success edge of
// verify on the inserted vertex (shared by C04 and C13: a parked vertex re-enters through the same gate).
func gossipVerifyBeforeAdmit(w *World, r *Report, rule string) {
	f := w.fx(r, "accountant", "AccountingBook", "addLeafMemorized")
	if f == nil {
		return
	}
	sites := deepCalls(f.fn, byName(nAddVertexByID), deepDepth)
	if len(sites) == 0 {
		r.bad(rule, "addLeafMemorized/AddVertexByID", w.Pos(f.fn.Pos()), "the admission path inserts into the DAG", "no insertion found")
	}
	for _, d := range sites {
		_, a := callArgs(d.c)
		v := d.path(a[1])
		verified := func(fn2 *ssa.Function, res resolver) []Edge {
			var es []Edge
			for _, c := range callsTo(fn2, nVerify) {
				recv, va := callArgs(c)
				if res(recv) == v && len(va) > 0 && strings.HasSuffix(res(va[0]), ".verifier") {
					es = append(es, passErrNil(c)...)
				}
			}
			return es
		}
		r.check(behindDeepSite(d, verified), rule, "addLeafMemorized/AddVertexByID("+v+")", lineOf(w, d.c), "a gossiped (or replayed) vertex enters the DAG only after it verified", "insertion not dominated by the success edge of verify on the same vertex with the node's verifier")
	}
}

// contentDependence: does v depend on the content (not merely the length) of a field or parameter? Returns what.
func contentDependence(v ssa.Value, seen map[ssa.Value]bool, d int) string {
	if v == nil || seen[v] || d > 14 {
		return ""
	}
	seen[v] = true
	switch x := v.(type) {
	case *ssa.Const, *ssa.Global, *ssa.Function, *ssa.Builtin:
		return ""
	case *ssa.Parameter:
		switch x.Type().Underlying().(type) {
		case *types.Pointer, *types.Struct:
			return "" // the object itself; its fields are reached through FieldAddr
		}
		return "parameter " + x.Name()
	case *ssa.FieldAddr:
		return pathOf(x)
	case *ssa.Field:
		return pathOf(x)
	case *ssa.BinOp:
		if s := contentDependence(x.X, seen, d+1); s != "" {
			return s
		}
		return contentDependence(x.Y, seen, d+1)
	case *ssa.UnOp:
		return contentDependence(x.X, seen, d+1)
	case *ssa.Slice:
		return contentDependence(x.X, seen, d+1)
	case *ssa.Convert:
		return contentDependence(x.X, seen, d+1)
	case *ssa.ChangeType:
		return contentDependence(x.X, seen, d+1)
	case *ssa.MakeInterface:
		return contentDependence(x.X, seen, d+1)
	case *ssa.Extract:
		return contentDependence(x.Tuple, seen, d+1)
	case *ssa.Index:
		return contentDependence(x.X, seen, d+1)
	case *ssa.IndexAddr:
		return contentDependence(x.X, seen, d+1)
	case *ssa.Lookup:
		return contentDependence(x.X, seen, d+1)
	case *ssa.Phi:
		for _, e := range x.Edges {
			if s := contentDependence(e, seen, d+1); s != "" {
				return s
			}
		}
	case *ssa.Call:
		if b, ok := x.Call.Value.(*ssa.Builtin); ok && (b.Name() == "len" || b.Name() == "cap") {
			return "" // lengths may size the buffer
		}
		if n := calleeName(x); strings.HasSuffix(n, ".Next") || strings.HasSuffix(n, ".Valid") {
			return ""
		}
		for _, a := range x.Call.Args {
			if s := contentDependence(a, seen, d+1); s != "" {
				return s
			}
		}
	case *ssa.Next:
		return "" // loop control over a fixed list
	case *ssa.Alloc:
		for _, ref := range *x.Referrers() {
			if st, ok := ref.(*ssa.Store); ok && st.Addr == ssa.Value(x) {
				if s := contentDependence(st.Val, seen, d+1); s != "" {
					return s
				}
			}
		}
	}
	return ""
}

// oneAddressPerKey: wallets are told apart by comparing address strings (issuer ≠ sealer, issuer ≠ genesis wallet, the
// gossiper sets and the peer table keyed by address). That identifies wallets only if a key has one address: every part
// of the decoded address that is not the key must be pinned — the checksum by the comparison with the computed one, the
// version byte by a comparison with a constant. A version byte that is only fed into the checksum gives every key 256
// addresses that all verify.
func oneAddressPerKey(w *World, r *Report, rule string) {
	r.rule(rule, "wallet.Helper.AddressToPubKey: the first byte of the decoded address (the version) is compared with a constant, and a key is returned on one side of that comparison only — together with the checksum comparison (verification-chain) and the tiling of the decoded bytes (address-fully-consumed) that leaves one address string per key", 1)
	fn := w.Func("wallet", "Helper", "AddressToPubKey")
	if fn == nil || len(fn.Blocks) == 0 {
		r.bad(rule, "wallet.Helper.AddressToPubKey", "-", "the address decoder is identifiable", "not found")
		return
	}
	var dec ssa.Value
	for _, c := range callsTo(fn, cn("serializer", "", "Base58Decode")) {
		dec = resultAt(c, 0)
	}
	if dec == nil {
		r.undecided(rule, "wallet.Helper.AddressToPubKey/decoded", w.Pos(fn.Pos()), "the decoded address is identifiable", "no Base58Decode call")
		return
	}
	// what is decoded is the address as given: a normalisation in front of the decoder (trimming, case folding, a prefix
	// stripped) gives one key several address strings just as an unchecked version byte does
	for _, c := range callsTo(fn, cn("serializer", "", "Base58Decode")) {
		arg := c.Common().Args[0]
		through := ""
		var walk func(v ssa.Value, d int)
		walk = func(v ssa.Value, d int) {
			if v == nil || d > 8 || through != "" {
				return
			}
			switch x := v.(type) {
			case *ssa.Parameter, *ssa.Const:
			case *ssa.Convert:
				walk(x.X, d+1)
			case *ssa.ChangeType:
				walk(x.X, d+1)
			case *ssa.Phi:
				for _, e := range x.Edges {
					walk(e, d+1)
				}
			case *ssa.Call:
				through = calleeName(x)
			case *ssa.Slice:
				through = "a reslice"
			case *ssa.BinOp:
				through = "the operation " + x.Op.String()
			default:
				through = fmt.Sprintf("%T", v)
			}
		}
		walk(arg, 0)
		r.check(through == "", rule, "wallet.Helper.AddressToPubKey/decoder-input", lineOf(w, c), "the decoder is given the address parameter itself",
			"the address goes through "+through+" before it is decoded: strings that differ only in what that step removes resolve to the same key, and the guards that compare addresses take one wallet for several")
	}
	var succ []*ssa.Return
	for _, ret := range returnsOf(fn) {
		if successReturn(ret) {
			succ = append(succ, ret)
		}
	}
	tested := false
	instrsOf(fn, func(in ssa.Instruction) {
		ia, ok := in.(*ssa.IndexAddr)
		if !ok {
			return
		}
		if k, isK := intConst(ia.Index); !isK || k != 0 {
			return
		}
		from := false
		for _, o := range origins(ia.X) {
			if sameVal(o, dec) {
				from = true
			}
		}
		if !from && !sameVal(ia.X, dec) {
			return
		}
		for _, lr := range *ia.Referrers() {
			ld, isLd := lr.(*ssa.UnOp)
			if !isLd || ld.Op != token.MUL {
				continue
			}
			var cmp func(v ssa.Value, depth int)
			cmp = func(v ssa.Value, depth int) {
				if depth > 3 || v.Referrers() == nil {
					return
				}
				for _, ref := range *v.Referrers() {
					switch x := ref.(type) {
					case *ssa.Convert:
						cmp(x, depth+1)
					case *ssa.Phi:
						cmp(x, depth+1)
					case *ssa.BinOp:
						if x.Op != token.EQL && x.Op != token.NEQ {
							continue
						}
						other := x.X
						if other == v {
							other = x.Y
						}
						if _, isConst := other.(*ssa.Const); !isConst {
							continue
						}
						for _, br := range *x.Referrers() {
							iff, isIf := br.(*ssa.If)
							if !isIf {
								continue
							}
							b := iff.Block()
							side := func(s *ssa.BasicBlock) bool {
								rs := reachable([]*ssa.BasicBlock{s}, nil)
								for _, ret := range succ {
									if rs[ret.Block()] {
										return true
									}
								}
								return false
							}
							if len(b.Succs) == 2 && side(b.Succs[0]) != side(b.Succs[1]) {
								tested = true
							}
						}
					}
				}
			}
			cmp(ld, 0)
		}
	})
	r.check(tested && len(succ) > 0, rule, "wallet.Helper.AddressToPubKey/version", w.Pos(fn.Pos()), "the version byte of the address is pinned to a constant before a key is returned",
		"the version byte of the decoded address is read and enters the checksum, but is never compared with the wallet version: for each of the 255 other values the same public key has another address string that verifies — the guards that compare addresses (issuer ≠ sealer, issuer ≠ genesis, membership of the gossiper set, the peer table) take one wallet for several")
}
