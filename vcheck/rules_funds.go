package main

// C05 (spice arithmetic: atomic on failure, canonical amounts only), C06 (balance queries are
// read-only and have the shape of the reference sum), C07 (truncation: same cut, order, lock,
// no dropped drain error) — structural parts.

import (
	"fmt"
	"go/constant"
	"go/token"
	"go/types"
	"strings"

	"golang.org/x/tools/go/ssa"
)

// ---------------------------------------------------------------------------------------------
// constant-partitioned exploration of a function with a `range` over a constant literal

type cEnv struct {
	idx    int64 // current value of the #rangeindex phi
	hasIdx bool
}

type cpWalker struct {
	fn   *ssa.Function
	phi  *ssa.Phi // #rangeindex
	lits map[ssa.Value][]int64
}

func newCPWalker(fn *ssa.Function) *cpWalker {
	cw := &cpWalker{fn: fn, lits: map[ssa.Value][]int64{}}
	instrsOf(fn, func(in ssa.Instruction) {
		if p, ok := in.(*ssa.Phi); ok && p.Comment == "rangeindex" {
			cw.phi = p
		}
		if a, ok := in.(*ssa.Alloc); ok {
			// constant array literal
			var vals []int64
			okAll := true
			m := map[int64]int64{}
			for _, r := range *a.Referrers() {
				ia, isIA := r.(*ssa.IndexAddr)
				if !isIA {
					continue
				}
				k, isK := intConst(ia.Index)
				if !isK {
					continue
				}
				for _, rr := range *ia.Referrers() {
					if st, ok := rr.(*ssa.Store); ok && st.Addr == ssa.Value(ia) {
						if c, isC := intConst(st.Val); isC {
							m[k] = c
						} else {
							okAll = false
						}
					}
				}
			}
			if okAll && len(m) > 0 {
				for i := int64(0); i < int64(len(m)); i++ {
					v, has := m[i]
					if !has {
						okAll = false
					}
					vals = append(vals, v)
				}
				if okAll {
					cw.lits[a] = vals
				}
			}
		}
	})
	return cw
}

func (cw *cpWalker) eval(v ssa.Value, env cEnv) (int64, bool) {
	switch x := v.(type) {
	case *ssa.Const:
		return intConst(x)
	case *ssa.Phi:
		if x == cw.phi && env.hasIdx {
			return env.idx, true
		}
	case *ssa.BinOp:
		a, okA := cw.eval(x.X, env)
		b, okB := cw.eval(x.Y, env)
		if okA && okB {
			switch x.Op {
			case token.ADD:
				return a + b, true
			case token.SUB:
				return a - b, true
			}
		}
	case *ssa.Convert:
		return cw.eval(x.X, env)
	case *ssa.UnOp:
		if x.Op == token.MUL {
			if ia, ok := x.X.(*ssa.IndexAddr); ok {
				if i, okI := cw.eval(ia.Index, env); okI {
					base := ia.X
					if sl, isSl := base.(*ssa.Slice); isSl {
						base = sl.X
					}
					if vals, has := cw.lits[base]; has && i >= 0 && i < int64(len(vals)) {
						return vals[i], true
					}
				}
			}
		}
	case *ssa.Call:
		if b, ok := x.Call.Value.(*ssa.Builtin); ok && b.Name() == "len" {
			base := x.Call.Args[0]
			if sl, isSl := base.(*ssa.Slice); isSl {
				base = sl.X
			}
			if vals, has := cw.lits[base]; has {
				return int64(len(vals)), true
			}
		}
	}
	return 0, false
}

// feasible decides the successor(s) of block b under env.
func (cw *cpWalker) feasible(b *ssa.BasicBlock, env cEnv) []int {
	if len(b.Succs) != 2 {
		out := make([]int, len(b.Succs))
		for i := range out {
			out[i] = i
		}
		return out
	}
	iff, ok := b.Instrs[len(b.Instrs)-1].(*ssa.If)
	if !ok {
		return []int{0, 1}
	}
	if bo, ok := iff.Cond.(*ssa.BinOp); ok {
		x, okX := cw.eval(bo.X, env)
		y, okY := cw.eval(bo.Y, env)
		if okX && okY {
			var res bool
			switch bo.Op {
			case token.LSS:
				res = x < y
			case token.LEQ:
				res = x <= y
			case token.GTR:
				res = x > y
			case token.GEQ:
				res = x >= y
			case token.EQL:
				res = x == y
			case token.NEQ:
				res = x != y
			default:
				return []int{0, 1}
			}
			if res {
				return []int{0}
			}
			return []int{1}
		}
	}
	return []int{0, 1}
}

// explore walks all feasible (block, index) states; step is called per instruction with the state's
// dirty mask and returns the new mask; atReturn is called at returns.
func (cw *cpWalker) explore(step func(in ssa.Instruction, dirty int) int, atReturn func(ret *ssa.Return, dirty int, env cEnv)) int {
	type state struct {
		b     *ssa.BasicBlock
		env   cEnv
		dirty int
	}
	seen := map[state]bool{}
	work := []state{{cw.fn.Blocks[0], cEnv{}, 0}}
	n := 0
	for len(work) > 0 {
		s := work[len(work)-1]
		work = work[:len(work)-1]
		if seen[s] {
			continue
		}
		seen[s] = true
		n++
		dirty := s.dirty
		for _, in := range s.b.Instrs {
			if ret, ok := in.(*ssa.Return); ok {
				atReturn(ret, dirty, s.env)
				continue
			}
			dirty = step(in, dirty)
		}
		for _, k := range cw.feasible(s.b, s.env) {
			succ := s.b.Succs[k]
			env := s.env
			if cw.phi != nil && succ == cw.phi.Block() {
				// which predecessor index are we?
				for pi, p := range succ.Preds {
					if p == s.b {
						if v, ok := cw.eval(cw.phi.Edges[pi], s.env); ok {
							env = cEnv{idx: v, hasIdx: true}
						} else {
							env = cEnv{}
						}
					}
				}
			}
			work = append(work, state{succ, env, dirty})
		}
	}
	return n
}

func init() {
	register("C05", []string{"./spice", "./accountant"},
		"Structural necessary conditions of exact, atomic, canonical spice arithmetic: every error return of Supply/Transfer leaves all pointees as they were at entry (stores are undone by copyFrom of an entry clone on every FEASIBLE path; the constant-length range + switch is analysed per iteration, so infeasible paths raise no alarm); "+
			"every addition into a supplementary part is followed by the carry normalisation before success is reported; Drain delegates to Transfer with (amount, receiver, sink); at every admission entry the vertex is inserted only behind the pass edge of the canonicality predicate (a comparison of SupplementaryCurrency with 10^18) on the admitted amount. "+
			"EXACTNESS against unbounded integers is a numerical statement over 2^256 inputs and is NOT decided by this family.",
		runC05)
	register("C06", []string{"./accountant", "./spice"},
		"Structural necessary conditions of balance queries: from the four read entry points no mutator of DAG, storage, index or ledger fields is reachable and the ledger lock is only taken in read mode (querying never changes the ledger, for all inputs); "+
			"CalculateBalance pours the tip and every walker item for the queried address with constant in/out roles, adds the checkpoint, then supplies in and drains out with both errors gating the result, and returns the balance for the queried address. "+
			"Numerical equality with the reference sum and cross-node agreement are NOT decided.",
		runC06)
	register("C07", []string{"./accountant", "./spice"},
		"Structural necessary conditions of transparent truncation: the funds walk, the storage walk and the deletion walk start at the identical cut vertex; vertices are deleted only after the save walk and the checkpoint write succeeded (the repo's tolerated ErrBreak sentinel handled as an edge, not text); "+
			"every vertex whose funds are accumulated is also saved (same closure, same value); the previous checkpoint is loaded before the walk; everything runs under the exclusive ledger lock; no insufficient-funds error of Drain/Transfer is dropped in ledger accounting. "+
			"Equality of balances/lookups before and after a truncation is a history property and is NOT decided.",
		runC07)
}

// ---------------------------------------------------------------------------------------------

func runC05(w *World, r *Report) {
	r.NotDecided = []string{"exactness of Supply/Transfer against unbounded integers (e.g. the carry guard uses '<' where the carry happens at '>=': (2^64-1, 5·10^17)+(0, 5·10^17) wraps to (0,0) without error — visible only to arithmetic reasoning or execution)", "conservation over ledger histories (C02)"}
	// ---- 0. the ledger asks the arithmetic, it does not re-implement it
	r.rule("sufficiency-decided-by-drain", "checkHasSufficientfunds reports success only behind the success of in.Drain(*out, sink): the sufficiency verdict of the ledger is the verdict of Transfer, not of a parallel comparison", 1)
	sufficiencyByDrain(w, r, "sufficiency-decided-by-drain")
	// a transfer is counted with the same amount on the issuer's and on the receiver's side (also when they are one wallet)
	r.rule("flows-counted-on-both-sides", "pourFunds supplies the outflow behind issuer == address and the inflow behind receiver == address with the transaction's own amount, and one execution can do both", 4)
	pourFundsRoles(w, r, "flows-counted-on-both-sides")
	// a wallet's checkpoint record is rewritten at every truncation: a record that is skipped keeps saying what the wallet
	// owned one truncation ago (funds that were spent since exist twice)
	checkpointWritesEveryAddress(w, r, "checkpoint-replaces-every-record")
	foldOnlyAdds(w, r, "checkpoint-fold-only-adds")
	foldsReadPartiesAndAmountOnly(w, r, "folds-read-parties-and-amount-only")
	// a transfer that is folded into the checkpoint while its vertex stays live is counted twice: value is created
	checkpointCountsOnlyTheWalked(w, r, "checkpoint-counts-only-the-walked")
	// the verdict of the arithmetic is what admits a transfer: once validateLeaf has started to account for a transfer (the
	// first pourFunds), it reports success only behind checkHasSufficientfunds == nil — a shortcut that answers from part of
	// the account (the checkpoint alone, the tip alone) lets the same funds be spent again
	r.rule("validation-succeeds-only-behind-the-sufficiency-verdict", "in validateLeaf every success return that is reachable from the first pourFunds call lies behind the success edge of checkHasSufficientfunds applied to the very accumulators the pourFunds calls fill", 1)
	if vl := w.Func("accountant", "AccountingBook", "validateLeaf"); vl != nil {
		pours := deepCalls(vl, byName(nPourFunds), 1)
		checks := callsTo(vl, nCheckFunds)
		if len(pours) == 0 || len(checks) == 0 {
			r.bad("validation-succeeds-only-behind-the-sufficiency-verdict", "validateLeaf", w.Pos(vl.Pos()), "validateLeaf pours funds and asks checkHasSufficientfunds", fmt.Sprintf("pourFunds calls=%d checkHasSufficientfunds calls=%d", len(pours), len(checks)))
		} else {
			// the verdict that counts is the one over the accumulators the pours fill
			accs := map[string]bool{}
			for _, d := range pours {
				_, pa := callArgs(d.c)
				if len(pa) >= 4 {
					accs[d.path(pa[2])+"|"+d.path(pa[3])] = true
				}
			}
			var okE []Edge
			for _, c := range checks {
				_, ca := callArgs(c)
				if len(ca) >= 2 && accs[pathOf(ca[0])+"|"+pathOf(ca[1])] {
					okE = append(okE, passErrNil(c)...)
				}
			}
			bad := ""
			for _, d := range pours {
				var site ssa.Instruction = d.c.(ssa.Instruction)
				if len(d.chain) > 0 {
					site = d.chain[0].(ssa.Instruction)
				}
				walkFrom(site, nil, edgeSet(okE), func(x ssa.Instruction) bool {
					if ret, isRet := x.(*ssa.Return); isRet && successReturn(ret) && bad == "" {
						bad = fmt.Sprintf("the success return at %s is reachable from pourFunds at %s without crossing checkHasSufficientfunds == nil", lineOf(w, ret), lineOf(w, site))
					}
					return false
				})
			}
			r.check(bad == "" && len(okE) > 0, "validation-succeeds-only-behind-the-sufficiency-verdict", "validateLeaf", w.Pos(vl.Pos()), "no success without the sufficiency verdict once accounting has begun", bad)
		}
	}
	// ---- 0b. the operands are worked on in place; a copy back into an operand is the undo of a failure, nothing else
	r.rule("restore-only-on-failure", "in Supply / Transfer a copyFrom into an operand is followed only by error returns: the success path has updated the operands in place (a compute-on-copies-then-commit scheme overwrites one result with the other when both operands are the same object)", 2)
	for _, spec := range [][2]string{{"Melange", "Supply"}, {"", "Transfer"}} {
		f := w.fx(r, "spice", spec[0], spec[1])
		if f == nil {
			continue
		}
		nCopy, bad := 0, 0
		for _, c := range callsTo(f.fn, cn("spice", "*Melange", "copyFrom")) {
			recv, _ := callArgs(c)
			if _, isPrm := strip(recv).(*ssa.Parameter); !isPrm {
				continue
			}
			nCopy++
			walkFrom(c.(ssa.Instruction), nil, nil, func(x ssa.Instruction) bool {
				if ret, ok := x.(*ssa.Return); ok {
					if successReturn(ret) {
						bad++
					}
					return true
				}
				return false
			})
		}
		r.check(bad == 0, "restore-only-on-failure", spec[1], w.Pos(f.fn.Pos()), fmt.Sprintf("every copy back into an operand (%d) leads to an error return", nCopy), fmt.Sprintf("%d successful returns are reachable after a copyFrom into an operand", bad))
	}
	// ---- 1. failure changes neither side
	r.rule("atomic-on-failure", "at every error return of Supply/Transfer no *Melange pointee differs from its entry value: each store is undone by copyFrom(clone taken at entry) on every feasible path", 6)
	for _, spec := range [][2]string{{"Melange", "Supply"}, {"", "Transfer"}} {
		f := w.fx(r, "spice", spec[0], spec[1])
		if f == nil {
			continue
		}
		fn := f.fn
		// pointer parameters of type *Melange
		var ptrs []*ssa.Parameter
		for _, p := range fn.Params {
			if pt, ok := p.Type().(*types.Pointer); ok && strings.HasSuffix(pt.Elem().String(), "spice.Melange") {
				ptrs = append(ptrs, p)
			}
		}
		bit := func(p ssa.Value) int {
			for i, q := range ptrs {
				if p == ssa.Value(q) {
					return 1 << i
				}
			}
			return 0
		}
		// clones taken at entry: c = p.Clone() (value receiver: Clone(*p)) in the entry block before any store
		cloneOf := map[ssa.Value]int{}
		for _, in := range fn.Blocks[0].Instrs {
			if _, isStore := in.(*ssa.Store); isStore {
				if fa, ok := in.(*ssa.Store).Addr.(*ssa.FieldAddr); ok && bit(fa.X) != 0 {
					break
				}
			}
			if c, ok := in.(*ssa.Call); ok && strings.HasSuffix(calleeName(c), "Melange).Clone") {
				if ld, ok := c.Call.Args[0].(*ssa.UnOp); ok && ld.Op == token.MUL {
					if b := bit(ld.X); b != 0 {
						cloneOf[c] = b
					}
				}
			}
		}
		cw := newCPWalker(fn)
		nErr := 0
		bad := map[*ssa.Return]int{}
		states := cw.explore(func(in ssa.Instruction, dirty int) int {
			switch x := in.(type) {
			case *ssa.Store:
				if fa, ok := x.Addr.(*ssa.FieldAddr); ok {
					dirty |= bit(fa.X)
				}
			case *ssa.Call:
				if strings.HasSuffix(calleeName(x), "Melange).copyFrom") && len(x.Call.Args) == 2 {
					if b := bit(x.Call.Args[0]); b != 0 && cloneOf[strip(x.Call.Args[1])] == b {
						dirty &^= b
					}
				}
			}
			return dirty
		}, func(ret *ssa.Return, dirty int, env cEnv) {
			if successReturn(ret) {
				return
			}
			nErr++
			if dirty != 0 {
				bad[ret] |= dirty
			}
		})
		r.Extra["states_explored_"+spec[1]] = states
		for _, ret := range returnsOf(fn) {
			if successReturn(ret) {
				continue
			}
			var names []string
			for i, p := range ptrs {
				if bad[ret]&(1<<i) != 0 {
					names = append(names, p.Name())
				}
			}
			r.check(bad[ret] == 0, "atomic-on-failure", spec[1]+"/"+describeExit(ret), lineOf(w, ret), "error return with all operands restored",
				"feasible path reaches this error return with modified, unrestored operand(s): "+strings.Join(names, ","))
		}
		r.check(len(cloneOf) == len(ptrs) || spec[1] == "Supply" && len(cloneOf) >= 1, "atomic-on-failure", spec[1]+"/entry-clones", w.Pos(fn.Pos()), "a clone of every mutated operand is taken at entry", fmt.Sprintf("%d clones for %d pointer operands", len(cloneOf), len(ptrs)))
	}

	// ---- carry normalisation
	K := int64(0)
	if c, ok := w.Pkg("spice").Pkg.Scope().Lookup("MaxAmountPerSupplementaryCurrency").(*types.Const); ok {
		K, _ = constant.Int64Val(c.Val())
	}
	r.rule("carry-normalised", "every addition into a SupplementaryCurrency field is followed, before success is reported, by a comparison of that field with 10^18 (the carry step)", 2)
	for _, spec := range [][2]string{{"Melange", "Supply"}, {"", "Transfer"}} {
		f := w.fx(r, "spice", spec[0], spec[1])
		if f == nil {
			continue
		}
		instrsOf(f.fn, func(in ssa.Instruction) {
			st, ok := in.(*ssa.Store)
			if !ok {
				return
			}
			fa, ok := st.Addr.(*ssa.FieldAddr)
			if !ok || fieldName(fa.X.Type(), fa.Field) != "SupplementaryCurrency" {
				return
			}
			bo, ok := st.Val.(*ssa.BinOp)
			if !ok || bo.Op != token.ADD {
				return
			}
			p := pathOf(st.Addr)
			// only additions of an amount (not the borrow `+ Max - amount`)
			if _, isConst := bo.Y.(*ssa.Const); isConst {
				return
			}
			if inner, isBin := bo.X.(*ssa.BinOp); isBin && inner.Op == token.ADD {
				if k, isK := intConst(inner.Y); isK && k == K {
					return // from.Supp + Max - amount : borrow, result < Max by construction of the guard
				}
			}
			escapes := 0
			dw := newDeepWalk(func(x ssa.Instruction, fr *frame) bool {
				if iff, ok := x.(*ssa.If); ok {
					if c, ok := iff.Cond.(*ssa.BinOp); ok {
						if k, isK := intConst(c.Y); isK && k == K && fr.cx.res(c.X) == p {
							return true
						}
					}
				}
				if ret, ok := x.(*ssa.Return); ok && fr.top() {
					if successReturn(ret) {
						escapes++
					}
					return true
				}
				return false
			})
			dw.run(topFrame(f.fn), st.Block(), indexIn(st.Block(), st)+1)
			r.check(escapes == 0, "carry-normalised", spec[1]+"/"+p, lineOf(w, st), "the sum is compared with 10^18 before the operation can succeed", fmt.Sprintf("%d success paths skip the carry step", escapes))
		})
	}

	carryThresholdInclusive(w, r, "carry-threshold-is-inclusive")

	// ---- the carry never wraps the currency
	r.rule("carry-increment-guarded", "every currency increment by one (the carry) is immediately guarded: the nearest dominating test of that same field against 2^64-1 has its fail edge leading to an error return, and the field is not written between the test and the increment", 2)
	for _, spec := range [][2]string{{"Melange", "Supply"}, {"", "Transfer"}} {
		f := w.fx(r, "spice", spec[0], spec[1])
		if f == nil {
			continue
		}
		// the increment may sit in a helper of the operation (a shared carry step): it is checked where it lives
		for _, fn := range withHelpers(f.fn, deepDepth) {
			instrsOf(fn, func(in ssa.Instruction) {
				st, ok := in.(*ssa.Store)
				if !ok {
					return
				}
				fa, ok := st.Addr.(*ssa.FieldAddr)
				if !ok || fieldName(fa.X.Type(), fa.Field) != "Currency" {
					return
				}
				bo, ok := st.Val.(*ssa.BinOp)
				if !ok || bo.Op != token.ADD {
					return
				}
				if k, isK := intConst(bo.Y); !isK || k != 1 {
					return
				}
				p := pathOf(st.Addr)
				// guard edges: load(p) == MaxUint64 is FALSE
				var guardLoads []ssa.Value
				guards := edgesWhere(fn, func(ft fact) bool {
					if ft.kind != fNeq {
						return false
					}
					for _, pr := range [][2]ssa.Value{{ft.x, ft.y}, {ft.y, ft.x}} {
						if c, isC := pr[1].(*ssa.Const); isC && c.Value != nil && c.Value.ExactString() == "18446744073709551615" && pathOf(pr[0]) == p {
							guardLoads = append(guardLoads, pr[0])
							return true
						}
					}
					return false
				})
				ok2 := false
				why := "no test of " + p + " against 2^64-1 dominates the increment"
				for _, ge := range guards {
					// the guard edge must lead straight to the increment: no store to p on any path from the edge to st,
					// and the increment's block is reachable only through a guard edge
					if !mustCross(fn, st.Block(), guards) {
						continue
					}
					dirty := false
					walkFrom(nil, ge.To(), nil, func(x ssa.Instruction) bool {
						if x == ssa.Instruction(st) {
							return true
						}
						if s2, isSt := x.(*ssa.Store); isSt && pathOf(s2.Addr) == p && s2 != st {
							// a store to the field before reaching the increment?
							if reachable([]*ssa.BasicBlock{s2.Block()}, nil)[st.Block()] {
								dirty = true
							}
						}
						return false
					})
					if dirty {
						why = "the field is written between its overflow test and the increment (stale test)"
						continue
					}
					ok2 = true
				}
				r.check(ok2, "carry-increment-guarded", spec[1]+"/"+p+"+=1", lineOf(w, st), "the carry into "+p+" cannot wrap", why)
			})
		}
	}

	// ---- the borrow never wraps the currency
	r.rule("borrow-decrement-guarded", "every currency decrement by one (the borrow) is immediately guarded: a test of that same field against 0 dominates it, and the field is not written between the test and the decrement", 1)
	for _, spec := range [][2]string{{"Melange", "Supply"}, {"", "Transfer"}} {
		f := w.fx(r, "spice", spec[0], spec[1])
		if f == nil {
			continue
		}
		// the increment may sit in a helper of the operation (a shared carry step): it is checked where it lives
		for _, fn := range withHelpers(f.fn, deepDepth) {
			instrsOf(fn, func(in ssa.Instruction) {
				st, ok := in.(*ssa.Store)
				if !ok {
					return
				}
				fa, ok := st.Addr.(*ssa.FieldAddr)
				if !ok || fieldName(fa.X.Type(), fa.Field) != "Currency" {
					return
				}
				bo, ok := st.Val.(*ssa.BinOp)
				if !ok || bo.Op != token.SUB {
					return
				}
				if k, isK := intConst(bo.Y); !isK || k != 1 {
					return
				}
				p := pathOf(st.Addr)
				// guard edges: load(p) == MaxUint64 is FALSE
				var guardLoads []ssa.Value
				guards := edgesWhere(fn, func(ft fact) bool {
					if ft.kind != fNeq {
						return false
					}
					for _, pr := range [][2]ssa.Value{{ft.x, ft.y}, {ft.y, ft.x}} {
						if c, isC := pr[1].(*ssa.Const); isC && c.Value != nil && c.Value.ExactString() == "0" && pathOf(pr[0]) == p {
							guardLoads = append(guardLoads, pr[0])
							return true
						}
					}
					return false
				})
				ok2 := false
				why := "no test of " + p + " against 0 dominates the decrement"
				for _, ge := range guards {
					// the guard edge must lead straight to the increment: no store to p on any path from the edge to st,
					// and the increment's block is reachable only through a guard edge
					if !mustCross(fn, st.Block(), guards) {
						continue
					}
					dirty := false
					walkFrom(nil, ge.To(), nil, func(x ssa.Instruction) bool {
						if x == ssa.Instruction(st) {
							return true
						}
						if s2, isSt := x.(*ssa.Store); isSt && pathOf(s2.Addr) == p && s2 != st {
							// a store to the field before reaching the increment?
							if reachable([]*ssa.BasicBlock{s2.Block()}, nil)[st.Block()] {
								dirty = true
							}
						}
						return false
					})
					if dirty {
						why = "the field is written between its underflow test and the decrement (stale test)"
						continue
					}
					ok2 = true
				}
				r.check(ok2, "borrow-decrement-guarded", spec[1]+"/"+p+"-=1", lineOf(w, st), "the borrow from "+p+" cannot wrap", why)
			})
		}
	}

	// ---- Drain delegates correctly
	r.rule("drain-delegates", "Drain(amount, sink) is Transfer(amount, receiver, sink)", 1)
	if f := w.fx(r, "spice", "Melange", "Drain"); f != nil {
		ok := false
		for _, c := range f.calls(nTransfer) {
			_, a := callArgs(c)
			p := f.fn.Params
			ok = pathOf(a[0]) == p[1].Name() && pathOf(a[1]) == p[0].Name() && pathOf(a[2]) == p[2].Name()
			for _, ret := range returnsOf(f.fn) {
				if !sameVal(ret.Results[0], c.(*ssa.Call)) {
					ok = false
				}
			}
		}
		r.check(ok, "drain-delegates", "Melange.Drain", w.Pos(f.fn.Pos()), "argument roles preserved and result propagated", "roles differ")
	}

	// ---- the sink of a Drain is scratch space of that one computation
	drainSinkPrivate(w, r, "drain-sink-is-private")

	canonicalAtEntry(w, r)
}

// ---------------------------------------------------------------------------------------------

func isMutator(c ssa.CallInstruction, dagW map[string]bool) string {
	n := calleeName(c)
	if dagW[n] {
		return n
	}
	for _, m := range []string{"(*" + badgerPkg + ".DB).Update", "(*" + badgerPkg + ".Txn).Set", "(*" + badgerPkg + ".Txn).SetEntry", "(*" + badgerPkg + ".Txn).Delete", "(*" + badgerPkg + ".DB).DropAll",
		"(*" + bigPkg + ".BigCache).Set", "(*" + bigPkg + ".BigCache).Delete", "(*sync.RWMutex).Lock"} {
		if n == m {
			return n
		}
	}
	return ""
}

func dagWriters(w *World) map[string]bool {
	out := map[string]bool{}
	dagSSA := w.SSA[dagPkg]
	for fn := range w.AllFuncs() {
		if fn.Pkg != dagSSA || fn.Parent() != nil || fn.Object() == nil {
			continue
		}
		instrsOf(fn, func(in ssa.Instruction) {
			if c, ok := in.(*ssa.Call); ok {
				if op, m, id, ok := lockOp(c); ok && op == "lock" && m == "W" && id == "dag.DAG.muDAG" {
					out[refFuncFullName(fn.Object().(*types.Func))] = true
				}
			}
		})
	}
	return out
}

func runC06(w *World, r *Report) {
	r.NotDecided = []string{"numerical equality of the result with the reference sum", "agreement across nodes holding the same vertex set", "which tip is chosen when several exist (map iteration order)"}
	// a balance is the sum over ALL ancestors or an error: a step of the query that failed (the walk was stopped, a vertex
	// could not be read or poured) never ends in a number
	r.rule("balance-query-fails-when-a-step-fails", "in CalculateBalance (and the literals in it) no success return is reachable from the failure edge of a repo call or spice operation that returns an error; an error result that is never tested is a violation too", 3)
	if cb := w.Func("accountant", "AccountingBook", "CalculateBalance"); cb != nil {
		for _, g := range WithAnon(cb) {
			instrsOf(g, func(in ssa.Instruction) {
				c, ok := in.(ssa.CallInstruction)
				if !ok {
					return
				}
				if _, isDefer := in.(*ssa.Defer); isDefer {
					return
				}
				cal := c.Common().StaticCallee()
				if cal == nil || !isRepoFunc(cal) || errIndexOfSig(cal.Signature) < 0 {
					return
				}
				key := "CalculateBalance/" + shortCallee(c)
				fes := failErrNonNil(c)
				if len(fes) == 0 {
					ev := errResult(c)
					used := false
					if ev != nil && ev.Referrers() != nil {
						for _, ref := range *ev.Referrers() {
							if _, dbg := ref.(*ssa.DebugRef); !dbg {
								used = true
							}
						}
					}
					// propagated as the function's own result is fine
					r.check(used, "balance-query-fails-when-a-step-fails", key, lineOf(w, c), "the error of this step is looked at", "error result discarded")
					return
				}
				// an error that is told apart by name (err == ErrBalanceUnavailable: no checkpoint yet) is a decision, not a drop
				ev := errResult(c)
				var named []Edge
				isSentinel := func(v ssa.Value) bool {
					if u, ok := v.(*ssa.UnOp); ok {
						if gl, ok := u.X.(*ssa.Global); ok {
							return strings.HasPrefix(gl.Name(), "Err")
						}
					}
					return false
				}
				for _, b := range g.Blocks {
					for i := range b.Succs {
						for _, ft := range edgeFacts(Edge{b, i}) {
							if ft.kind == fEq && (sameVal(ft.x, ev) && isSentinel(ft.y) || sameVal(ft.y, ev) && isSentinel(ft.x)) {
								named = append(named, Edge{b, i})
							}
							if ft.kind == fTrue {
								if ic, ok := strip(ft.x).(*ssa.Call); ok && calleeName(ic) == "errors.Is" && len(ic.Call.Args) == 2 && sameVal(ic.Call.Args[0], ev) && isSentinel(ic.Call.Args[1]) {
									named = append(named, Edge{b, i})
								}
							}
						}
					}
				}
				bad := 0
				for _, fe := range fes {
					walkFrom(nil, fe.To(), edgeSet(named), func(x ssa.Instruction) bool {
						if ret, isRet := x.(*ssa.Return); isRet {
							if g == cb && successReturn(ret) {
								bad++
							}
							return true
						}
						return false
					})
				}
				r.check(bad == 0, "balance-query-fails-when-a-step-fails", key, lineOf(w, c), "a failure of this step makes the query fail", fmt.Sprintf("%d success returns of the query are reachable from the failure edge of this step: a partial sum is reported as the balance", bad))
			})
		}
	}
	// the balance is a walk over the ancestors: the edges of an admitted vertex are the ancestry
	everyParentLinked(w, r, "every-looked-up-parent-is-linked")
	foldsReadPartiesAndAmountOnly(w, r, "folds-read-parties-and-amount-only")
	// after a truncation the balance is the checkpoint plus the walk over what stayed live: each transfer is in exactly one
	checkpointCountsOnlyTheWalked(w, r, "checkpoint-counts-only-the-walked")
	saveWhatIsCounted(w, r, truncateModel(w))
	dagW := dagWriters(w)
	r.Extra["dag_writer_methods"] = len(dagW)
	r.rule("queries-read-only", "no mutator (graph writer, badger write, cache write, exclusive ledger lock, store to a ledger field) is reachable from a read entry point", 4)
	for _, name := range []string{"CalculateBalance", "ReadTransactionByHash", "ReadDAGTransactionsByAddress", "ReadVertex"} {
		f := w.fx(r, "accountant", "AccountingBook", name)
		if f == nil {
			continue
		}
		reach := reachableFuncs(w, f.fn)
		var found []string
		for fn := range reach {
			instrsOf(fn, func(in ssa.Instruction) {
				switch x := in.(type) {
				case ssa.CallInstruction:
					if m := isMutator(x, dagW); m != "" {
						found = append(found, m[strings.LastIndex(m, ".")+1:]+" in "+shortFn(fn)+" at "+lineOf(w, in))
					}
				case *ssa.Store:
					if fa, ok := x.Addr.(*ssa.FieldAddr); ok && namedOf(fa.X.Type()) == "accountant.AccountingBook" {
						found = append(found, "store to AccountingBook."+fieldName(fa.X.Type(), fa.Field)+" at "+lineOf(w, in))
					}
				case *ssa.MapUpdate:
					if strings.Contains(pathOf(x.Map), "ab.") {
						found = append(found, "map update at "+lineOf(w, in))
					}
				}
			})
		}
		r.check(len(found) == 0, "queries-read-only", name, w.Pos(f.fn.Pos()), fmt.Sprintf("read-only over %d reachable repo functions", len(reach)), strings.Join(found, "; "))
	}

	r.rule("balance-shape", "CalculateBalance: pourFunds(address, tip|ancestor, &in, &out) with constant roles; checkpoint.Supply(in) and .Drain(out) both gate the result; the balance is reported for the queried address", 3)
	if f := w.fx(r, "accountant", "AccountingBook", "CalculateBalance"); f != nil {
		fn := f.fn
		addr := fn.Params[2].Name()
		// (the loop over the ancestors may sit in a helper that is handed the address and the two accumulators)
		pcs := deepCalls(fn, byName(nPourFunds), 1)
		in, out := "", ""
		okRoles := len(pcs) >= 2
		for i, d := range pcs {
			_, a := callArgs(d.c)
			if i == 0 {
				in, out = d.path(a[2]), d.path(a[3])
			}
			if d.path(a[0]) != addr || d.path(a[2]) != in || d.path(a[3]) != out || in == out {
				okRoles = false
			}
		}
		r.check(okRoles, "balance-shape", "CalculateBalance/pourFunds-roles", w.Pos(fn.Pos()), "tip and ancestors are poured for the queried address into the same in/out pair", fmt.Sprintf("%d calls, in=%s out=%s", len(pcs), in, out))
		// checkpoint + in - out (the netting may sit in a helper that CalculateBalance ends with: it is analysed where the
		// checkpoint is read, with the helper's parameters named as the arguments passed)
		var ck ssa.Value
		host := fn
		var hres resolver = idRes
		var hostCall ssa.CallInstruction
		for _, d := range deepCalls(fn, byName(cn("accountant", "*AccountingBook", "readAddressFundsFromStorage")), 1) {
			_, a := callArgs(d.c)
			if d.path(a[0]) == addr {
				ck = resultAt(d.c, 0)
				host = d.c.Parent()
				hres = d.res()
				if len(d.chain) > 0 {
					hostCall = d.chain[0]
				}
			}
		}
		ckPath := ""
		if ck != nil {
			ckPath = pathOf(ck)
			for _, ref := range *ck.Referrers() {
				if st, ok := ref.(*ssa.Store); ok {
					ckPath = pathOf(st.Addr)
				}
			}
		}
		var supE, drE []Edge
		for _, c := range callsToDeep(host, nSupply) {
			recv, a := callArgs(c)
			if pathOf(recv) == ckPath && hres(a[0]) == in {
				supE = append(supE, passErrNil(c)...)
			}
		}
		for _, c := range callsToDeep(host, nDrain) {
			recv, a := callArgs(c)
			if pathOf(recv) == ckPath && hres(a[0]) == out {
				drE = append(drE, passErrNil(c)...)
			}
		}
		okSum := ck != nil && ckPath != ""
		nSucc := 0
		for _, ret := range returnsOf(host) {
			if !successReturn(ret) {
				continue
			}
			nSucc++
			if !(behind(ret, supE) && behind(ret, drE)) {
				okSum = false
			}
			// result = NewBalance(addr, checkpoint variable)
			nb, isCall := strip(ret.Results[0]).(*ssa.Call)
			if !isCall || !strings.HasSuffix(calleeName(nb), ".NewBalance") || hres(nb.Call.Args[0]) != addr || pathOf(nb.Call.Args[1]) != ckPath {
				okSum = false
			}
		}
		if hostCall != nil { // CalculateBalance reports what the netting helper reports
			for _, ret := range returnsOf(fn) {
				if successReturn(ret) && !sameVal(ret.Results[0], resultAt(hostCall, 0)) {
					okSum = false
				}
			}
		}
		r.check(okSum && nSucc > 0, "balance-shape", "CalculateBalance/checkpoint+in-out", w.Pos(fn.Pos()), "result = checkpoint(address) supplied with in and drained by out; a failing supply or drain is an error, never a number",
			fmt.Sprintf("checkpoint=%s supply-edges=%d drain-edges=%d success-returns=%d", ckPath, len(supE), len(drE), nSucc))
		// walk completeness
		for _, wc := range f.calls(dagM("AncestorsWalker")) {
			data := resultAt(wc, 0)
			recvs, exh := exhaustedEdges(fn, data)
			for _, ret := range returnsOf(fn) {
				if successReturn(ret) {
					r.check(behind(ret, exh), "balance-shape", "CalculateBalance/result-after-full-walk", lineOf(w, ret), "a balance is returned only after the walk was exhausted", "success return reachable before the walker channel is exhausted")
				}
			}
			for _, rv := range recvs {
				r.check(everyItemReaches(fn, rv, nPourFunds), "balance-shape", "CalculateBalance/every-item-poured", lineOf(w, rv), "every ancestor delivered by the walker is poured unless it is in the local visited set", "a way back to the receive skips pourFunds")
			}
		}
		// the tip that is poured is the very tip whose ancestors are walked, and it is poured once
		for _, wc := range f.calls(dagM("AncestorsWalker")) {
			_, wa := callArgs(wc)
			start, okS := vertexOfHashArg(wa[0])
			header := map[*ssa.BasicBlock]bool{}
			for _, rv := range func() []*ssa.UnOp { r, _ := exhaustedEdges(fn, resultAt(wc, 0)); return r }() {
				for b := range loopOf(rv.Block(), nil) {
					header[b] = true
				}
			}
			nTip := 0
			okTip := okS
			var direct []ssa.CallInstruction
			for _, d := range pcs {
				if len(d.chain) == 0 {
					direct = append(direct, d.c)
				}
			}
			for _, c := range direct {
				if header[c.Block()] {
					continue // the per-ancestor pour
				}
				nTip++
				_, a := callArgs(c)
				// vertex poured = *vrx where vrx is the DAG entry looked up by the start tip's hash
				from := ""
				for _, o := range origins(a[1]) {
					if ld, isLd := o.(*ssa.UnOp); isLd {
						for _, o2 := range origins(ld.X) {
							if ex, isEx := o2.(*ssa.Extract); isEx {
								if gc, isCall := ex.Tuple.(*ssa.Call); isCall && calleeName(gc) == nGetVertex {
									_, ga := callArgs(gc)
									if x, isV := vertexOfHashArg(ga[0]); isV {
										from = pathOf(x)
									}
								}
							}
						}
					}
				}
				if !okS || from != pathOf(start) {
					okTip = false
				}
				if reachable(c.Block().Succs, nil)[c.Block()] {
					okTip = false // poured inside a loop: several tips would be counted
				}
			}
			r.check(okTip && nTip == 1, "balance-shape", "CalculateBalance/tip-is-walk-start", lineOf(w, wc), "exactly one tip is poured outside the walk, once, and it is the vertex whose ancestors are walked",
				fmt.Sprintf("tip pours=%d bound-to-walk-start=%v", nTip, okTip))
		}
		// the starting tip is itself poured and is the walk's start
		r.check(len(pcs) >= 2, "balance-shape", "CalculateBalance/tip-poured", w.Pos(fn.Pos()), "the tip itself is counted", "fewer than two pourFunds calls")
	}
	checkpointPruneAtomic(w, r)
	checkpointWritesEveryAddress(w, r, "checkpoint-replaces-every-record")
	checkpointKeyDiscipline(w, r, "checkpoint-keys-agree")
	checkpointCountsWhatBalanceCounts(w, r, "checkpoint-counts-what-the-balance-counts")
	carryThresholdInclusive(w, r, "carry-threshold-is-inclusive")
	r.rule("flow-classifier", "pourFunds classifies issuer→outflow and receiver→inflow as two independent tests with the same amount", 4)
	pourFundsRoles(w, r, "flow-classifier")

	// funds lock mode
	li := ComputeLocks(w, acctScope)
	r.rule("read-lock-only", "read entry points hold the ledger lock in read mode while they touch the DAG", 3)
	for _, name := range []string{"CalculateBalance", "ReadTransactionByHash", "ReadDAGTransactionsByAddress"} {
		if f := w.fx(r, "accountant", "AccountingBook", name); f != nil {
			for _, c := range f.calls(nGetVertex, dagM("AncestorsWalker"), dagM("GetLeaves"), cn("accountant", "*AccountingBook", "readAddressFundsFromStorage")) {
				held := li.At(c)
				r.check(held.Has(abMux, "R") && !held.Has(abMux, "W"), "read-lock-only", name+"/"+shortCallee(c), lineOf(w, c), "graph and checkpoint reads happen under AccountingBook.mux in read mode (checkpoint and live DAG are one consistent snapshot)", "lockset "+held.String()+": a truncation can land between the checkpoint read and the walk")
			}
		}
	}
}

// everyItemReaches: from the ok==true edge of a range receive, every path back to the receive passes a
// call to callee, a return, or the skip edge of a lookup of the item in a local map.
func everyItemReaches(fn *ssa.Function, rv *ssa.UnOp, callee string) bool {
	var okv, item ssa.Value
	for _, ref := range *rv.Referrers() {
		if e, ok := ref.(*ssa.Extract); ok {
			if e.Index == 1 {
				okv = e
			} else {
				item = e
			}
		}
	}
	if okv == nil {
		return false
	}
	var skip []Edge
	instrsOf(fn, func(in ssa.Instruction) {
		if l, ok := in.(*ssa.Lookup); ok && l.CommaOk && item != nil && sameVal(l.Index, item) {
			isLocal := visitedSetIsLocal(fn, l.X)
			if isLocal {
				for _, ref := range *l.Referrers() {
					if e, ok := ref.(*ssa.Extract); ok && e.Index == 1 {
						skip = append(skip, trueEdges(fn, e)...)
					}
				}
			}
		}
	})
	bad := 0
	for _, te := range trueEdges(fn, okv) {
		walkFrom(nil, te.To(), edgeSet(skip), func(x ssa.Instruction) bool {
			if ci, ok := x.(ssa.CallInstruction); ok && calleeName(ci) == callee {
				return true
			}
			if _, ok := x.(*ssa.Return); ok {
				return true
			}
			if x == ssa.Instruction(rv) {
				bad++
				return true
			}
			return false
		})
	}
	return bad == 0
}

// ---------------------------------------------------------------------------------------------

func runC07(w *World, r *Report) {
	r.NotDecided = []string{"equality of balances, by-hash reads and re-submission results before vs. after a truncation (history property)", "choice of the cut when several tips exist", "the overflow errors of Supply in fundsMemMap.updateFounds: they are dropped too, but an overflow there needs more than 2^64 units to have flowed through one wallet, which validateLeaf already rejects — not a reachable defect, not reported"}
	f := w.fx(r, "accountant", "AccountingBook", "truncate")
	if f == nil {
		return
	}
	li := ComputeLocks(w, acctScope)
	truncateObligations(w, r, li)
	// a received vertex that is not linked to a parent it declares is a root for validateLeaf: after a truncation (the parent
	// checkpointed) it would be validated against nothing, before it against the full history
	everyParentLinked(w, r, "every-looked-up-parent-is-linked")
	checkpointCountsOnlyTheWalked(w, r, "checkpoint-counts-only-the-walked")

	// the other side of the exclusion: whoever reads the checkpointed funds holds the ledger lock, so that
	// the checkpoint it sees and the DAG it walks belong to the same side of a truncation
	r.rule("checkpoint-read-under-lock", "every read of the checkpointed funds happens with AccountingBook.mux held (either mode): checkpoint and live DAG are read as one snapshot", 2)
	for _, cfn := range w.RepoFuncs("accountant") {
		for _, c := range callsTo(cfn, cn("accountant", "*AccountingBook", "readAddressFundsFromStorage"), cn("accountant", "*AccountingBook", "forEachfundFromStorage")) {
			held := li.At(c)
			r.check(held.Has(abMux, ""), "checkpoint-read-under-lock", strings.TrimPrefix(shortFn(cfn), "(*accountant.AccountingBook).")+"/"+shortCallee(c), lineOf(w, c),
				"checkpoint read under the ledger lock", "lockset "+held.String()+": a truncation can replace the checkpoint between this read and the walk of the DAG")
		}
	}

	checkpointWritesEveryAddress(w, r, "checkpoint-writes-every-address")
	checkpointKeyDiscipline(w, r, "checkpoint-keys-agree")
	checkpointCountsWhatBalanceCounts(w, r, "checkpoint-counts-what-the-balance-counts")
	drainSinkPrivate(w, r, "drain-sink-is-private")
	// a transaction whose vertex left the live graph is answered from storage: whatever the graph lookup fails with
	r.rule("by-hash-read-falls-back-to-storage", "in ReadTransactionByHash every failure of the live-graph lookup leads to the storage read before any return (a fallback that is taken only for a recognised error value is skipped when the recognition fails)", 1)
	if rt := w.fx(r, "accountant", "AccountingBook", "ReadTransactionByHash"); rt != nil {
		n := 0
		for _, d := range deepCalls(rt.fn, byName(nGetVertex), deepDepth) {
			if len(d.chain) > 0 {
				continue
			}
			n++
			missed := 0
			for _, fe := range failErrNonNil(d.c) {
				walkFrom(nil, fe.To(), nil, func(x ssa.Instruction) bool {
					if c, ok := x.(ssa.CallInstruction); ok && strings.Contains(calleeName(c), "FromStorage") {
						return true
					}
					if _, isRet := x.(*ssa.Return); isRet {
						missed++
						return true
					}
					return false
				})
			}
			r.check(missed == 0 && len(failErrNonNil(d.c)) > 0, "by-hash-read-falls-back-to-storage", "ReadTransactionByHash/GetVertex", lineOf(w, d.c), "a failed graph lookup is followed by the storage read", fmt.Sprintf("%d returns are reachable from the failed lookup without reading the storage", missed))
		}
		if n == 0 {
			r.ok("by-hash-read-falls-back-to-storage", "ReadTransactionByHash/no-direct-lookup", w.Pos(rt.fn.Pos()), "the graph lookup is delegated to a helper")
		}
	}

	storageWriters(w, r, "storage-only-what-is-pruned")

	r.rule("no-dropped-drain-error", "in ledger accounting no insufficient-funds error of Drain / Transfer is dropped (a dropped one stores a wrong checkpoint)", 1)
	for _, fn2 := range w.RepoFuncs("accountant") {
		for _, c := range callsTo(fn2, nDrain, nTransfer) {
			ev := errResult(c)
			used := ev != nil
			if used {
				used = false
				for _, ref := range *ev.Referrers() {
					if _, dbg := ref.(*ssa.DebugRef); !dbg {
						used = true
					}
				}
			}
			// a helper that has one caller is reported under that caller: moving the call into a helper does not make it
			// a different construct
			owner := ownerFn(fn2)
			for i := 0; i < 2; i++ {
				if owner.Object() == nil || owner.Object().Exported() || inReference(owner) {
					break
				}
				callers := map[*ssa.Function]bool{}
				for _, cs := range staticCallers(w, owner) {
					callers[ownerFn(cs.Parent())] = true
				}
				if len(callers) != 1 {
					break
				}
				for cf := range callers {
					owner = cf
				}
			}
			r.check(used, "no-dropped-drain-error", strings.TrimPrefix(shortFn(owner), "(*accountant.")+"/"+shortCallee(c), lineOf(w, c), "error result of "+shortCallee(c)+" is consumed", "error result discarded")
		}
	}
}

// everyItemPasses generalises everyItemReaches to an arbitrary "processed" predicate.
func everyItemPasses(fn *ssa.Function, rv *ssa.UnOp, processed func(ssa.Instruction) bool) bool {
	var okv, item ssa.Value
	for _, ref := range *rv.Referrers() {
		if e, ok := ref.(*ssa.Extract); ok {
			if e.Index == 1 {
				okv = e
			} else {
				item = e
			}
		}
	}
	if okv == nil {
		return false
	}
	var skip []Edge
	instrsOf(fn, func(in ssa.Instruction) {
		if l, ok := in.(*ssa.Lookup); ok && l.CommaOk && item != nil && sameVal(l.Index, item) {
			if visitedSetIsLocal(fn, l.X) {
				for _, ref := range *l.Referrers() {
					if e, ok := ref.(*ssa.Extract); ok && e.Index == 1 {
						skip = append(skip, trueEdges(fn, e)...)
					}
				}
			}
		}
	})
	bad := 0
	for _, te := range trueEdges(fn, okv) {
		walkFrom(nil, te.To(), edgeSet(skip), func(x ssa.Instruction) bool {
			if processed(x) {
				return true
			}
			if _, ok := x.(*ssa.Return); ok {
				return true
			}
			if x == ssa.Instruction(rv) {
				bad++
				return true
			}
			return false
		})
	}
	return bad == 0
}

// helperSavesKey: c calls a repo helper with the save callback and the ranged key among its arguments, and every
// path through the helper to a return calls that callback parameter with that key parameter first.
func helperSavesKey(c *ssa.Call, cb, key ssa.Value, depth int) bool {
	h := c.Call.StaticCallee()
	if h == nil || !isRepoFunc(h) || len(h.Blocks) == 0 || depth > 3 {
		return false
	}
	ci, ki := -1, -1
	for i, a := range c.Call.Args {
		if a == cb {
			ci = i
		}
		if sameVal(a, key) {
			ki = i
		}
	}
	if ci < 0 || ki < 0 || ci >= len(h.Params) || ki >= len(h.Params) {
		return false
	}
	missed := 0
	walkFrom(nil, h.Blocks[0], nil, func(x ssa.Instruction) bool {
		if hc, ok := x.(*ssa.Call); ok {
			if hc.Call.Value == ssa.Value(h.Params[ci]) && len(hc.Call.Args) > 0 && sameVal(hc.Call.Args[0], h.Params[ki]) {
				return true
			}
			if helperSavesKey(hc, h.Params[ci], h.Params[ki], depth+1) {
				return true
			}
		}
		if _, ok := x.(*ssa.Return); ok {
			missed++
			return true
		}
		return false
	})
	return missed == 0
}

// checkpointWritesEveryAddress: shared by C07 (truncation is transparent) and C06 (a balance is the checkpoint plus the
// live flows: a stale checkpoint record of a drained wallet is reported as money it no longer has).
func checkpointWritesEveryAddress(w *World, r *Report, rule string) {
	r.rule(rule, "saveToStorage writes a record for every address of the funds map: no iteration skips the write (a skipped write leaves the previous checkpoint's stale record in place)", 1)
	if sf := w.fx(r, "accountant", "fundsMemMap", "saveToStorage"); sf != nil {
		sfn := sf.fn
		var next *ssa.Next
		instrsOf(sfn, func(in ssa.Instruction) {
			if n, ok := in.(*ssa.Next); ok {
				if rg, ok := n.Iter.(*ssa.Range); ok && strings.HasSuffix(pathOf(rg.X), ".m") {
					next = n
				}
			}
		})
		if next == nil {
			r.bad(rule, "saveToStorage/range", w.Pos(sfn.Pos()), "range over the funds map", "not found")
		} else {
			var okv, key ssa.Value
			for _, ref := range *next.Referrers() {
				if e, ok := ref.(*ssa.Extract); ok {
					switch e.Index {
					case 0:
						okv = e
					case 1:
						key = e
					}
				}
			}
			skipped := 0
			if okv != nil {
				for _, te := range trueEdges(sfn, okv) {
					walkFrom(nil, te.To(), nil, func(x ssa.Instruction) bool {
						if c, ok := x.(*ssa.Call); ok && c.Call.Value == ssa.Value(sfn.Params[1]) { // the save callback
							if key != nil && len(c.Call.Args) > 0 && sameVal(c.Call.Args[0], key) {
								return true
							}
						}
						if c, ok := x.(*ssa.Call); ok && key != nil && helperSavesKey(c, sfn.Params[1], key, 0) {
							return true // a helper that is handed the callback and the key and calls one with the other on every path
						}
						if _, ok := x.(*ssa.Return); ok {
							return true
						}
						if x == ssa.Instruction(next) {
							skipped++
							return true
						}
						return false
					})
				}
			}
			r.check(okv != nil && skipped == 0, rule, "saveToStorage/every-address", lineOf(w, next), "every ranged address reaches the save callback with its own key", fmt.Sprintf("%d ways to the next iteration without writing", skipped))
		}
	}
}

// ---------------------------------------------------------------------------------------------
// checkpoint record keys

// capturedValue: the single value a captured variable holds (stored once into the cell the closure captured).
func capturedValue(fv *ssa.FreeVar) ssa.Value {
	fn := fv.Parent()
	par := fn.Parent()
	if par == nil {
		return nil
	}
	idx := -1
	for i, f := range fn.FreeVars {
		if f == fv {
			idx = i
		}
	}
	var bound ssa.Value
	instrsOf(par, func(in ssa.Instruction) {
		if mc, ok := in.(*ssa.MakeClosure); ok && mc.Fn == ssa.Value(fn) && idx >= 0 && idx < len(mc.Bindings) {
			bound = mc.Bindings[idx]
		}
	})
	switch b := bound.(type) {
	case *ssa.Alloc:
		if storeCount(b) != 1 {
			return nil
		}
		for _, ref := range *b.Referrers() {
			if st, ok := ref.(*ssa.Store); ok && st.Addr == ssa.Value(b) {
				return st.Val
			}
		}
	case *ssa.FreeVar:
		return capturedValue(b)
	case *ssa.MakeClosure:
		return b
	}
	return nil
}

// calleeOf: the function a call runs — its static callee, or the function literal behind a local function value
// (a literal called directly, through the variable it was assigned to once, or through a variable captured by
// another literal).
func calleeOf(c ssa.CallInstruction) *ssa.Function {
	if cal := c.Common().StaticCallee(); cal != nil {
		return cal
	}
	if c.Common().IsInvoke() {
		return nil
	}
	var resolve func(v ssa.Value, d int) *ssa.Function
	resolve = func(v ssa.Value, d int) *ssa.Function {
		if d > 4 || v == nil {
			return nil
		}
		switch x := v.(type) {
		case *ssa.MakeClosure:
			if f, ok := x.Fn.(*ssa.Function); ok {
				return f
			}
		case *ssa.FreeVar:
			return resolve(capturedValue(x), d+1)
		case *ssa.UnOp:
			if al, ok := x.X.(*ssa.Alloc); ok && x.Op == token.MUL && storeCount(al) == 1 {
				for _, ref := range *al.Referrers() {
					if st, ok := ref.(*ssa.Store); ok && st.Addr == ssa.Value(al) {
						return resolve(st.Val, d+1)
					}
				}
			}
			if fv, ok := x.X.(*ssa.FreeVar); ok && x.Op == token.MUL {
				return resolve(capturedValue(fv), d+1)
			}
		}
		return nil
	}
	return resolve(c.Common().Value, 0)
}

// shapeChain: the call sites through which the helper that holds the value under examination was reached.
var shapeChain []ssa.CallInstruction

// keyShape prints how v is computed from the leaf for which isLeaf holds ("$"): conversions, concatenations, calls.
func keyShape(v ssa.Value, isLeaf func(ssa.Value) bool, d int) string {
	if d > 12 || v == nil {
		return "?"
	}
	if isLeaf(v) {
		return "$"
	}
	switch x := v.(type) {
	case *ssa.Parameter:
		// inside a helper reached through shapeChain: the argument passed for the parameter
		for i := len(shapeChain) - 1; i >= 0; i-- {
			cs := shapeChain[i]
			if cal := cs.Common().StaticCallee(); cal != nil && cal == x.Parent() {
				for k, p := range cal.Params {
					if p == x && k < len(cs.Common().Args) {
						return keyShape(cs.Common().Args[k], isLeaf, d+1)
					}
				}
			}
		}
		return "?" + x.Name()
	case *ssa.ChangeType:
		return keyShape(x.X, isLeaf, d+1)
	case *ssa.Convert:
		return keyShape(x.X, isLeaf, d+1) // []byte(s) / string(b): the same bytes
	case *ssa.MakeInterface:
		return keyShape(x.X, isLeaf, d+1)
	case *ssa.UnOp:
		if x.Op == token.MUL {
			switch c := x.X.(type) {
			case *ssa.FreeVar:
				if cv := capturedValue(c); cv != nil {
					return keyShape(cv, isLeaf, d+1)
				}
			case *ssa.Alloc:
				if storeCount(c) == 1 {
					for _, ref := range *c.Referrers() {
						if st, ok := ref.(*ssa.Store); ok && st.Addr == ssa.Value(c) {
							return keyShape(st.Val, isLeaf, d+1)
						}
					}
				}
			}
		}
		return "?" + x.Name()
	case *ssa.Const:
		if x.Value == nil {
			return "nil"
		}
		return "k" + x.Value.ExactString()
	case *ssa.BinOp:
		return "(" + keyShape(x.X, isLeaf, d+1) + x.Op.String() + keyShape(x.Y, isLeaf, d+1) + ")"
	case *ssa.Slice:
		if al, ok := x.X.(*ssa.Alloc); ok && !isSourceVar(al) {
			// the argument list of a variadic call / a slice literal: its elements
			var parts []string
			for _, ref := range *al.Referrers() {
				if ia, ok := ref.(*ssa.IndexAddr); ok {
					for _, r2 := range *ia.Referrers() {
						if st, ok := r2.(*ssa.Store); ok && st.Addr == ssa.Value(ia) {
							parts = append(parts, keyShape(st.Val, isLeaf, d+1))
						}
					}
				}
			}
			return "[" + strings.Join(parts, ",") + "]"
		}
		s := "slice(" + keyShape(x.X, isLeaf, d+1)
		for _, b := range []ssa.Value{x.Low, x.High} {
			if b == nil {
				s += ",_"
			} else {
				s += "," + keyShape(b, isLeaf, d+1)
			}
		}
		return s + ")"
	case *ssa.Call:
		// a repo helper with one return statement is seen through: its result in terms of its parameters
		if cal := x.Call.StaticCallee(); cal != nil && isRepoFunc(cal) && len(cal.Blocks) > 0 && d < 8 {
			if rets := returnsOf(cal); len(rets) == 1 && len(rets[0].Results) == 1 {
				inner := keyShapeP(rets[0].Results[0], cal, d+1)
				if !strings.Contains(inner, "?") {
					for k := len(cal.Params) - 1; k >= 0; k-- {
						if k < len(x.Call.Args) && strings.Contains(inner, fmt.Sprintf("$%d;", k)) {
							inner = strings.ReplaceAll(inner, fmt.Sprintf("$%d;", k), keyShape(x.Call.Args[k], isLeaf, d+1))
						}
					}
					return inner
				}
			}
		}
		n := calleeName(x)
		if i := strings.LastIndex(n, "/"); i >= 0 {
			n = n[i+1:]
		}
		s := n + "("
		for i, a := range x.Call.Args {
			if i > 0 {
				s += ","
			}
			s += keyShape(a, isLeaf, d+1)
		}
		return s + ")"
	}
	return "?" + v.Name()
}

// keyShapeP: shape of v inside helper h with the helper's parameters as numbered leaves ("$0;", "$1;", …).
func keyShapeP(v ssa.Value, h *ssa.Function, d int) string {
	if d > 12 || v == nil {
		return "?"
	}
	for k, p := range h.Params {
		if v == ssa.Value(p) {
			return fmt.Sprintf("$%d;", k)
		}
	}
	switch x := v.(type) {
	case *ssa.ChangeType:
		return keyShapeP(x.X, h, d+1)
	case *ssa.Convert:
		return keyShapeP(x.X, h, d+1)
	case *ssa.Const:
		if x.Value == nil {
			return "nil"
		}
		return "k" + x.Value.ExactString()
	case *ssa.BinOp:
		return "(" + keyShapeP(x.X, h, d+1) + x.Op.String() + keyShapeP(x.Y, h, d+1) + ")"
	case *ssa.Call:
		if b, ok := x.Call.Value.(*ssa.Builtin); ok && b.Name() == "append" && len(x.Call.Args) == 2 {
			return "(" + keyShapeP(x.Call.Args[0], h, d+1) + "+" + keyShapeP(x.Call.Args[1], h, d+1) + ")"
		}
	}
	return "?" + v.Name()
}

// checkpointKeyDiscipline: the checkpoint records of the funds are written, read back and enumerated under the same
// key, and the enumeration tells them apart from the vertex records that live in the same store.
func checkpointKeyDiscipline(w *World, r *Report, rule string) {
	r.rule(rule, "checkpointed funds are written (saveFundsToStorage), read (readAddressFundsFromStorage) and enumerated (forEachfundFromStorage) under one key form of the address — the enumeration hands back the inverse of what the writer applied — and the enumeration skips the vertex records kept in the same store (keys of the vertex-hash length)", 3)
	save := w.fx(r, "accountant", "AccountingBook", "saveFundsToStorage")
	read := w.fx(r, "accountant", "AccountingBook", "readAddressFundsFromStorage")
	each := w.fx(r, "accountant", "AccountingBook", "forEachfundFromStorage")
	if save == nil || read == nil || each == nil {
		return
	}
	paramLeaf := func(p *ssa.Parameter) func(ssa.Value) bool {
		return func(v ssa.Value) bool { return v == ssa.Value(p) }
	}
	// writer: the key of every entry written
	var wShapes []string
	for _, d := range deepCalls(save.fn, byName("(*"+badgerPkg+".Txn).SetEntry", "(*"+badgerPkg+".Txn).Set"), deepDepth) {
		_, a := callArgs(d.c)
		if len(a) == 0 {
			continue
		}
		key := a[0]
		if ne, ok := strip(a[0]).(*ssa.Call); ok && strings.HasSuffix(calleeName(ne), ".NewEntry") {
			key = ne.Call.Args[0]
		}
		shapeChain = d.chain
		wShapes = append(wShapes, keyShape(key, paramLeaf(save.fn.Params[1]), 0))
		shapeChain = nil
	}
	var rShapes []string
	for _, d := range deepCalls(read.fn, byName("(*"+badgerPkg+".Txn).Get"), deepDepth) {
		_, a := callArgs(d.c)
		shapeChain = d.chain
		rShapes = append(rShapes, keyShape(a[0], paramLeaf(read.fn.Params[1]), 0))
		shapeChain = nil
	}
	okWR := len(wShapes) > 0 && len(rShapes) > 0
	for _, s := range append(append([]string{}, wShapes...), rShapes...) {
		if len(wShapes) == 0 || s != wShapes[0] || strings.Contains(s, "?") {
			okWR = false
		}
	}
	r.check(okWR, rule, "save/read-key", w.Pos(save.fn.Pos()), "writer and reader derive the record key from the address in the same way", fmt.Sprintf("written under %v, read under %v", wShapes, rShapes))
	// enumeration: what the callback receives, in terms of the item key
	isItemKey := func(v ssa.Value) bool {
		c, ok := v.(*ssa.Call)
		if !ok {
			return false
		}
		n := calleeName(c)
		return strings.HasSuffix(n, ".Item).Key") || strings.HasSuffix(n, ".Item).KeyCopy")
	}
	var eShapes []string
	var setCalls []ssa.CallInstruction
	cb := each.fn.Params[1]
	for _, fn := range WithAnon(each.fn) {
		instrsOf(fn, func(in ssa.Instruction) {
			c, ok := in.(ssa.CallInstruction)
			if !ok || c.Common().IsInvoke() || c.Common().StaticCallee() != nil {
				return
			}
			// call of the callback parameter (possibly through the captured variable)
			cv := c.Common().Value
			isCb := cv == ssa.Value(cb)
			if ld, ok := cv.(*ssa.UnOp); ok && ld.Op == token.MUL {
				if fv, ok := ld.X.(*ssa.FreeVar); ok && capturedValue(fv) == ssa.Value(cb) {
					isCb = true
				}
			}
			if fv, ok := cv.(*ssa.FreeVar); ok && capturedValue(fv) == ssa.Value(cb) {
				isCb = true
			}
			if !isCb || len(c.Common().Args) == 0 {
				return
			}
			setCalls = append(setCalls, c)
			eShapes = append(eShapes, keyShape(c.Common().Args[0], isItemKey, 0))
		})
	}
	okE := len(eShapes) > 0 && len(wShapes) > 0
	why := fmt.Sprintf("written under %v, enumerated as %v", wShapes, eShapes)
	for _, s := range eShapes {
		if strings.Contains(s, "?") {
			okE = false
		}
		if len(wShapes) > 0 && (wShapes[0] == "$") != (s == "$") {
			okE = false // identity on one side only: the enumerated name is not the address the record was written for
		}
	}
	r.check(okE, rule, "enumerate-key", w.Pos(each.fn.Pos()), "the enumeration hands the callback the address the record was written for", why)
	// vertex records of the same store are not taken for funds
	sv := w.fx(r, "accountant", "AccountingBook", "saveVertexToStorage")
	if sv == nil {
		return
	}
	dbOf := func(fn *ssa.Function) string {
		db := ""
		for _, f := range WithAnon(fn) {
			for _, c := range callsTo(f, "(*"+badgerPkg+".DB).Update", "(*"+badgerPkg+".DB).View") {
				recv, _ := callArgs(c)
				db = pathOf(recv)
			}
		}
		if i := strings.LastIndex(db, "."); i >= 0 {
			db = db[i+1:]
		}
		return db
	}
	if dbOf(sv.fn) == "" || dbOf(sv.fn) != dbOf(save.fn) {
		r.ok(rule, "records-told-apart", w.Pos(each.fn.Pos()), "vertex records and funds records live in different stores")
		return
	}
	// length of a vertex key
	var vlen int64 = -1
	for _, d := range deepCalls(sv.fn, byName(badgerPkg+".NewEntry"), deepDepth) {
		kv := d.argValue(strip(d.c.Common().Args[0]))
		for i := 0; i < 4; i++ { // a helper may take the key as a string: string(hash[:])
			if cv, ok := kv.(*ssa.Convert); ok {
				kv = d.argValue(strip(cv.X))
				continue
			}
			// a key helper that hands its argument back (vertexKey(hash) returns hash): the argument
			if hc, ok := strip(kv).(*ssa.Call); ok {
				if cal := hc.Call.StaticCallee(); cal != nil && isRepoFunc(cal) && len(cal.Blocks) > 0 {
					if rets := returnsOf(cal); len(rets) == 1 && len(rets[0].Results) == 1 {
						if prm, isPrm := strip(rets[0].Results[0]).(*ssa.Parameter); isPrm {
							moved := false
							for k, p2 := range cal.Params {
								if p2 == prm && k < len(hc.Call.Args) {
									kv = d.argValue(strip(hc.Call.Args[k]))
									moved = true
								}
							}
							if moved {
								continue
							}
						}
					}
				}
			}
			break
		}
		if sl, ok := strip(kv).(*ssa.Slice); ok {
			if pt, ok := sl.X.Type().Underlying().(*types.Pointer); ok {
				if at, ok := pt.Elem().Underlying().(*types.Array); ok {
					vlen = at.Len()
				}
			}
		}
	}
	// a prefix scan with a non-empty prefix separates the record kinds by construction
	prefixed := false
	for _, f := range WithAnon(each.fn) {
		for _, c := range callsTo(f, "(*"+badgerPkg+".Iterator).ValidForPrefix") {
			_, a := callArgs(c)
			if len(a) > 0 && !isNilConst(a[0]) {
				prefixed = true
			}
		}
	}
	told := prefixed
	whyT := fmt.Sprintf("no test of the key length against %d separates vertex records from funds records in the full scan", vlen)
	if !told && vlen > 0 {
		for _, f := range WithAnon(each.fn) {
			for _, b := range f.Blocks {
				for i := range b.Succs {
					e := Edge{b, i}
					for _, ft := range edgeFacts(e) {
						if ft.kind != fEq {
							continue
						}
						x, y := ft.x, ft.y
						if k, isK := intConst(x); isK && k == vlen {
							x, y = y, x
						}
						k, isK := intConst(y)
						if !isK || k != vlen {
							continue
						}
						lc, ok := x.(*ssa.Call)
						if !ok {
							continue
						}
						if bi, ok := lc.Call.Value.(*ssa.Builtin); !ok || bi.Name() != "len" || keyShape(lc.Call.Args[0], isItemKey, 0) != "$" {
							continue
						}
						// from the edge "this is a vertex key" no callback call (nor the Value call that hosts it) before the next item
						reached := false
						walkFrom(nil, e.To(), nil, func(in ssa.Instruction) bool {
							if c, ok := in.(ssa.CallInstruction); ok {
								n := calleeName(c)
								if strings.HasSuffix(n, ".Iterator).Next") {
									return true
								}
								if strings.HasSuffix(n, ".Item).Value") || strings.HasSuffix(n, ".Item).ValueCopy") {
									reached = true
								}
								for _, sc := range setCalls {
									if sc == c {
										reached = true
									}
								}
							}
							return reached
						})
						if !reached {
							told = true
						} else {
							whyT = "a key of the vertex-hash length still reaches the funds callback"
						}
					}
				}
			}
		}
	}
	r.check(told, rule, "records-told-apart", w.Pos(each.fn.Pos()), "the funds enumeration skips the vertex records of the shared store", whyT)
}

// visitedSetIsLocal: the map a walk's skip test looks into belongs to this operation — made in this function, or handed
// to this (unexported) per-item helper by callers that all pass a map they made themselves.
func visitedSetIsLocal(fn *ssa.Function, m ssa.Value) bool {
	if _, ok := strip(m).(*ssa.MakeMap); ok {
		return true
	}
	// a set made by the enclosing function and captured by this literal (the loop body turned into a closure)
	cv := strip(m)
	if ld, ok := cv.(*ssa.UnOp); ok {
		if fv, ok := ld.X.(*ssa.FreeVar); ok {
			cv = capturedValue(fv)
		}
	}
	if fv, ok := cv.(*ssa.FreeVar); ok {
		cv = capturedValue(fv)
	}
	if cv != nil {
		if _, ok := strip(cv).(*ssa.MakeMap); ok {
			return true
		}
	}
	prm, isPrm := strip(m).(*ssa.Parameter)
	if !isPrm || curWorld == nil {
		return false
	}
	callers := staticCallers(curWorld, fn)
	if len(callers) == 0 {
		return false
	}
	for _, cs := range callers {
		okArg := false
		for k, p := range fn.Params {
			if p == prm && k < len(cs.Common().Args) {
				_, okArg = strip(cs.Common().Args[k]).(*ssa.MakeMap)
			}
		}
		if !okArg {
			return false
		}
	}
	return true
}

// checkpointCountsWhatBalanceCounts: the checkpoint writer and the live accounting agree on which vertices carry funds.
// pourFunds leaves a vertex out only when its transaction is not a spice transfer; fundsMemMap.nextVertex, which folds
// the vertices that truncation removes into the checkpoint, may leave a vertex out for that reason only (a vertex that
// the balance counts while it is live and the checkpoint skips when it is pruned changes every balance it touches).
func checkpointCountsWhatBalanceCounts(w *World, r *Report, rule string) {
	r.rule(rule, "fundsMemMap.nextVertex returns without accounting the vertex only behind IsSpiceTransfer() == false of that vertex's transaction — the one exemption pourFunds has", 1)
	f := w.fx(r, "accountant", "fundsMemMap", "nextVertex")
	if f == nil {
		return
	}
	fn := f.fn
	v := fn.Params[1].Name()
	var notTransfer []Edge
	for _, c := range callsTo(fn, cn("transaction", "*Transaction", "IsSpiceTransfer"), cn("transaction", "Transaction", "IsSpiceTransfer")) {
		recv, _ := callArgs(c)
		if strings.HasPrefix(pathOf(recv), v+".Transaction") || pathOf(recv) == v+".Transaction" {
			notTransfer = append(notTransfer, passBool(c, 0, false)...)
		}
	}
	upd := func(in ssa.Instruction) bool {
		c, ok := in.(ssa.CallInstruction)
		if !ok || !strings.HasSuffix(calleeName(c), "fundsMemMap).updateFounds") {
			return false
		}
		_, a := callArgs(c)
		return len(a) == 3 && strings.HasPrefix(pathOf(a[2]), v+".Transaction.Spice")
	}
	skipped := 0
	where := ""
	walkFrom(nil, fn.Blocks[0], edgeSet(notTransfer), func(in ssa.Instruction) bool {
		if upd(in) {
			return true
		}
		if ret, ok := in.(*ssa.Return); ok {
			if successReturn(ret) {
				skipped++
				where = lineOf(w, ret)
			}
			return true
		}
		return false
	})
	r.check(len(notTransfer) > 0 && skipped == 0, rule, "nextVertex/only-non-transfers-skipped", w.Pos(fn.Pos()), "a vertex is left out of the checkpoint only when its transaction is not a spice transfer", fmt.Sprintf("%d successful returns (e.g. %s) are reachable without updateFounds and without the IsSpiceTransfer() == false edge; non-transfer edges found: %d", skipped, where, len(notTransfer)))
}

// drainSinkPrivate: the sink handed to Drain / the receiving side of Transfer in ledger accounting belongs to that one
// computation: not package-level state, and inside a loop not a variable that outlives the iteration (Transfer refuses
// with an overflow error when sink + amount does not fit — a sink that accumulates makes a later Drain fail or, where
// its error is dropped, leaves the gross inflow standing).
func drainSinkPrivate(w *World, r *Report, rule string) {
	r.rule(rule, "the sink handed to Drain / the receiver side of Transfer in ledger accounting is storage of that computation (a fresh value or a local of the iteration), never package-level state or a variable shared by the iterations of a loop: a shared sink accumulates and makes in − out depend on history", 2)
	for _, fn := range w.RepoFuncs("accountant") {
		for _, c := range callsTo(fn, nDrain, nTransfer) {
			_, a := callArgs(c)
			sink := a[len(a)-1]
			shared := ""
			var chase func(v ssa.Value, d int)
			chase = func(v ssa.Value, d int) {
				if d > 6 || shared != "" {
					return
				}
				switch x := v.(type) {
				case *ssa.Global:
					shared = "the package-level variable " + x.Name()
				case *ssa.Alloc:
					cb := c.(ssa.Instruction).Block()
					if onCycleWith(cb, cb) && !onCycleWith(x.Block(), cb) {
						shared = "the variable " + x.Comment + ", declared outside the loop that drains into it"
					}
				case *ssa.UnOp:
					chase(x.X, d+1)
				case *ssa.FieldAddr:
					chase(x.X, d+1)
				case *ssa.Phi:
					for _, e := range x.Edges {
						chase(e, d+1)
					}
				}
			}
			chase(sink, 0)
			r.check(shared == "", rule, strings.TrimPrefix(shortFn(fn), "(*accountant.")+"/"+shortCallee(c), lineOf(w, c), "the sink is not shared between computations", "the sink is "+shared)
		}
	}
}

// carryThresholdInclusive: a supplementary part of exactly 10^18 is one whole unit: every comparison of a quantity with
// the constant 10^18 in the spice arithmetic splits at "< 10^18" / ">= 10^18" (a strict "> 10^18" leaves 10^18 itself
// un-carried: the sum of 0.5 and 0.5 stays (0, 10^18) instead of (1, 0)).
func carryThresholdInclusive(w *World, r *Report, rule string) {
	r.rule(rule, "every comparison with the constant 10^18 in package spice is `x >= 10^18` or `x < 10^18` (never `>` or `<=`): the value 10^18 itself belongs to the carry side", 3)
	sp := w.Pkg("spice")
	if sp == nil {
		return
	}
	var K int64
	if c, ok := sp.Pkg.Scope().Lookup("MaxAmountPerSupplementaryCurrency").(*types.Const); ok {
		K, _ = constant.Int64Val(c.Val())
	}
	n := 0
	for _, fn := range w.RepoFuncs("spice") {
		instrsOf(fn, func(in ssa.Instruction) {
			bo, ok := in.(*ssa.BinOp)
			if !ok {
				return
			}
			kx, isKx := intConst(bo.X)
			ky, isKy := intConst(bo.Y)
			op := bo.Op
			switch {
			case isKy && ky == K:
			case isKx && kx == K: // mirror: K ? x  ==  x ?' K
				switch op {
				case token.LSS:
					op = token.GTR
				case token.GTR:
					op = token.LSS
				case token.LEQ:
					op = token.GEQ
				case token.GEQ:
					op = token.LEQ
				}
			default:
				return
			}
			switch op {
			case token.GEQ, token.LSS:
				n++
				r.ok(rule, fmt.Sprintf("%s/%s#%d", shortFn(fn), op, n), lineOf(w, bo), "the split is at >= 10^18")
			case token.GTR, token.LEQ:
				n++
				r.bad(rule, fmt.Sprintf("%s/%s#%d", shortFn(fn), op, n), lineOf(w, bo), "10^18 itself is on the carry side", fmt.Sprintf("%s compares with 10^18 using %s: a supplementary part of exactly 10^18 is not carried into the currency", shortFn(fn), op))
			}
		})
	}
}

// foldOnlyAdds: the fold of a truncation visits the vertices newest first (a breadth-first walk from the cut): what it keeps
// per wallet must not depend on that order. Supply commutes; Drain and Transfer are all-or-nothing on the running value — a
// spend that is seen before the funding that paid for it fails and is lost, the receiver is credited all the same.
func foldOnlyAdds(w *World, r *Report, rule string) {
	r.rule(rule, "what the save walk of a truncation does per vertex (fundsMemMap.nextVertex and what it calls) only ever adds with Supply; the one subtraction of a truncation (in.Drain(out)) happens once per wallet after the walk, in saveToStorage — the folded result is independent of the order in which the walk delivers the vertices", 1)
	nv := w.Func("accountant", "fundsMemMap", "nextVertex")
	if nv == nil || len(nv.Blocks) == 0 {
		r.bad(rule, "fundsMemMap.nextVertex", "-", "the per-vertex fold is identifiable", "fundsMemMap.nextVertex not found")
		return
	}
	bad := ""
	for _, d := range deepCalls(nv, byName(nDrain, nTransfer), 3) {
		bad += fmt.Sprintf(" %s is called in %s at %s for every folded vertex;", shortCallee(d.c), shortFn(d.c.Parent()), lineOf(w, d.c))
	}
	adds := deepCalls(nv, byName(nSupply), 3)
	if bad != "" {
		bad += " the walk delivers a wallet's spend before the funding that paid for it: the failed subtraction is lost"
	}
	r.check(bad == "" && len(adds) > 0, rule, "fundsMemMap.nextVertex/mutators", w.Pos(nv.Pos()), fmt.Sprintf("the per-vertex fold adds (%d Supply calls) and never subtracts", len(adds)), bad)
}

// canonicalAtEntry: amounts that are not canonical never enter the ledger — the sums of the funds validation (C01) and
// of the balance are Supply chains, which are exact on canonical amounts only (shared by C01 and C05).
func canonicalAtEntry(w *World, r *Report) {
	K := int64(0)
	if c, ok := w.Pkg("spice").Pkg.Scope().Lookup("MaxAmountPerSupplementaryCurrency").(*types.Const); ok {
		K, _ = constant.Int64Val(c.Val())
	}
	// ---- 2. canonical amounts only
	r.rule("canonicality-predicate", "a predicate exists whose result is decided by SupplementaryCurrency < 10^18", 1)
	var preds []string
	for _, fn := range w.RepoFuncs("spice") {
		if fn.Parent() != nil || fn.Signature.Results().Len() != 1 {
			continue
		}
		if b, ok := fn.Signature.Results().At(0).Type().Underlying().(*types.Basic); !ok || b.Kind() != types.Bool {
			continue
		}
		rets := returnsOf(fn)
		if len(rets) != 1 {
			continue
		}
		bo, ok := rets[0].Results[0].(*ssa.BinOp)
		if !ok || bo.Op != token.LSS {
			continue
		}
		k, isK := intConst(bo.Y)
		if !isK || k != K || !strings.HasSuffix(pathOf(bo.X), ".SupplementaryCurrency") {
			continue
		}
		preds = append(preds, refFuncFullName(fn.Object().(*types.Func)))
		r.ok("canonicality-predicate", shortFn(fn), w.Pos(fn.Pos()), "true ⇔ supplementary < 10^18")
	}
	if len(preds) == 0 {
		r.bad("canonicality-predicate", "spice", "-", "no function in package spice decides canonicality", "none found")
	}
	canon := func(recv string) gspec {
		return func(fn *ssa.Function, res resolver) []Edge {
			var es []Edge
			for _, c := range callsTo(fn, preds...) {
				rv, _ := callArgs(c)
				if rv != nil && res(rv) == recv {
					es = append(es, passBool(c, 0, true)...)
				}
			}
			return es
		}
	}
	r.rule("canonical-at-entry", "every admission entry inserts (or hands to the admission path) only behind the pass edge of the canonicality predicate on the admitted amount", 4)
	for _, row := range []struct{ fn, effect, amount string }{
		{"CreateLeaf", nAddVertexByID, "$2.Spice"},
		{"AddLeaf", cn("accountant", "*AccountingBook", "addLeafMemorized"), "$2.Transaction.Spice"},
		{"LoadDag", nAddVertexByID, "@vertex.Transaction.Spice"},
		{"CreateGenesis", nAddVertexByID, "$2"},
	} {
		f := w.fx(r, "accountant", "AccountingBook", row.fn)
		if f == nil {
			continue
		}
		effs := deepCalls(f.fn, byName(row.effect), deepDepth)
		if len(effs) == 0 {
			r.bad("canonical-at-entry", row.fn+"/effect", w.Pos(f.fn.Pos()), "the admission entry inserts (or hands on) a vertex", "no call of "+row.effect)
		}
		for _, ed := range effs {
			eff := ed.c
			amount := row.amount
			if strings.HasPrefix(amount, "$2") {
				amount = f.fn.Params[2].Name() + strings.TrimPrefix(amount, "$2")
			}
			if strings.HasPrefix(amount, "@vertex") {
				_, a := callArgs(eff)
				amount = ed.path(a[1]) + strings.TrimPrefix(amount, "@vertex")
			}
			ok := behindDeepSite(ed, canon(amount))
			extra := ""
			if row.fn == "CreateGenesis" {
				// the checked amount is the one that goes into the genesis transaction
				bound := false
				for _, d := range deepCalls(f.fn, byName(cn("transaction", "", "New")), 1) {
					_, a := callArgs(d.c)
					if d.path(a[1]) == amount {
						bound = true
					}
				}
				ok = ok && bound
				extra = fmt.Sprintf(" (amount passed to transaction.New: %v)", bound)
			}
			r.check(ok, "canonical-at-entry", row.fn+"/"+amount, lineOf(w, eff), shortCallee(eff)+" only behind IsCanonical("+amount+") == true", "admission reachable without the canonicality test"+extra)
		}
	}
	// the mappers copy raw values: the guard above is the only barrier (informational)
	r.Extra["canonicality_predicates"] = preds
}

// foldsReadPartiesAndAmountOnly: what a vertex contributes to a balance is decided by who issued, who received and how much —
// the live fold (pourFunds) and the checkpoint fold (fundsMemMap.nextVertex) read nothing else of the vertex. A fold that
// also looks at the data, a signature, the time … counts vertices the other fold does not (or the other way round), and
// the same ledger gives different balances before and after a truncation.
func foldsReadPartiesAndAmountOnly(w *World, r *Report, rule string) {
	r.rule(rule, "pourFunds and fundsMemMap.nextVertex, with everything of the repository they call outside package spice, read of accountant.Vertex only .Transaction and of transaction.Transaction only .IssuerAddress, .ReceiverAddress and .Spice: the contribution of a vertex to a balance depends on the parties and the amount alone, in both folds alike", 2)
	for _, spec := range [][3]string{{"accountant", "", "pourFunds"}, {"accountant", "fundsMemMap", "nextVertex"}} {
		pf := w.Func(spec[0], spec[1], spec[2])
		if pf == nil {
			r.bad(rule, spec[2], "-", "the fold must resolve", "not found")
			continue
		}
		other := ""
		seenFn := map[*ssa.Function]bool{}
		var visit func(fn *ssa.Function, depth int)
		visit = func(fn *ssa.Function, depth int) {
			if fn == nil || seenFn[fn] || depth > 3 || len(fn.Blocks) == 0 {
				return
			}
			seenFn[fn] = true
			for _, g := range WithAnon(fn) {
				instrsOf(g, func(in ssa.Instruction) {
					var base ssa.Value
					var fname string
					switch x := in.(type) {
					case *ssa.Field:
						base, fname = x.X, fieldName(x.X.Type(), x.Field)
					case *ssa.FieldAddr:
						base, fname = x.X, fieldName(x.X.Type(), x.Field)
					case ssa.CallInstruction:
						if cal := x.Common().StaticCallee(); cal != nil && isRepoFunc(cal) && cal.Pkg != nil && cal.Pkg.Pkg.Name() != "spice" {
							visit(cal, depth+1)
						}
						return
					default:
						return
					}
					t := deref(base.Type()).String()
					switch {
					case strings.HasSuffix(t, "transaction.Transaction"):
						if fname != "IssuerAddress" && fname != "ReceiverAddress" && fname != "Spice" {
							other += " " + shortFn(g) + " reads Transaction." + fname + " at " + lineOf(w, in) + ";"
						}
					case strings.HasSuffix(t, "accountant.Vertex"):
						if fname != "Transaction" {
							other += " " + shortFn(g) + " reads Vertex." + fname + " at " + lineOf(w, in) + ";"
						}
					}
				})
			}
		}
		visit(pf, 0)
		r.check(other == "", rule, shortFn(pf), w.Pos(pf.Pos()), "the fold looks at the parties and the amount only", other)
	}
}

// errIndexOfSig: index of the (last) error result of a signature, -1 when there is none.
func errIndexOfSig(sig *types.Signature) int {
	for i := sig.Results().Len() - 1; i >= 0; i-- {
		if isErrorType(sig.Results().At(i).Type()) {
			return i
		}
	}
	return -1
}
