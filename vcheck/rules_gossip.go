package main

// C11 (gossip forwards only what was accepted, never to verified gossipers, only once) and
// C12 (gossiper lists cannot be forged) — structural parts, package gossip.

import (
	"fmt"
	"go/token"
	"go/types"
	"strings"

	"golang.org/x/tools/go/ssa"
)

func isSelfAddressCall(v ssa.Value) bool {
	c, ok := strip(v).(*ssa.Call)
	if !ok || !strings.HasSuffix(calleeName(c), ").Address") {
		return false
	}
	return strings.HasSuffix(pathOf(c.Call.Value), ".signer")
}

// lookupsOn returns comma-ok lookups in fn on map m with index matching pred, with absent / present edges.
func lookupEdges(fn *ssa.Function, m ssa.Value, idx func(ssa.Value) bool, present bool) []Edge {
	var es []Edge
	instrsOf(fn, func(in ssa.Instruction) {
		l, ok := in.(*ssa.Lookup)
		if !ok || !l.CommaOk || !sameVal(l.X, m) || !idx(l.Index) {
			return
		}
		for _, ref := range *l.Referrers() {
			if e, ok := ref.(*ssa.Extract); ok && e.Index == 1 {
				if present {
					es = append(es, trueEdges(fn, e)...)
				} else {
					es = append(es, falseEdges(fn, e)...)
				}
			}
		}
	})
	return es
}

func init() {
	register("C11", []string{"./gossip", "./cache", "./pipe"},
		"Structural half of 'gossip reaches every node exactly once and terminates': an incoming item is processed only behind the not-seen edge of the recent-hash memory and the not-listed edge of the VERIFIED gossiper set; "+
			"a vertex is forwarded only behind the success edge of the ledger admission (summarised through sendToAccountant → AddLeaf), a transaction only behind conversion and issuer-signature verification; "+
			"the node signs and inserts itself into the set and the outgoing list before forwarding; the forward loop skips every peer in the set and runs under the peer-table read lock; origin processes start with a list containing self. "+
			"Delivery to every node, exactly-once and termination over all delivery orders and topologies are model-checking questions and are NOT decided.",
		runC11)
	register("C12", []string{"./gossip", "./wallet"},
		"Structural necessary conditions of unforgeable gossiper lists: an entry enters the verified set only behind the success edge of Verify(address‖item-hash, signature, digest, address) with key, message address and verification address being the same path and the hash being the caller's; "+
			"call sites bind that hash to the item actually processed and forwarded; the raw list of a message is used only as the argument of verifyGossipers; every skip-self / skip-peer decision is a lookup in a map originating from verifyGossipers or from the node's own freshly signed entry.",
		runC12)
}

type gossipRow struct {
	handler  string // GossipVrx / GossipTrx
	item     string // "vg.Vertex" / "tg.Trx"
	listPath string // "vg.Gossipers"
	forward  string // gossipVertex / gossipTransaction
	msg      string // vg / tg
}

var gossipRows = []gossipRow{
	{"GossipVrx", "$msg.Vertex", "$msg.Gossipers", "gossipVertex", "$msg"},
	{"GossipTrx", "$msg.Trx", "$msg.Gossipers", "gossipTransaction", "$msg"},
}

// bound replaces the logical message name by the handler's actual request parameter.
func (g gossipRow) bound(fn *ssa.Function) gossipRow {
	if len(fn.Params) < 3 {
		return g
	}
	n := fn.Params[2].Name()
	g.item = strings.Replace(g.item, "$msg", n, 1)
	g.listPath = strings.Replace(g.listPath, "$msg", n, 1)
	g.msg = strings.Replace(g.msg, "$msg", n, 1)
	return g
}

// verifiedSet finds set := g.verifyGossipers(hash(item), list) in fn.
func verifiedSet(fn *ssa.Function, row gossipRow) (*ssa.Call, string) {
	for _, c := range callsTo(fn, cn("gossip", "*gossiper", "verifyGossipers")) {
		_, a := callArgs(c)
		if pathOf(a[0]) == row.item+".Hash" && pathOf(a[1]) == row.listPath {
			return c.(*ssa.Call), ""
		}
		return nil, fmt.Sprintf("verifyGossipers called with (%s, %s)", pathOf(a[0]), pathOf(a[1]))
	}
	return nil, "no verifyGossipers call"
}

func runC11(w *World, r *Report) {
	r.NotDecided = []string{"delivery to every node of a connected topology", "exactly-once admission and termination over all delivery orders", "that HasHash marks an item seen before the ledger accepted it (a vertex first received before its parents is never forwarded by that node later) — topology dependent"}
	li := ComputeLocks(w, func(fn *ssa.Function) bool { return fn.Pkg != nil && fn.Pkg.Pkg.Path() == modPath+"/gossip" })

	handOverIsLossless(w, r, "hand-over-to-the-origin-loop-waits")
	wireGateRefusesOnlyTheUnconvertible(w, r, "wire-gate-refuses-only-the-unconvertible")
	r.rule("process-once", "an incoming item is processed (ledger / cache / forward) only behind HasHash(item.Hash) == false and self ∉ verified set", 6)
	r.rule("forward-after-accept", "forwarding lies behind the success edge of acceptance and after the node put itself into the set and the outgoing list", 6)
	for _, row := range gossipRows {
		f := w.fx(r, "gossip", "gossiper", row.handler)
		if f == nil {
			continue
		}
		fn := f.fn
		row = row.bound(fn)
		set, why := verifiedSet(fn, row)
		if set == nil {
			r.bad("process-once", row.handler+"/verified-set", w.Pos(fn.Pos()), "the verified gossiper set of the processed item must exist", why)
			continue
		}
		curBinder = nil
		setPath := pathOf(set)
		notSeen := callSpec(").HasHash", "false", argPathsR(row.item+".Hash"))
		notListed := func(fn2 *ssa.Function, _ resolver) []Edge { // the verified set is a value of the handler: decided there
			if fn2 != fn {
				return nil
			}
			return lookupEdges(fn, set, isSelfAddressCall, false)
		}
		ownCalls := func(suf string) []dcall { // calls of the handler itself or of helpers it calls (not of its function literals)
			var out []dcall
			for _, d := range deepCalls(fn, bySuffix(suf), deepDepth) {
				if len(d.chain) == 0 && d.c.Parent() != fn {
					continue
				}
				out = append(out, d)
			}
			return out
		}
		var effects []dcall
		for _, suf := range []string{".sendToAccountant", ").SaveAwaitedTransaction", ").RemoveAwaitedTransaction", "." + row.forward, ").AddLeaf"} {
			effects = append(effects, ownCalls(suf)...)
		}
		if len(effects) < 2 {
			r.bad("process-once", row.handler+"/effects", w.Pos(fn.Pos()), "processing effects must exist", fmt.Sprintf("%d", len(effects)))
		}
		for _, e := range effects {
			r.check(behindDeepSite(e, notSeen), "process-once", row.handler+"/"+shortCallee(e.c)+"/not-seen", lineOf(w, e.c), shortCallee(e.c)+" only if the item's hash was not seen recently", "reachable without crossing HasHash == false")
			r.check(behindDeepSite(e, notListed), "process-once", row.handler+"/"+shortCallee(e.c)+"/self-not-listed", lineOf(w, e.c), shortCallee(e.c)+" only if this node is not in the verified gossiper set", "reachable without crossing the absent edge of set[self]")
		}
		// forward after acceptance
		var accept gspec
		var acceptDesc string
		forwards := ownCalls("." + row.forward)
		if row.handler == "GossipVrx" {
			accept = callSpec(".sendToAccountant", "errnil", argPathsR("_", row.item))
			acceptDesc = "sendToAccountant(ctx, vg.Vertex) == nil"
		} else {
			var trxv ssa.Value
			for _, c := range callsTo2(fn, ".ProtoTrxToTrx") {
				_, a := callArgs(c)
				if pathOf(a[0]) == row.item {
					trxv = resultAt(c, 0)
				}
			}
			conv := callSpec(".ProtoTrxToTrx", "errnil", argPathsR(row.item))
			ver := callSpec(").VerifyIssuer", "errnil", func(_ resolver, recv ssa.Value, _ []ssa.Value) bool {
				// receiver is &trx where trx holds the conversion result
				if al, ok := strip(recv).(*ssa.Alloc); ok && trxv != nil {
					for _, ref := range *al.Referrers() {
						if st, ok := ref.(*ssa.Store); ok && st.Val == trxv {
							return true
						}
					}
				}
				return false
			})
			acceptDesc = "ProtoTrxToTrx(tg.Trx) and trx.VerifyIssuer succeeded"
			for _, fw := range forwards {
				r.check(behindDeepSite(fw, conv), "forward-after-accept", row.handler+"/forward-after-conversion", lineOf(w, fw.c), "forward only after the wire transaction converted", "not dominated")
			}
			accept = ver
		}
		// does value v, seen in frame fr, derive from toSlice(the verified set)?
		fromSet := func(v ssa.Value, fr *frame) bool {
			for _, o := range originsDeep(v, deepDepth) {
				c, ok := strip(o).(*ssa.Call)
				if !ok || !strings.HasSuffix(calleeName(c), ".toSlice") || len(c.Call.Args) == 0 {
					continue
				}
				if c.Parent() == fr.cx.fn {
					if fr.cx.res(c.Call.Args[0]) == setPath {
						return true
					}
					continue
				}
				for _, hc := range helperCalls(fr.cx.fn) {
					if hc.Common().StaticCallee() == c.Parent() && downRes(fr.cx.res, hc)(c.Call.Args[0]) == setPath {
						return true
					}
				}
			}
			return false
		}
		for _, fw := range forwards {
			_, a := callArgs(fw.c)
			if len(a) < 3 {
				r.bad("forward-after-accept", row.handler+"/forwards-item-and-set", lineOf(w, fw.c), "the forward helper receives (ctx, message, verified set)", fmt.Sprintf("called with %d arguments: the skip decision no longer receives the verified set", len(a)))
				continue
			}
			r.check(behindDeepSite(fw, accept), "forward-after-accept", row.handler+"/forward-after-acceptance", lineOf(w, fw.c), "forward only behind: "+acceptDesc, "forward reachable without crossing the acceptance success edge")
			// forwards the very message and the verified set
			r.check(fw.path(a[1]) == row.msg && sameVal(fw.argValue(a[2]), set), "forward-after-accept", row.handler+"/forwards-item-and-set", lineOf(w, fw.c), "the processed message is forwarded with the verified set", fmt.Sprintf("forwarding (%s, %s)", fw.path(a[1]), fw.path(a[2])))
			// self inserted into the set, and the outgoing list rebuilt from the set, on every way to the forward
			reachesForwardAvoiding := func(stop func(ssa.Instruction, *frame) bool) bool {
				reached := false
				dw := newDeepWalk(func(in ssa.Instruction, fr *frame) bool {
					if stop(in, fr) {
						return true
					}
					if in == fw.c.(ssa.Instruction) {
						reached = true
					}
					return reached
				})
				dw.run(topFrame(fn), fn.Blocks[0], 0)
				return reached
			}
			selfIn := !reachesForwardAvoiding(func(in ssa.Instruction, fr *frame) bool {
				mu, ok := in.(*ssa.MapUpdate)
				return ok && isSelfAddressCall(mu.Key) && fr.cx.res(mu.Map) == setPath
			})
			r.check(selfIn, "forward-after-accept", row.handler+"/self-in-set", lineOf(w, fw.c), "the node adds itself to the set before forwarding (so peers skip it and it is not sent back)", "the forward is reachable without set[self] = …")
			listOK := !reachesForwardAvoiding(func(in ssa.Instruction, fr *frame) bool {
				st, ok := in.(*ssa.Store)
				return ok && fr.cx.res(st.Addr) == row.listPath && fromSet(st.Val, fr)
			})
			r.check(listOK, "forward-after-accept", row.handler+"/list-from-set", lineOf(w, fw.c), "the outgoing gossiper list is the verified set plus self", "list not rebuilt from the set before forwarding")
		}
	}
	// the seen-memory is asked about the item at hand and about nothing else: the two endpoints share one memory, keyed
	// by the raw hash, so a question about another hash (the transaction a vertex carries) is answered by the other
	// endpoint's marks
	r.rule("seen-question-is-about-the-item", "every HasHash reachable from a gossip handler is given the hash of the item that handler processes (vertex hash in GossipVrx, transaction hash in GossipTrx)", 2)
	for _, row := range gossipRows {
		f := w.fx(r, "gossip", "gossiper", row.handler)
		if f == nil {
			continue
		}
		rb := row.bound(f.fn)
		n, bad := 0, ""
		for _, d := range deepCalls(f.fn, func(c ssa.CallInstruction) bool { return strings.HasSuffix(calleeName(c), ").HasHash") }, deepDepth) {
			_, a := callArgs(d.c)
			if len(a) == 0 {
				continue
			}
			n++
			if p := d.path(a[0]); p != rb.item+".Hash" {
				bad += fmt.Sprintf(" HasHash(%s) at %s;", p, lineOf(w, d.c))
			}
		}
		r.check(n > 0 && bad == "", "seen-question-is-about-the-item", row.handler, w.Pos(f.fn.Pos()), "the duplicate memory is consulted for "+rb.item+".Hash only", bad)
	}

	// membership is edited by joining, never by carrying messages: an item an honest peer refuses (parent not yet there,
	// duplicate) says nothing about the peer, and a peer that was dropped from the table is never forwarded to again
	membershipNotEditedByForwarding(w, r, "membership-not-edited-by-forwarding")

	// every way out of a gossip handler is one of the protocol's own decisions: malformed message, a failed step, item seen,
	// node already listed — or comes after the item was processed. A refusal that depends on anything else (the wall clock,
	// the size of the peer table, …) loses the item for this node and everything behind it.
	r.rule("exits-accounted", "GossipVrx / GossipTrx return without processing only on: a nil / ill-shaped message, the failure of a called step, HasHash == true, or self ∈ verified set", 2)
	for _, row := range gossipRows {
		f := w.fx(r, "gossip", "gossiper", row.handler)
		if f == nil {
			continue
		}
		fn := f.fn
		row = row.bound(fn)
		msg := row.msg
		known := map[Edge]bool{}
		for _, b := range fn.Blocks {
			for i := range b.Succs {
				e := Edge{b, i}
				for _, ft := range edgeFacts(e) {
					switch ft.kind {
					case fNotNil:
						if ft.x != nil && isErrorType(ft.x.Type()) {
							known[e] = true // a step failed
						}
					case fIsNil:
						if ft.x != nil && strings.HasPrefix(pathOf(ft.x), msg) {
							known[e] = true // absent message / sub-message
						}
					case fTrue, fFalse:
						if c, ok := strip(ft.x).(*ssa.Call); ok {
							if h := samePkgHelper(fn, c); h != nil && isShapePredicate(h) {
								known[e] = true // shape predicate on the message
							}
						}
					}
				}
				if iff, ok := b.Instrs[len(b.Instrs)-1].(*ssa.If); ok {
					for _, lf := range lenFactsOf(iff.Cond, i != 0) {
						if strings.HasPrefix(lf.path, msg) {
							known[e] = true // wrong length of a message field
						}
					}
				}
			}
		}
		for _, e := range deepEdges(fn, idRes, callSpec(").HasHash", "true", nil), deepDepth) {
			known[e] = true
		}
		if set, _ := verifiedSet(fn, row); set != nil {
			for _, e := range lookupEdges(fn, set, isSelfAddressCall, true) {
				known[e] = true
			}
		}
		unaccounted := 0
		var where ssa.Instruction
		walkFrom(nil, fn.Blocks[0], known, func(x ssa.Instruction) bool {
			if c, ok := x.(ssa.CallInstruction); ok {
				n := calleeName(c)
				if strings.HasSuffix(n, "."+row.forward) || strings.HasSuffix(n, ".sendToAccountant") || strings.HasSuffix(n, ").SaveAwaitedTransaction") {
					return true // processing started: later exits are results of the processing
				}
				if h := samePkgHelper(fn, c); h != nil && len(deepCalls(h, bySuffix("."+row.forward), 1)) > 0 {
					return true
				}
			}
			if _, ok := x.(*ssa.Return); ok {
				unaccounted++
				where = x
				return true
			}
			return false
		})
		at := w.Pos(fn.Pos())
		if where != nil {
			at = lineOf(w, where)
		}
		r.check(unaccounted == 0, "exits-accounted", row.handler, at, "the handler refuses an item only for one of the protocol's reasons", fmt.Sprintf("%d returns are reachable before any processing without crossing a known rejection (malformed, step failed, seen, listed)", unaccounted))
	}

	// the awaiting cache is a convenience of this node, not a gate of the protocol: a transaction the node already holds
	// (its own notary proposed it: the cache is filled, the seen-marks are not) still has to be signed and carried on
	r.rule("cache-failure-does-not-stop-forwarding", "in GossipTrx the forwarding of the transaction is reachable from the failure edge of SaveAwaitedTransaction: what gates forwarding is the issuer signature, the seen-marks and the gossiper set — not whether this node's awaiting cache took the transaction (ErrTrxAlreadyExists is an ordinary answer)", 1)
	for _, row := range gossipRows {
		if row.handler != "GossipTrx" {
			continue
		}
		f := w.fx(r, "gossip", "gossiper", row.handler)
		if f == nil {
			continue
		}
		fn := f.fn
		for _, d := range deepCalls(fn, bySuffix(").SaveAwaitedTransaction"), deepDepth) {
			fes := failErrNonNil(d.c)
			if len(fes) == 0 {
				r.ok("cache-failure-does-not-stop-forwarding", row.handler+"/SaveAwaitedTransaction", lineOf(w, d.c), "the result of the cache save decides nothing")
				continue
			}
			ok := true
			for _, fe := range fes {
				// followed through the return of a helper the save sits in, and into helpers that forward
				reached := reachesDeep(frameFor(fn, d.chain), fe.To(), 0, nil, func(x ssa.Instruction, _ *frame) bool {
					c, isCall := x.(ssa.CallInstruction)
					return isCall && strings.HasSuffix(calleeName(c), "."+row.forward)
				})
				if !reached {
					ok = false
				}
			}
			r.check(ok, "cache-failure-does-not-stop-forwarding", row.handler+"/SaveAwaitedTransaction", lineOf(w, d.c), "a transaction the awaiting cache did not take is forwarded all the same",
				"no call of "+row.forward+" is reachable from the failure edge of SaveAwaitedTransaction: a transaction this node already holds (proposed at its own notary) is not carried on, and the seen-mark set before drops every later copy")
		}
	}

	// the peer-table lock is not held while waiting for peers: a forward is a remote call whose handler needs the peer's own
	// table lock to forward on; a writer queued on either side (a node joining) closes the cycle and every later item stops here
	r.rule("no-wait-for-peers-under-the-table-lock", "in package gossip no sync.WaitGroup.Wait runs with a repository lock held — an immediate one where it stands, a deferred one when a lock is held where the defer statement is executed (the deferred Wait runs before the deferred unlock registered ahead of it)", 0)
	{
		nWait := 0
		for _, fn := range w.RepoFuncs("gossip") {
			instrsOf(fn, func(in ssa.Instruction) {
				c, ok := in.(ssa.CallInstruction)
				if !ok || calleeName(c) != "(*sync.WaitGroup).Wait" {
					return
				}
				nWait++
				held := li.At(in)
				r.check(held.top || len(held.m) == 0, "no-wait-for-peers-under-the-table-lock", shortFn(fn)+"/WaitGroup.Wait", lineOf(w, in), "the wait for the forwards happens with no lock held",
					"lockset "+held.String()+": the goroutines waited for are remote calls to peers, whose handlers need their own table lock to forward on — with a writer queued on each side the waits form a cycle that nothing breaks")
			})
		}
		if nWait == 0 {
			r.ok("no-wait-for-peers-under-the-table-lock", "none", "-", "package gossip waits for no group of goroutines")
		}
	}

	// sendToAccountant summary
	// sendToAccountant summary
	if f := w.fx(r, "gossip", "gossiper", "sendToAccountant"); f != nil {
		add := callEdges(f.fn, ").AddLeaf", "errnil", nil)
		ok := len(add) > 0
		for _, ret := range returnsOf(f.fn) {
			if successReturn(ret) && !behind(ret, add) {
				ok = false
			}
		}
		r.check(ok, "forward-after-accept", "sendToAccountant/returns-nil-only-if-AddLeaf-did", w.Pos(f.fn.Pos()), "sendToAccountant succeeds only when the ledger admitted the vertex", "a success return is not dominated by AddLeaf == nil")
	}

	r.rule("seen-memory", "Flashback.HasHash reports 'seen' only behind a successful lookup of that hash and marks the hash as seen on every path", 2)
	if f := w.fx(r, "cache", "Flashback", "HasHash"); f != nil {
		fn := f.fn
		h := fn.Params[1].Name()
		if len(callsBySuffix(fn, "BigCache).Get")) == 0 { // body moved into a helper shared with HasAddress
			if hf, hp, _ := delegateForPath(fn, h); hf != nil {
				fn, h = hf, hp.Name()
				r.seen(shortFn(hf))
			}
		}
		var getE []Edge
		for _, c := range callsBySuffix(fn, "BigCache).Get") {
			_, a := callArgs(c)
			if pathOf(a[0]) == h {
				getE = append(getE, passErrNil(c)...)
			}
		}
		ok := len(getE) > 0
		for _, ret := range returnsOf(fn) {
			vals, _ := resultVals(ret, 0)
			for _, v := range vals {
				if bv, isC := boolConst(v); isC && !bv {
					continue
				}
				if !behind(ret, getE) {
					ok = false
				}
			}
		}
		r.check(ok, "seen-memory", "Flashback.HasHash/true-only-if-present", w.Pos(fn.Pos()), "true is returned only when the hash was found", "a non-false return is not dominated by a successful Get of the hash")
		marked := false
		instrsOf(fn, func(in ssa.Instruction) {
			if d, isD := in.(*ssa.Defer); isD && strings.HasSuffix(calleeName(d), "BigCache).Set") {
				_, a := callArgs(d)
				if pathOf(a[0]) == h {
					// the defer must be registered on every path that can return without a length error
					marked = true
					for _, ret := range returnsOf(fn) {
						if errIndex(fn) >= 0 && !successReturn(ret) {
							continue
						}
						if !d.Block().Dominates(ret.Block()) {
							marked = false
						}
					}
				}
			}
		})
		// test-and-mark is atomic
		fli := ComputeLocks(w, func(fn2 *ssa.Function) bool { return fn2.Pkg != nil && fn2.Pkg.Pkg.Path() == modPath+"/cache" })
		atomicOK := true
		nAcc := 0
		instrsOf(fn, func(in ssa.Instruction) {
			c, ok := in.(ssa.CallInstruction)
			if !ok || !strings.Contains(calleeName(c), "BigCache).") {
				return
			}
			if _, isDefer := in.(*ssa.Defer); isDefer {
				// the deferred Set runs at return: it is covered when the unlock is deferred EARLIER (runs later)
				var unlockDefer *ssa.Defer
				instrsOf(fn, func(x ssa.Instruction) {
					if d, ok := x.(*ssa.Defer); ok {
						if op, _, id, ok := lockOp(d); ok && op == "unlock" && id == "cache.Flashback.mux" {
							unlockDefer = d
						}
					}
				})
				nAcc++
				// a helper that never touches the mutex itself runs entirely inside its callers' critical section
				// (the lockset at its entry, checked below, is the intersection over all call sites)
				touchesMutex := false
				instrsOf(fn, func(x ssa.Instruction) {
					if ci, ok := x.(ssa.CallInstruction); ok {
						if _, _, id, ok := lockOp(ci); ok && id == "cache.Flashback.mux" {
							touchesMutex = true
						}
					}
				})
				if touchesMutex && (unlockDefer == nil || !unlockDefer.Block().Dominates(in.Block()) || (unlockDefer.Block() == in.Block() && indexIn(in.Block(), unlockDefer) > indexIn(in.Block(), in))) {
					atomicOK = false
				}
				if !fli.At(in).Has("cache.Flashback.mux", "W") {
					atomicOK = false
				}
				return
			}
			nAcc++
			if !fli.At(in).Has("cache.Flashback.mux", "W") {
				atomicOK = false
			}
		})
		r.check(atomicOK && nAcc >= 2, "seen-memory", "Flashback.HasHash/test-and-mark-atomic", w.Pos(fn.Pos()), "lookup and mark happen in one critical section (of several simultaneous deliveries of an item only one is 'not seen')", fmt.Sprintf("%d cache accesses, all inside one exclusive section: %v", nAcc, atomicOK))
		r.check(marked, "seen-memory", "Flashback.HasHash/marks-on-every-path", w.Pos(fn.Pos()), "every non-error return leaves the hash marked as seen", "no dominating deferred Set of the hash")
		// a hash mark goes away by expiry only: while copies of an item are in flight nothing may make the item look new
		bad := ""
		for _, g := range w.RepoFuncs("cache") {
			top := g
			for top.Parent() != nil {
				top = top.Parent()
			}
			if top.Signature.Recv() == nil || !strings.Contains(top.Signature.Recv().Type().String(), "Flashback") {
				continue
			}
			instrsOf(g, func(in ssa.Instruction) {
				c, ok := in.(ssa.CallInstruction)
				if !ok {
					return
				}
				n := calleeName(c)
				if !strings.HasPrefix(n, "(*"+bigPkg+".BigCache).") {
					return
				}
				switch {
				case strings.HasSuffix(n, ".Reset"):
					bad += " " + shortFn(g) + " empties the whole memory at " + lineOf(w, c) + ";"
				case strings.HasSuffix(n, ".Delete"):
					_, a := callArgs(c)
					if len(a) == 0 {
						return
					}
					k := strip(a[0])
					if cv, isConv := k.(*ssa.Convert); isConv {
						if sl, isSlice := cv.X.Type().Underlying().(*types.Slice); isSlice {
							if b, isB := sl.Elem().Underlying().(*types.Basic); isB && b.Kind() == types.Uint8 {
								bad += " " + shortFn(g) + " deletes the mark of a hash at " + lineOf(w, c) + ";"
							}
						}
					}
				}
			})
		}
		r.check(bad == "", "seen-memory", "Flashback/hash-marks-only-expire", w.Pos(fn.Pos()), "the mark of an item hash is removed by expiry only (address marks have their own release)", bad)
	}

	r.rule("forward-to-every-uninformed-peer", "the forward loops range the whole peer table and send to every peer that is not in the verified set (no early return, no extra skip condition)", 4)
	r.rule("skip-informed-peers", "the forward loops send to a peer only behind the absent edge of set[addr] for the ranged key of the peer table, under the peer-table lock", 4)
	for _, name := range []string{"gossipVertex", "gossipTransaction"} {
		f := w.fx(r, "gossip", "gossiper", name)
		if f == nil {
			continue
		}
		fn := f.fn
		var setP ssa.Value = fn.Params[len(fn.Params)-1]
		var gos []*ssa.Go
		collect := func() {
			gos = nil
			instrsOf(fn, func(in ssa.Instruction) {
				if g, ok := in.(*ssa.Go); ok {
					gos = append(gos, g)
				}
			})
		}
		collect()
		var delegateSite ssa.CallInstruction
		if len(gos) == 0 { // the loop was moved into a shared helper: analyse the helper with the set bound to its parameter
			if h, hp, cs := delegateFor(fn, setP); h != nil {
				fn, setP, delegateSite = h, hp, cs
				r.seen(shortFn(h))
				collect()
			}
		}
		if len(gos) != 1 {
			r.bad("skip-informed-peers", name+"/go", w.Pos(fn.Pos()), "one forwarding goroutine per peer", fmt.Sprintf("%d go statements", len(gos)))
			continue
		}
		g := gos[0]
		// ranged key of g.nodes
		isRangeKey := func(v ssa.Value) bool {
			ex, ok := strip(v).(*ssa.Extract)
			if !ok || ex.Index != 1 {
				return false
			}
			nx, ok := ex.Tuple.(*ssa.Next)
			if !ok {
				return false
			}
			rg, ok := nx.Iter.(*ssa.Range)
			return ok && strings.HasSuffix(pathOf(rg.X), ".nodes")
		}
		nodesRange := func(f2 *ssa.Function) *ssa.Next {
			var next *ssa.Next
			instrsOf(f2, func(in ssa.Instruction) {
				if n, ok := in.(*ssa.Next); ok {
					if rg, ok := n.Iter.(*ssa.Range); ok && strings.HasSuffix(pathOf(rg.X), ".nodes") {
						next = n
					}
				}
			})
			return next
		}
		// Where is the selection made? Either in the loop that starts the goroutines (emit = the go statement), or in a
		// helper that returns the list of peers to send to (emit = its append), followed by a loop over that list.
		selFn, selSet := fn, setP
		var emit ssa.Instruction = g
		var selCall ssa.CallInstruction
		if nodesRange(fn) == nil {
			if h, hp, cs := delegateFor(fn, setP); h != nil && nodesRange(h) != nil {
				var apps []ssa.Instruction
				instrsOf(h, func(in ssa.Instruction) {
					if c, ok := in.(*ssa.Call); ok {
						if bi, ok := c.Call.Value.(*ssa.Builtin); ok && bi.Name() == "append" {
							apps = append(apps, in)
						}
					}
				})
				if len(apps) == 1 {
					selFn, selSet, emit, selCall = h, hp, apps[0], cs
					r.seen(shortFn(h))
				}
			}
		}
		absent := lookupEdges(selFn, selSet, isRangeKey, false)
		r.check(behind(emit, absent), "skip-informed-peers", name+"/skip", lineOf(w, emit), "send only to peers that are not in the set", "the send (or the selection for sending) is reachable without crossing the absent edge of set[addr]")
		// the client used belongs to the same ranged entry and the RPC matches
		cl := closureOf(g.Call.Value)
		if cl == nil {
			if cal := g.Call.StaticCallee(); cal != nil && isRepoFunc(cal) && len(cal.Blocks) > 0 {
				cl = cal // go g.sendTo(…): a method instead of a literal
			}
		}
		if cl == nil && delegateSite != nil { // go send(…): the function value is a parameter, bound at the delegating call
			if prm, ok := g.Call.Value.(*ssa.Parameter); ok {
				for k, p2 := range fn.Params {
					if p2 == prm && k < len(delegateSite.Common().Args) {
						cl = closureOf(delegateSite.Common().Args[k])
					}
				}
			}
		}
		rpc := 0
		if cl != nil {
			rpc = len(callsBySuffix(cl, ").GossipVrx")) + len(callsBySuffix(cl, ").GossipTrx"))
		}
		clientOK := false
		for _, a := range g.Call.Args {
			if strings.Contains(pathOf(a), ".client") {
				clientOK = true
			}
		}
		r.check(rpc == 1 && clientOK, "skip-informed-peers", name+"/rpc", lineOf(w, g), "the goroutine calls the matching Gossip RPC on the ranged peer's client", fmt.Sprintf("rpc calls=%d client-from-peer=%v", rpc, clientOK))
		// completeness: every peer that is not in the set gets the item, and the loop always runs to its end
		next := nodesRange(selFn)
		if next == nil {
			r.bad("forward-to-every-uninformed-peer", name+"/range", w.Pos(fn.Pos()), "range over the peer table", "not found")
		} else {
			var okv ssa.Value
			for _, ref := range *next.Referrers() {
				if e, ok := ref.(*ssa.Extract); ok && e.Index == 0 {
					okv = e
				}
			}
			present := lookupEdges(selFn, selSet, isRangeKey, true)
			skipped := 0
			if okv != nil {
				for _, te := range trueEdges(selFn, okv) {
					walkFrom(nil, te.To(), edgeSet(present), func(x ssa.Instruction) bool {
						if x == emit {
							return true
						}
						if x == ssa.Instruction(next) {
							skipped++
							return true
						}
						if _, ok := x.(*ssa.Return); ok {
							skipped++
							return true
						}
						return false
					})
				}
			}
			early := 0
			var exh []Edge
			if okv != nil {
				exh = falseEdges(selFn, okv)
			}
			for _, ret := range returnsOf(selFn) {
				if !behind(ret, exh) {
					early++
				}
			}
			if selCall != nil {
				// second stage: the loop over the selected list starts a goroutine for every element and runs to its end
				hdr := enclosingRangeHeader(g.Block())
				fromSel := false
				if hdr != nil {
					instrsOf(fn, func(in ssa.Instruction) {
						if ia, ok := in.(*ssa.IndexAddr); ok && hdr.Dominates(ia.Block()) {
							for _, o := range origins(ia.X) {
								if sameVal(o, callValue(selCall)) {
									fromSel = true
								}
							}
						}
					})
				}
				if hdr == nil || !fromSel || len(hdr.Succs) != 2 {
					skipped++
				} else {
					done := Edge{hdr, 1}
					walkFrom(nil, hdr.Succs[0], edgeSet([]Edge{done}), func(x ssa.Instruction) bool {
						if x == ssa.Instruction(g) {
							return true
						}
						if x.Block() == hdr {
							skipped++
							return true
						}
						if _, ok := x.(*ssa.Return); ok {
							skipped++
							return true
						}
						return false
					})
					for _, ret := range returnsOf(fn) {
						if !behind(ret, []Edge{done}) {
							early++
						}
					}
				}
			}
			r.check(okv != nil && skipped == 0, "forward-to-every-uninformed-peer", name+"/every-peer", lineOf(w, next), "each ranged peer is either in the set (skipped) or is sent the item", fmt.Sprintf("%d ways to the next peer or out of the loop without sending", skipped))
			r.check(early == 0, "forward-to-every-uninformed-peer", name+"/no-early-return", w.Pos(fn.Pos()), "the function returns only after the peer table was ranged completely", fmt.Sprintf("%d returns reachable before the loop finished", early))
		}
		if selCall != nil && next != nil {
			hs := li.At(next)
			r.check(hs.Has("gossip.gossiper.mux", ""), "skip-informed-peers", name+"/selection-under-lock", lineOf(w, selCall), "the peer table is ranged under g.mux", "lockset "+hs.String())
		}
		held := li.At(g)
		r.check(held.Has("gossip.gossiper.mux", ""), "skip-informed-peers", name+"/under-lock", lineOf(w, g), "peer table is read under g.mux", "lockset "+held.String())
	}

	// the outgoing list is rebuilt from the verified set (toSlice(set)): an upstream gossiper that verifyGossipers
	// leaves out falls off the list that travels on, and peers further down the line send the item back to it
	r.rule("forwarded-list-keeps-upstream", "verifyGossipers keeps every well-formed, verifying upstream entry: the forwarded list is rebuilt from its result", 1)
	if f := w.fx(r, "gossip", "gossiper", "verifyGossipers"); f != nil {
		var ups []*ssa.MapUpdate
		instrsOf(f.fn, func(in ssa.Instruction) {
			if mu, ok := in.(*ssa.MapUpdate); ok {
				ups = append(ups, mu)
			}
		})
		if len(ups) == 1 {
			everyEntryConsidered(w, r, "forwarded-list-keeps-upstream", f.fn, ups[0], strings.TrimSuffix(pathOf(ups[0].Key), ".Address"))
		} else {
			r.bad("forwarded-list-keeps-upstream", "verifyGossipers/insert", w.Pos(f.fn.Pos()), "exactly one insertion into the verified set", fmt.Sprintf("%d", len(ups)))
		}
	}

	r.rule("origin-lists-self", "origin processes sign (self ‖ item hash), put the entry into the outgoing list and the set, and forward the item they received", 2)
	for _, row := range []struct{ fn, forward, hashPath string }{{"runVertexGossipProcess", "gossipVertex", ".Hash"}, {"runTransactionGossipProcess", "gossipTransaction", ".Hash"}} {
		f := w.fx(r, "gossip", "gossiper", row.fn)
		if f == nil {
			continue
		}
		ok := false
		why := "no forward call"
		for _, fd := range deepCalls(f.fn, bySuffix("."+row.forward), deepDepth) {
			fw := fd.c
			_, a := callArgs(fw)
			if len(a) < 3 {
				continue
			}
			// set literal {self: gossiper}
			mm, isMM := strip(a[2]).(*ssa.MakeMap)
			selfKey := false
			if isMM {
				for _, ref := range *mm.Referrers() {
					if mu, ok := ref.(*ssa.MapUpdate); ok && isSelfAddressCall(mu.Key) {
						selfKey = true
					}
				}
			}
			// signed message = createGossiperMessageToSign(self, item hash)
			signed := false
			for _, dc := range deepCalls(f.fn, func(c ssa.CallInstruction) bool {
				return strings.HasSuffix(calleeName(c), ".createGossiperMessageToSign")
			}, 2) {
				_, ca := callArgs(dc.c)
				if len(ca) >= 2 && isSelfAddressCall(ca[0]) && strings.HasSuffix(dc.path(ca[1]), row.hashPath) {
					signed = true
				}
			}
			ok = selfKey && signed
			why = fmt.Sprintf("set-literal-with-self=%v signs(self,hash)=%v", selfKey, signed)
		}
		r.check(ok, "origin-lists-self", row.fn, w.Pos(f.fn.Pos()), "origin forwards with a set and list containing its own signed entry", why)
	}
}

// everyEntryConsidered: in verifyGossipers each list element is verified unless it is malformed, and a
// verified one is inserted into the set (shared by C11 — the forwarded list is rebuilt from this set — and C12).
func everyEntryConsidered(w *World, r *Report, rule string, fn *ssa.Function, mu *ssa.MapUpdate, member string) {
	// completeness: each list element is verified unless it is malformed, and a verified one is inserted
	var okv ssa.Value
	var hdr *ssa.BasicBlock
	for _, blk := range fn.Blocks {
		if blk.Comment == "rangeindex.loop" {
			hdr = blk
		}
	}
	skipped, dropped := 0, 0
	isVerifyCall := func(in ssa.Instruction, _ resolver) bool {
		c, ok := in.(ssa.CallInstruction)
		return ok && strings.HasSuffix(calleeName(c), ").Verify")
	}
	isVerify0 := passesDeep(fn, idRes, isVerifyCall, 1)
	verifyOK := deepEdges(fn, idRes, callSpec(").Verify", "errnil", nil), 1)
	// a bool helper that decides one entry — `if g.gossiperVerifies(hash, member) { set[...] = member }` — stands for the
	// verification when it says true only behind a successful Verify and says false without verifying only for a
	// malformed entry
	deciders := map[ssa.Instruction]bool{}
	instrsOf(fn, func(in ssa.Instruction) {
		c, ok := in.(*ssa.Call)
		if !ok {
			return
		}
		h := samePkgHelper(fn, c)
		if h == nil || h.Signature.Results().Len() != 1 || !isBoolType(h.Signature.Results().At(0).Type()) {
			return
		}
		hm := ""
		for k, a := range c.Call.Args {
			if pathOf(a) == member && k < len(h.Params) {
				hm = h.Params[k].Name()
			}
		}
		if hm == "" {
			return
		}
		hOK := deepEdges(h, idRes, callSpec(").Verify", "errnil", nil), 1)
		if len(hOK) == 0 {
			return
		}
		for _, ret := range returnsOf(h) {
			if mayReturnBool(ret, true) && !behind(ret, hOK) {
				return
			}
		}
		hVerify := passesDeep(h, idRes, isVerifyCall, 1)
		missed := 0
		walkFrom(nil, h.Blocks[0], edgeSet(malformedEdges(h, hm)), func(x ssa.Instruction) bool {
			if hVerify(x) {
				return true
			}
			if _, isRet := x.(*ssa.Return); isRet {
				missed++
				return true
			}
			return false
		})
		if missed == 0 {
			deciders[c] = true
			verifyOK = append(verifyOK, passBool(c, 0, true)...)
		}
	})
	isVerify := func(x ssa.Instruction) bool { return isVerify0(x) || deciders[x] }
	if hdr != nil && len(hdr.Succs) == 2 {
		_ = okv
		cut := malformedEdges(fn, member)
		walkFrom(nil, hdr.Succs[0], edgeSet(cut), func(x ssa.Instruction) bool {
			if isVerify(x) {
				return true
			}
			if x.Block() == hdr {
				skipped++
				return true
			}
			return false
		})
		for _, se := range verifyOK {
			walkFrom(nil, se.To(), nil, func(x ssa.Instruction) bool {
				if x == ssa.Instruction(mu) {
					return true
				}
				if x.Block() == hdr {
					dropped++
					return true
				}
				return false
			})
		}
		if len(verifyOK) == 0 {
			dropped++
		}
	}
	r.check(hdr != nil && skipped == 0 && dropped == 0, rule, "verifyGossipers/every-entry-considered", lineOf(w, mu), "each listed gossiper is verified unless it is malformed (nil / wrong digest length), and every verified one enters the set", fmt.Sprintf("%d ways to skip verification for a well-formed entry, %d ways to drop a verified entry", skipped, dropped))
}

// isShapePredicate: a bool helper all of whose comparisons look only at nil-ness and field lengths of its
// parameters (its outcome says "malformed", nothing about content).
func isShapePredicate(h *ssa.Function) bool {
	if h.Signature.Results().Len() != 1 || !isBoolType(h.Signature.Results().At(0).Type()) {
		return false
	}
	isParamRooted := func(v ssa.Value) bool {
		for i := 0; i < 8; i++ {
			switch x := v.(type) {
			case *ssa.Parameter:
				return true
			case *ssa.UnOp:
				v = x.X
			case *ssa.FieldAddr:
				v = x.X
			case *ssa.Field:
				v = x.X
			default:
				return false
			}
		}
		return false
	}
	shapeOperand := func(v ssa.Value) bool {
		if _, ok := v.(*ssa.Const); ok {
			return true
		}
		if c, ok := v.(*ssa.Call); ok {
			if b, ok := c.Call.Value.(*ssa.Builtin); ok && b.Name() == "len" {
				return isParamRooted(c.Call.Args[0])
			}
			return false
		}
		return isParamRooted(v) && isPointerLike(v.Type())
	}
	ok := true
	n := 0
	instrsOf(h, func(in ssa.Instruction) {
		switch x := in.(type) {
		case *ssa.BinOp:
			n++
			if !shapeOperand(x.X) || !shapeOperand(x.Y) {
				ok = false
			}
		case ssa.CallInstruction:
			if c, isCall := x.(*ssa.Call); isCall {
				if b, isB := c.Call.Value.(*ssa.Builtin); isB && b.Name() == "len" {
					return
				}
			}
			ok = false
		case *ssa.Store, *ssa.MapUpdate, *ssa.Send:
			ok = false
		}
	})
	return ok && n > 0
}

func isPointerLike(t types.Type) bool {
	switch t.Underlying().(type) {
	case *types.Pointer, *types.Slice, *types.Map, *types.Interface:
		return true
	}
	return false
}

func runC12(w *World, r *Report) {
	r.NotDecided = []string{"that an honest path exists (topology)", "delivery under all relay positions and orders (model checking)"}
	// the verified set is keyed by address: one wallet must have one address
	oneAddressPerKey(w, r, "one-address-per-key")
	r.rule("entry-verified", "verifyGossipers: m[member.Address] = member only behind Verify(createGossiperMessageToSign(member.Address, hash), member.Signature, digest(member.Digest), member.Address) == nil", 2)
	if f := w.fx(r, "gossip", "gossiper", "verifyGossipers"); f != nil {
		fn := f.fn
		hash := fn.Params[1].Name()
		var ups []*ssa.MapUpdate
		instrsOf(fn, func(in ssa.Instruction) {
			if mu, ok := in.(*ssa.MapUpdate); ok {
				ups = append(ups, mu)
			}
		})
		if len(ups) != 1 {
			r.bad("entry-verified", "verifyGossipers/insert", w.Pos(fn.Pos()), "exactly one insertion into the verified set", fmt.Sprintf("%d", len(ups)))
		} else {
			mu := ups[0]
			kp := pathOf(mu.Key)
			member := strings.TrimSuffix(kp, ".Address")
			ok := false
			why := "no Verify call bound to the inserted member"
			bound := callSpec(").Verify", "errnil", func(res resolver, _ ssa.Value, a []ssa.Value) bool {
				if len(a) < 4 {
					return false
				}
				mc, isCall := strip(a[0]).(*ssa.Call)
				if !isCall || !strings.HasSuffix(calleeName(mc), ".createGossiperMessageToSign") {
					why = "verified message is not createGossiperMessageToSign(…)"
					return false
				}
				if len(mc.Call.Args) < 2 {
					why = "the signed gossiper statement is built from fewer than two inputs: address and item hash must both contribute"
					return false
				}
				if res(mc.Call.Args[0]) == kp && res(mc.Call.Args[1]) == hash &&
					res(a[1]) == member+".Signature" && res(a[2]) == member+".Digest" && res(a[3]) == kp {
					return true
				}
				why = fmt.Sprintf("Verify(msg(%s,%s), %s, %s, %s) for inserted key %s", res(mc.Call.Args[0]), res(mc.Call.Args[1]), res(a[1]), res(a[2]), res(a[3]), kp)
				return false
			})
			if behind(mu, deepEdges(fn, idRes, bound, 1)) && pathOf(mu.Value) == member {
				ok = true
			} else if why == "no Verify call bound to the inserted member" {
				why = "insertion not behind the success edge of the verification"
			}
			r.check(ok, "entry-verified", "verifyGossipers/insert", lineOf(w, mu), "only entries whose signature verifies for (their own address, this item's hash) enter the set", why)
			everyEntryConsidered(w, r, "entry-verified", fn, mu, member)
			// the returned map is the one filled
			retOK := true
			for _, ret := range returnsOf(fn) {
				if !sameVal(ret.Results[0], mu.Map) {
					retOK = false
				}
			}
			r.check(retOK, "entry-verified", "verifyGossipers/returns-the-verified-map", w.Pos(fn.Pos()), "the function returns exactly the map it filled", "another value is returned")
		}
	}
	if f := w.fx(r, "gossip", "", "createGossiperMessageToSign"); f != nil {
		used := map[string]bool{}
		instrsOf(f.fn, func(in ssa.Instruction) {
			for _, op := range in.Operands(nil) {
				if p, ok := (*op).(*ssa.Parameter); ok {
					used[p.Name()] = true
				}
				if u, ok := (*op).(*ssa.UnOp); ok && u.Op == token.MUL {
					if al, ok := u.X.(*ssa.Alloc); ok {
						used[al.Comment] = true
					}
				}
				if al, ok := (*op).(*ssa.Alloc); ok {
					used[al.Comment] = true
				}
			}
		})
		both := len(f.fn.Params) >= 2 && used[f.fn.Params[0].Name()] && used[f.fn.Params[1].Name()]
		r.check(both, "entry-verified", "createGossiperMessageToSign/both-inputs", w.Pos(f.fn.Pos()), "address and item hash both contribute to the signed bytes (a statement over the bare hash is indistinguishable from other signed requests for that hash)", fmt.Sprintf("parameters=%d used=%v", len(f.fn.Params), used))
	}

	r.rule("hash-bound-to-item", "handlers verify the list against the hash of the very item they process and forward", 2)
	for _, row := range gossipRows {
		if f := w.fx(r, "gossip", "gossiper", row.handler); f != nil {
			row = row.bound(f.fn)
			set, why := verifiedSet(f.fn, row)
			r.check(set != nil, "hash-bound-to-item", row.handler, w.Pos(f.fn.Pos()), "verifyGossipers(hash of "+row.item+", "+row.listPath+")", why)
		}
	}

	r.rule("raw-list-confined", "the Gossipers field of a received message is read only as the argument of verifyGossipers", 2)
	nReads := 0
	for _, fn := range w.RepoFuncs("gossip") {
		instrsOf(fn, func(in ssa.Instruction) {
			ld, ok := in.(*ssa.UnOp)
			if !ok || ld.Op != token.MUL {
				return
			}
			fa, ok := ld.X.(*ssa.FieldAddr)
			if !ok || fieldName(fa.X.Type(), fa.Field) != "Gossipers" || !isPBMessagePtr(fa.X.Type()) {
				return
			}
			nReads++
			bad := ""
			for _, ref := range *ld.Referrers() {
				if c, ok := ref.(ssa.CallInstruction); ok && calleeName(c) == cn("gossip", "*gossiper", "verifyGossipers") {
					continue
				}
				if _, ok := ref.(*ssa.DebugRef); ok {
					continue
				}
				bad = fmt.Sprintf("used by %T at %s", ref, lineOf(w, ref.(ssa.Instruction)))
			}
			r.check(bad == "", "raw-list-confined", shortFn(fn)+"/"+pathOf(ld), lineOf(w, ld), "raw gossiper list only feeds verifyGossipers", bad)
		})
	}
	r.Extra["raw_list_reads"] = nReads

	r.rule("decisions-on-verified-set", "every membership test that decides skip-self / skip-peer is a lookup in a map originating from verifyGossipers or from a literal holding the node's own fresh entry", 2)
	for _, fn := range w.RepoFuncs("gossip") {
		instrsOf(fn, func(in ssa.Instruction) {
			l, ok := in.(*ssa.Lookup)
			if !ok || !l.CommaOk {
				return
			}
			mt := l.X.Type().String()
			if !strings.Contains(mt, "protobufcompiled.Gossiper") {
				return
			}
			good := false
			desc := ""
			for _, o := range origins(l.X) {
				switch x := o.(type) {
				case *ssa.Call:
					if calleeName(x) == cn("gossip", "*gossiper", "verifyGossipers") {
						good = true
					}
					desc = shortCallee(x) + "()"
				case *ssa.Parameter:
					// parameter of the forward helpers: every caller must pass a verified set
					allOK := true
					n := 0
					for _, caller := range w.RepoFuncs("gossip") {
						for _, c := range callsTo(caller, refFuncFullName(fn.Object().(*types.Func))) {
							n++
							_, a := callArgs(c)
							idx := -1
							for i, p := range fn.Params {
								if p == x {
									idx = i - 1 // minus receiver
								}
							}
							if idx < 0 || idx >= len(a) {
								allOK = false
								continue
							}
							okArg := verifiedSetValue(w, a[idx], caller, 0)
							if !okArg {
								allOK = false
							}
						}
					}
					good = allOK && n > 0
					desc = fmt.Sprintf("parameter %s (%d callers)", x.Name(), n)
				case *ssa.MakeMap:
					good = true
					desc = "local literal"
				default:
					desc = pathOf(o)
				}
			}
			r.check(good, "decisions-on-verified-set", shortFn(fn)+"/lookup("+pathOf(l.Index)+")", lineOf(w, l), "membership decision uses a verified set", "map originates from "+desc)
		})
	}

	// the bytes handed to the verifier are that call's own: a statement assembled in a buffer another request can take
	// over is verified as whatever the other request wrote into it
	r.rule("statement-bytes-are-private", "createGossiperMessageToSign and verifyGossipers use no package-level mutable state (no pooled or shared scratch buffer holds the bytes that are hashed and verified)", 2)
	for _, spec := range [][3]string{{"gossip", "", "createGossiperMessageToSign"}, {"gossip", "gossiper", "verifyGossipers"}} {
		if fn := w.Func(spec[0], spec[1], spec[2]); fn != nil {
			statelessObligation(w, r, "statement-bytes-are-private", fn)
		}
	}

	// "peer P is informed" is looked up by the address a connection is registered under: that address must be the one the
	// registering node proved to own, and a registration touches no other node's entry
	r.rule("peer-entry-keyed-by-verified-address", "every peer-table write reachable from Announce / Discover uses as key the PublicAddress of the request whose signature was verified (a registration neither adds nor removes an entry under another address)", 2)
	{
		var tableWrites []tableAccess
		for _, ti := range collectTables(w, "gossip") {
			if strings.HasPrefix(ti.sp.tn, "gossip.") {
				for _, a := range ti.tf.accs {
					if a.write {
						tableWrites = append(tableWrites, a)
					}
				}
			}
		}
		for _, hn := range []string{"Announce", "Discover"} {
			h := w.Func("gossip", "gossiper", hn)
			if h == nil || len(h.Params) < 3 {
				continue
			}
			cd := h.Params[2].Name()
			reach := reachableFuncs(w, h)
			n, bad := 0, ""
			for _, a := range tableWrites {
				fn := a.in.Parent()
				if !reach[fn] {
					continue
				}
				var key ssa.Value
				switch x := a.in.(type) {
				case *ssa.MapUpdate:
					key = x.Key
				case *ssa.Call:
					if b, ok := x.Call.Value.(*ssa.Builtin); ok && b.Name() == "delete" && len(x.Call.Args) == 2 {
						key = x.Call.Args[1]
					}
				}
				if key == nil {
					bad += fmt.Sprintf(" %s of the whole table in %s at %s;", a.what, shortFn(fn), lineOf(w, a.at))
					continue
				}
				n++
				if !keyIsRequestAddress(w, fn, key, h, cd, reach, 3) {
					bad += fmt.Sprintf(" %s under key %s in %s at %s;", a.what, pathOf(key), shortFn(fn), lineOf(w, a.at))
				}
			}
			r.check(n > 0 && bad == "", "peer-entry-keyed-by-verified-address", hn, w.Pos(h.Pos()), "a registration writes only the entry of the address it verified", bad)
		}
	}

	// the set decides by membership: "peer P is informed" is P's own valid signature being in the set, never the number
	// of valid signatures (anyone can mint keys and sign the statement for them)
	r.rule("set-decides-by-membership", "no branch depends on the size of the verified gossiper set: the set is consulted by key lookup, extended by the node's own entry and turned into the forwarded list", 1)
	nSets := 0
	for _, fn := range w.RepoFuncs("gossip") {
		for _, c := range callsTo(fn, cn("gossip", "*gossiper", "verifyGossipers")) {
			cv, ok := c.(ssa.Value)
			if !ok {
				continue
			}
			nSets++
			tf := &tableFollower{w: w, seenV: map[ssa.Value]bool{}, seenCell: map[ssa.Value]bool{}}
			tf.value(cv)
			bad := ""
			for _, a := range tf.accs {
				if a.what != "len" {
					continue
				}
				if lv, isV := a.in.(ssa.Value); isV {
					if at := flowsToBranch(w, lv, 4, map[ssa.Value]bool{}); at != nil && branchChangesEffects(at) {
						bad += fmt.Sprintf(" len(set) at %s decides the branch at %s;", lineOf(w, a.in), lineOf(w, at))
					}
				}
			}
			r.check(bad == "", "set-decides-by-membership", shortFn(fn)+"/verifyGossipers", lineOf(w, c), "the verified set is used by membership only", bad)
		}
	}
	if nSets == 0 {
		r.bad("set-decides-by-membership", "verifyGossipers", "-", "calls of verifyGossipers are found", "none")
	}
}

// verifiedSetValue: does map value v (in function fn) originate from verifyGossipers, from a literal
// holding the node's own entry, or from a parameter for which every caller passes such a value?
func verifiedSetValue(w *World, v ssa.Value, fn *ssa.Function, depth int) bool {
	if depth > 3 {
		return false
	}
	ok := true
	n := 0
	for _, o := range origins(v) {
		n++
		switch y := o.(type) {
		case *ssa.Call:
			if calleeName(y) != cn("gossip", "*gossiper", "verifyGossipers") {
				ok = false
			}
		case *ssa.MakeMap:
			self := false
			for _, ref := range *y.Referrers() {
				if mu, isMU := ref.(*ssa.MapUpdate); isMU && isSelfAddressCall(mu.Key) {
					self = true
				}
			}
			if !self {
				ok = false
			}
		case *ssa.Parameter:
			idx := -1
			for i, p := range fn.Params {
				if p == y {
					idx = i
				}
			}
			calls := 0
			if fn.Object() == nil || idx < 0 {
				ok = false
				break
			}
			for _, caller := range w.RepoFuncs("gossip") {
				for _, c := range callsTo(caller, refFuncFullName(fn.Object().(*types.Func))) {
					calls++
					if idx >= len(c.Common().Args) || !verifiedSetValue(w, c.Common().Args[idx], caller, depth+1) {
						ok = false
					}
				}
			}
			if calls == 0 {
				ok = false
			}
		default:
			ok = false
		}
	}
	return ok && n > 0
}

// membershipNotEditedByForwarding: no write of the peer table (update, delete, clear, replacement — aliases followed) is
// reachable, through calls, go statements and function literals, from the functions that carry items: the gossip
// handlers, the two origin loops, the forward helpers and the missing-parent fetch.
func membershipNotEditedByForwarding(w *World, r *Report, rule string) {
	r.rule(rule, "no write of the gossiper's peer table is reachable from the functions that receive, originate or forward items (GossipVrx, GossipTrx, the gossip process loops, the forward helpers, the missing-parent fetch): the table changes only when a peer joins (Announce / Discover / start-up discovery) and at shutdown", 4)
	roots := []string{"GossipVrx", "GossipTrx", "GetVertex", "LoadDag", "runVertexGossipProcess", "runTransactionGossipProcess", "gossipVertex", "gossipTransaction", "processLackingParent", "sendToAccountant"}
	var writes []tableAccess
	nTables := 0
	for _, ti := range collectTables(w, "gossip") {
		if !strings.HasPrefix(ti.sp.tn, "gossip.") {
			continue
		}
		nTables++
		for _, a := range ti.tf.accs {
			if a.write {
				writes = append(writes, a)
			}
		}
	}
	if nTables == 0 || len(writes) == 0 {
		r.bad(rule, "peer-table", "-", "the peer table and its writers are found", fmt.Sprintf("tables=%d writes=%d", nTables, len(writes)))
		return
	}
	for _, name := range roots {
		fn := w.Func("gossip", "gossiper", name)
		if fn == nil {
			continue // a role that does not exist (any more) carries nothing
		}
		reach := reachableFuncs(w, fn)
		bad := ""
		for _, a := range writes {
			f := a.in.Parent()
			top := f
			for top.Parent() != nil {
				top = top.Parent()
			}
			if reach[f] || reach[top] {
				bad += fmt.Sprintf(" %s of the peer table in %s at %s;", a.what, shortFn(f), lineOf(w, a.at))
			}
		}
		r.seen(shortFn(fn))
		r.check(bad == "", rule, name, w.Pos(fn.Pos()), "carrying an item never edits the membership", "reachable from "+name+":"+bad)
	}
}

// flowsToBranch: does value v (through arithmetic, comparisons, conversions, φ, helper parameters and helper results)
// reach the condition of a branch? Returns the branch.
func flowsToBranch(w *World, v ssa.Value, depth int, seen map[ssa.Value]bool) ssa.Instruction {
	if v == nil || seen[v] || depth < 0 {
		return nil
	}
	seen[v] = true
	refs := v.Referrers()
	if refs == nil {
		return nil
	}
	for _, ref := range *refs {
		switch x := ref.(type) {
		case *ssa.If:
			return x
		case *ssa.BinOp:
			if at := flowsToBranch(w, x, depth, seen); at != nil {
				return at
			}
		case *ssa.UnOp:
			if at := flowsToBranch(w, x, depth, seen); at != nil {
				return at
			}
		case *ssa.Convert:
			if at := flowsToBranch(w, x, depth, seen); at != nil {
				return at
			}
		case *ssa.ChangeType:
			if at := flowsToBranch(w, x, depth, seen); at != nil {
				return at
			}
		case *ssa.Phi:
			if at := flowsToBranch(w, x, depth, seen); at != nil {
				return at
			}
		case *ssa.Store:
			// a local cell (named result spilled because of a defer, a plain local variable)
			if al, ok := x.Addr.(*ssa.Alloc); ok && x.Val == v {
				for _, lr := range *al.Referrers() {
					if ld, ok := lr.(*ssa.UnOp); ok && ld.Op == token.MUL {
						if at := flowsToBranch(w, ld, depth, seen); at != nil {
							return at
						}
					}
				}
			}
		case *ssa.Return:
			fn := x.Parent()
			idx := -1
			for i, rv := range x.Results {
				if rv == v {
					idx = i
				}
			}
			for _, cs := range staticCallers(w, fn) {
				cv, ok := cs.(ssa.Value)
				if !ok {
					continue
				}
				if len(x.Results) == 1 {
					if at := flowsToBranch(w, cv, depth-1, seen); at != nil {
						return at
					}
					continue
				}
				for _, r2 := range *cv.Referrers() {
					if ex, ok := r2.(*ssa.Extract); ok && ex.Index == idx {
						if at := flowsToBranch(w, ex, depth-1, seen); at != nil {
							return at
						}
					}
				}
			}
		case ssa.CallInstruction:
			cal := x.Common().StaticCallee()
			if cal == nil || !isRepoFunc(cal) || len(cal.Blocks) == 0 {
				continue
			}
			for k, a := range x.Common().Args {
				if a == v && k < len(cal.Params) {
					if at := flowsToBranch(w, cal.Params[k], depth-1, seen); at != nil {
						return at
					}
				}
			}
		}
	}
	return nil
}

// branchChangesEffects: the two sides of the branch differ in what they can do besides logging — the calls (other than
// to the logger and to fmt) reachable from one successor, before control comes back to the test, are not those
// reachable from the other; or one side leaves the function and the other does not.
func branchChangesEffects(at ssa.Instruction) bool {
	iff, ok := at.(*ssa.If)
	if !ok {
		return true
	}
	b := iff.Block()
	if len(b.Succs) != 2 {
		return true
	}
	cut := map[Edge]bool{{b, 0}: true, {b, 1}: true}
	sig := func(s *ssa.BasicBlock) string {
		var parts []string
		for blk := range reachable([]*ssa.BasicBlock{s}, cut) {
			for _, in := range blk.Instrs {
				switch x := in.(type) {
				case ssa.CallInstruction:
					n := calleeName(x)
					if strings.Contains(n, "logger.") || strings.Contains(n, "/logging.") || strings.HasPrefix(n, "fmt.") || strings.HasPrefix(n, "builtin.") || n == "" && x.Common().IsInvoke() {
						continue
					}
					parts = append(parts, fmt.Sprintf("c%p", x))
				case *ssa.Return:
					parts = append(parts, fmt.Sprintf("r%p", x))
				case *ssa.Store:
					if _, local := baseOf(x.Addr).(*ssa.Alloc); !local { // not the argument array of a variadic call
						parts = append(parts, fmt.Sprintf("w%p", x))
					}
				case *ssa.MapUpdate, *ssa.Send:
					parts = append(parts, fmt.Sprintf("w%p", x))
				}
			}
		}
		sortStrings(parts)
		return strings.Join(parts, ",")
	}
	return sig(b.Succs[0]) != sig(b.Succs[1])
}

// malformedEdges: the edges of fn taken because the entry named member is malformed — nil, a wrong field length, or
// the verdict of a helper that only looks at the shape of the entry.
func malformedEdges(fn *ssa.Function, member string) []Edge {
	isMalformedEdge := func(e Edge) bool {
		for _, ft := range edgeFacts(e) {
			if ft.kind == fIsNil && strings.HasPrefix(pathOf(ft.x), member) {
				return true
			}
			if ft.kind == fTrue || ft.kind == fFalse {
				if c, ok := strip(ft.x).(*ssa.Call); ok {
					if h := samePkgHelper(fn, c); h != nil && len(c.Call.Args) > 0 && isShapePredicate(h) {
						for _, a := range c.Call.Args {
							if pathOf(a) == member {
								return true
							}
						}
					}
				}
			}
		}
		iff, ok := e.From.Instrs[len(e.From.Instrs)-1].(*ssa.If)
		if ok {
			for _, lf := range lenFactsOf(iff.Cond, e.Idx != 0) { // the edge on which the length test FAILED
				if strings.HasPrefix(lf.path, member) {
					return true
				}
			}
		}
		return false
	}
	var cut []Edge
	for _, blk := range fn.Blocks {
		for i := range blk.Succs {
			if isMalformedEdge(Edge{blk, i}) {
				cut = append(cut, Edge{blk, i})
			}
		}
	}
	return cut
}

// keyIsRequestAddress: key (in fn) is the PublicAddress of handler h's request parameter cd — directly, or because fn is
// a helper whose parameter receives it at every call site that h can reach.
func keyIsRequestAddress(w *World, fn *ssa.Function, key ssa.Value, h *ssa.Function, cd string, reach map[*ssa.Function]bool, depth int) bool {
	p := pathOf(key)
	if fn == h {
		return p == cd+".PublicAddress"
	}
	if depth <= 0 {
		return false
	}
	prm, ok := baseOf(key).(*ssa.Parameter)
	if !ok || prm.Parent() != fn {
		return false
	}
	rest := strings.TrimPrefix(p, prm.Name())
	sites := 0
	for _, cs := range staticCallers(w, fn) {
		if !reach[cs.Parent()] {
			continue
		}
		sites++
		okSite := false
		for k, q := range fn.Params {
			if q == prm && k < len(cs.Common().Args) {
				arg := cs.Common().Args[k]
				if rest == "" {
					okSite = keyIsRequestAddress(w, cs.Parent(), arg, h, cd, reach, depth-1)
				} else if cs.Parent() == h {
					okSite = pathOf(arg)+rest == cd+".PublicAddress"
				}
			}
		}
		if !okSite {
			return false
		}
	}
	return sites > 0
}

// handOverIsLossless (C11): an item the notary accepted locally (the vertex is in the ledger, the transaction in the
// awaiting cache) reaches the other nodes only through the pipe to the gossiper's origin loops. A hand-over that gives up
// when the buffer of the pipe is full — a select with a default arm around the send — drops exactly the items of a burst.
func handOverIsLossless(w *World, r *Report, rule string) {
	r.rule(rule, "every method of pipe.Juggler that takes an item sends it on the pipe with a send that waits (a plain send, in the method or in the goroutine it starts, or a select without default arm); a select that can fall through its default arm without a send or a goroutine following it loses the item when the buffer is full", 2)
	fns := w.RepoFuncs("pipe")
	n := 0
	for _, fn := range fns {
		if fn.Signature.Recv() == nil || fn.Parent() != nil || !strings.HasSuffix(fn.Signature.Recv().Type().String(), "pipe.Juggler") || len(fn.Params) < 2 {
			continue
		}
		// the item parameter: its type is the element type of a channel field of the Juggler
		var sends, lossy []ssa.Instruction
		var visit func(g *ssa.Function)
		visit = func(g *ssa.Function) {
			instrsOf(g, func(in ssa.Instruction) {
				switch x := in.(type) {
				case *ssa.Send:
					if chanFieldIdent(x.Chan) != "" || capturedChan(x.Chan) {
						sends = append(sends, x)
					}
				case *ssa.Select:
					for _, st := range x.States {
						if st.Dir != types.SendOnly {
							continue
						}
						if x.Blocking {
							sends = append(sends, x)
							continue
						}
						// the default arm: is another send or a goroutine reachable after the select?
						again := false
						walkFrom(x, nil, nil, func(in2 ssa.Instruction) bool {
							switch in2.(type) {
							case *ssa.Send, *ssa.Go:
								again = true
								return true
							}
							return false
						})
						if again {
							sends = append(sends, x)
						} else {
							lossy = append(lossy, x)
						}
					}
				}
			})
			for _, a := range g.AnonFuncs {
				visit(a)
			}
		}
		visit(fn)
		if len(sends) == 0 && len(lossy) == 0 {
			continue
		}
		n++
		bad := ""
		for _, l := range lossy {
			bad += fmt.Sprintf(" the select at %s sends only if the pipe has room and otherwise gives the item up;", lineOf(w, l))
		}
		r.check(bad == "", rule, shortFn(fn), w.Pos(fn.Pos()), "the item is handed to the origin loop by a send that waits for room", bad)
	}
	if n == 0 {
		r.bad(rule, "pipe.Juggler", "-", "the sending methods of the pipe are identifiable", "no method of pipe.Juggler sends on a channel")
	}
}

// capturedChan: the channel is a field read through a captured receiver inside a function literal.
func capturedChan(v ssa.Value) bool {
	v = strip(v)
	if u, ok := v.(*ssa.UnOp); ok && u.Op == token.MUL {
		if fa, ok := u.X.(*ssa.FieldAddr); ok {
			_, isFV := strip(fa.X).(*ssa.FreeVar)
			if ld, isLd := strip(fa.X).(*ssa.UnOp); isLd {
				_, isFV = ld.X.(*ssa.FreeVar)
			}
			return isFV
		}
	}
	return false
}

// wireGateRefusesOnlyTheUnconvertible (C11): the shape validators in front of the gossip handlers exist so that the
// conversion to the ledger form cannot panic. A length test in such a validator on a field that no conversion turns
// into a fixed-size array is a refusal by content: a vertex the origin's ledger accepted (and every ledger would accept)
// is turned away at the door of every peer.
func wireGateRefusesOnlyTheUnconvertible(w *World, r *Report, rule string) {
	r.rule(rule, "the pure shape validators of package gossip (functions of protobuf messages that return an error and call nothing but len and each other) test the length only of fields that the wire-to-ledger mappers convert to fixed-size arrays ([N]byte(x)); nil tests of the message and its sub-messages are free", 1)
	relPath := func(v ssa.Value) string {
		p := pathOf(v)
		if i := strings.Index(p, "."); i >= 0 {
			return p[i:]
		}
		return ""
	}
	conv := map[string]bool{}
	for _, fn := range w.RepoFuncs("gossip", "transformers") {
		instrsOf(fn, func(in ssa.Instruction) {
			if x, ok := in.(*ssa.SliceToArrayPointer); ok {
				if rp := relPath(x.X); rp != "" {
					conv[rp] = true
				}
			}
		})
	}
	pure := map[*ssa.Function]bool{}
	var isPure func(fn *ssa.Function, depth int) bool
	isPure = func(fn *ssa.Function, depth int) bool {
		if v, ok := pure[fn]; ok {
			return v
		}
		if depth > 3 || fn.Parent() != nil || len(fn.Blocks) == 0 || fn.Signature.Results().Len() != 1 || !isErrorType(fn.Signature.Results().At(0).Type()) {
			return false
		}
		hasPB := false
		for _, p := range fn.Params {
			if isPBMessagePtr(p.Type()) {
				hasPB = true
			}
		}
		if !hasPB || fn.Signature.Recv() != nil {
			return false
		}
		ok := true
		instrsOf(fn, func(in ssa.Instruction) {
			c, isCall := in.(ssa.CallInstruction)
			if !isCall {
				return
			}
			if b, isB := c.Common().Value.(*ssa.Builtin); isB && (b.Name() == "len" || b.Name() == "cap") {
				return
			}
			if cal := c.Common().StaticCallee(); cal != nil && cal != fn && cal.Pkg == fn.Pkg && isPure(cal, depth+1) {
				return
			}
			ok = false
		})
		pure[fn] = ok
		return ok
	}
	n := 0
	for _, fn := range w.RepoFuncs("gossip") {
		if !isPure(fn, 0) {
			continue
		}
		n++
		bad := ""
		instrsOf(fn, func(in ssa.Instruction) {
			c, isCall := in.(*ssa.Call)
			if !isCall {
				return
			}
			if b, isB := c.Call.Value.(*ssa.Builtin); !isB || b.Name() != "len" {
				return
			}
			rp := relPath(c.Call.Args[0])
			if rp == "" || conv[rp] {
				return
			}
			bad += fmt.Sprintf(" len(%s) is tested at %s, but no mapper converts %s to a fixed-size array;", pathOf(c.Call.Args[0]), lineOf(w, c), rp)
		})
		r.check(bad == "", rule, shortFn(fn), w.Pos(fn.Pos()), "the validator tests lengths only where a conversion needs them", bad)
	}
	if n == 0 {
		r.ok(rule, "none", "-", "package gossip has no pure shape validator (the handlers test the shape inline: judged by exits-accounted and D1)")
	}
}
