package main

// C15 — shared map tables of the request-serving structs are only touched under the struct's mutex.
//
// An unsynchronised map iteration / lookup that overlaps a map write is not a recoverable panic: the Go
// runtime aborts the whole process ("fatal error: concurrent map iteration and map write"). Every handler
// runs on its own goroutine, so a table that a request can write (the gossiper's peer table through
// Announce / Discover, the webhook table through the webhooks API) must be read and written with the
// lock held — including reads through an alias taken under the lock and used after it was released.
//
// Rule: for every named struct of the wire-facing packages that has a sync mutex field and a map field,
// every map operation (range step, lookup, update, delete, len, hand-over to a library helper) on a value
// that originates from a load of that field — followed through phis, local cells, closures, helper
// parameters, helper results and nested maps — has the struct's mutex in its must-hold lockset: any mode
// for reads, exclusive for writes.

import (
	"fmt"
	"go/token"
	"go/types"
	"sort"
	"strings"

	"golang.org/x/tools/go/ssa"
)

type tableSpec struct {
	tn      string // "gossip.gossiper"
	field   int
	fname   string
	lockIDs []string
}

func isSyncMutex(t types.Type) bool {
	n, ok := t.(*types.Named)
	if !ok || n.Obj().Pkg() == nil || n.Obj().Pkg().Path() != "sync" {
		return false
	}
	return n.Obj().Name() == "Mutex" || n.Obj().Name() == "RWMutex"
}

type tableAccess struct {
	in    ssa.Instruction
	write bool
	what  string
	at    ssa.Instruction // instruction whose position is reported (a range step has none of its own)
}

// tableAccesses follows a map value forward to the operations performed on it.
type tableFollower struct {
	w        *World
	seenV    map[ssa.Value]bool
	seenCell map[ssa.Value]bool
	accs     []tableAccess
	escapes  []ssa.Instruction
	pending  []*ssa.MapUpdate // the table stored as an element of another map: an escape unless that map is (part of) the table
}

func (tf *tableFollower) add(in ssa.Instruction, write bool, what string) {
	tf.accs = append(tf.accs, tableAccess{in, write, what, in})
}

func isMapType(t types.Type) bool {
	_, ok := t.Underlying().(*types.Map)
	return ok
}

func (tf *tableFollower) value(v ssa.Value) {
	if v == nil || tf.seenV[v] {
		return
	}
	tf.seenV[v] = true
	refs := v.Referrers()
	if refs == nil {
		return
	}
	for _, ref := range *refs {
		switch x := ref.(type) {
		case *ssa.DebugRef:
		case *ssa.Phi:
			tf.value(x)
		case *ssa.ChangeType:
			tf.value(x)
		case *ssa.Range:
			if x.X != v {
				continue
			}
			tf.add(x, false, "range")
			for _, nr := range *x.Referrers() {
				if nx, ok := nr.(*ssa.Next); ok {
					tf.accs = append(tf.accs, tableAccess{nx, false, "range step", x})
					tf.nested(nx)
				}
			}
		case *ssa.Lookup:
			if x.X != v {
				continue
			}
			tf.add(x, false, "lookup")
			tf.nested(x)
		case *ssa.MapUpdate:
			if x.Map == v {
				tf.add(x, true, "update")
			} else if x.Value == v || x.Key == v {
				// stored into another map: only a nested table of a tracked table is followed
				tf.pending = append(tf.pending, x)
			}
		case *ssa.Store:
			if x.Val != v {
				continue
			}
			tf.cell(x.Addr, x)
		case *ssa.MakeClosure:
			cl, _ := x.Fn.(*ssa.Function)
			for i, b := range x.Bindings {
				if b == v && cl != nil && i < len(cl.FreeVars) {
					tf.value(cl.FreeVars[i])
				}
			}
		case *ssa.Return:
			fn := x.Parent()
			idx := -1
			for i, rv := range x.Results {
				if rv == v {
					idx = i
				}
			}
			tf.results(fn, idx, len(x.Results))
		case *ssa.If, *ssa.BinOp:
			// nil comparison
		case ssa.CallInstruction:
			tf.call(x, v)
		case *ssa.MakeInterface, *ssa.Send:
			tf.escapes = append(tf.escapes, ref)
		case *ssa.Extract, *ssa.TypeAssert, *ssa.UnOp, *ssa.FieldAddr, *ssa.Field, *ssa.Index, *ssa.IndexAddr:
		default:
			tf.escapes = append(tf.escapes, ref)
		}
	}
}

// nested continues with map-typed components of a lookup / range step result (a table of tables)
func (tf *tableFollower) nested(v ssa.Value) {
	if isMapType(v.Type()) {
		tf.value(v)
		return
	}
	tup, ok := v.Type().(*types.Tuple)
	if !ok {
		return
	}
	for _, ref := range *v.Referrers() {
		if ex, ok := ref.(*ssa.Extract); ok && ex.Index < tup.Len() && isMapType(tup.At(ex.Index).Type()) {
			tf.value(ex)
		}
	}
}

// cell follows a store of the table into a memory cell: local variables (possibly captured) are followed;
// the table's own field is the table; anything else is an escape.
func (tf *tableFollower) cell(addr ssa.Value, st ssa.Instruction) {
	switch a := addr.(type) {
	case *ssa.Alloc:
		tf.cellLoads(a)
	case *ssa.FreeVar:
		tf.cellLoads(a)
	case *ssa.FieldAddr:
		if isMapType(deref(a.Type())) {
			if _, local := strip(a.X).(*ssa.Alloc); local && !tf.allocEscapes(strip(a.X).(*ssa.Alloc)) {
				// a field of a function-local struct value
				for _, ref := range *a.Referrers() {
					if ld, ok := ref.(*ssa.UnOp); ok && ld.Op == token.MUL {
						tf.value(ld)
					}
				}
				return
			}
		}
		tf.escapes = append(tf.escapes, st)
	default:
		tf.escapes = append(tf.escapes, st)
	}
}

func deref(t types.Type) types.Type {
	if p, ok := t.Underlying().(*types.Pointer); ok {
		return p.Elem()
	}
	return t
}

func (tf *tableFollower) allocEscapes(a *ssa.Alloc) bool {
	for _, ref := range *a.Referrers() {
		switch ref.(type) {
		case *ssa.FieldAddr, *ssa.DebugRef:
		case *ssa.UnOp, *ssa.Store:
		default:
			return true
		}
	}
	return false
}

func (tf *tableFollower) cellLoads(c ssa.Value) {
	if tf.seenCell[c] {
		return
	}
	tf.seenCell[c] = true
	for _, ref := range *c.Referrers() {
		switch x := ref.(type) {
		case *ssa.UnOp:
			if x.Op == token.MUL && x.X == c {
				tf.value(x)
			}
		case *ssa.MakeClosure:
			cl, _ := x.Fn.(*ssa.Function)
			for i, b := range x.Bindings {
				if b == c && cl != nil && i < len(cl.FreeVars) {
					tf.cellLoads(cl.FreeVars[i])
				}
			}
		}
	}
}

func (tf *tableFollower) results(fn *ssa.Function, idx, n int) {
	if fn == nil || idx < 0 {
		return
	}
	node := tf.w.CallGraph().Nodes[fn]
	if node == nil {
		return
	}
	for _, e := range node.In {
		cv, ok := e.Site.(ssa.Value)
		if !ok {
			continue
		}
		if n == 1 {
			tf.value(cv)
			continue
		}
		for _, ref := range *cv.Referrers() {
			if ex, ok := ref.(*ssa.Extract); ok && ex.Index == idx {
				tf.value(ex)
			}
		}
	}
}

func (tf *tableFollower) call(c ssa.CallInstruction, v ssa.Value) {
	cc := c.Common()
	in := c.(ssa.Instruction)
	if b, ok := cc.Value.(*ssa.Builtin); ok {
		switch b.Name() {
		case "len":
			tf.add(in, false, "len")
		case "delete", "clear":
			tf.add(in, true, b.Name())
		default:
			tf.add(in, false, b.Name())
		}
		return
	}
	var callees []*ssa.Function
	if f := cc.StaticCallee(); f != nil {
		callees = []*ssa.Function{f}
	} else if node := tf.w.CallGraph().Nodes[in.Parent()]; node != nil {
		for _, e := range node.Out {
			if e.Site == c && e.Callee != nil {
				callees = append(callees, e.Callee.Func)
			}
		}
	}
	if len(callees) == 0 {
		tf.add(in, true, "handed to an unresolved call")
		return
	}
	for _, f := range callees {
		if f == nil {
			continue
		}
		if !isRepoFunc(f) || len(f.Blocks) == 0 {
			// library helper working on the table for the duration of the call
			n := f.String()
			if i := strings.Index(n, "["); i > 0 {
				n = n[:i]
			}
			write := true
			switch n {
			case "maps.Keys", "maps.Values", "maps.Clone", "maps.Equal", "maps.EqualFunc", "maps.All",
				"golang.org/x/exp/maps.Keys", "golang.org/x/exp/maps.Values", "golang.org/x/exp/maps.Clone", "golang.org/x/exp/maps.Equal":
				write = false
			}
			tf.add(in, write, "handed to "+n)
			continue
		}
		// a repo helper: continue with the parameter(s) that receive the table
		args := cc.Args
		params := f.Params
		if cc.IsInvoke() {
			if len(params) > 0 {
				params = params[1:]
			}
		}
		for i, a := range args {
			if a == v && i < len(params) {
				tf.value(params[i])
			}
		}
		if _, isGo := c.(*ssa.Go); isGo {
			_ = isGo // the callee's own lockset (nothing held on entry of a goroutine) decides
		}
	}
}

func tableSpecsOf(w *World, pkgs ...string) []tableSpec {
	var out []tableSpec
	seen := map[string]bool{}
	for _, p := range w.Prog.AllPackages() {
		if p.Pkg == nil || !strings.HasPrefix(p.Pkg.Path(), modPath+"/") {
			continue
		}
		okPkg := false
		for _, want := range pkgs {
			if p.Pkg.Path() == modPath+"/"+want {
				okPkg = true
			}
		}
		if !okPkg {
			continue
		}
		for _, m := range p.Members {
			tn, ok := m.(*ssa.Type)
			if !ok {
				continue
			}
			named, ok := tn.Type().(*types.Named)
			if !ok {
				continue
			}
			st, ok := named.Underlying().(*types.Struct)
			if !ok {
				continue
			}
			var locks []string
			name := p.Pkg.Name() + "." + curTypeNameOf(named)
			for i := 0; i < st.NumFields(); i++ {
				if isSyncMutex(st.Field(i).Type()) {
					locks = append(locks, name+"."+fieldName(named, i))
				}
			}
			if len(locks) == 0 {
				continue
			}
			for i := 0; i < st.NumFields(); i++ {
				if isMapType(st.Field(i).Type()) {
					k := name + "." + fieldName(named, i)
					if !seen[k] {
						seen[k] = true
						out = append(out, tableSpec{tn: name, field: i, fname: fieldName(named, i), lockIDs: locks})
					}
				}
			}
		}
	}
	sort.Slice(out, func(i, j int) bool { return out[i].tn+out[i].fname < out[j].tn+out[j].fname })
	return out
}

// curTypeNameOf gives the name lockIdent uses for a named type (the current tree's name).
func curTypeNameOf(n *types.Named) string { return n.Obj().Name() }

// teardownOnly reports whether fn runs only from a defer of the function that allocates the struct,
// registered before the deferred stop of the server (so it runs after the server stopped serving).
func teardownOnly(w *World, fn *ssa.Function) (bool, string) {
	node := w.CallGraph().Nodes[fn]
	if node == nil || len(node.In) == 0 {
		return false, ""
	}
	for _, e := range node.In {
		d, ok := e.Site.(*ssa.Defer)
		if !ok {
			return false, ""
		}
		recv, _ := callArgs(d)
		if recv == nil {
			return false, ""
		}
		if _, fresh := strip(recv).(*ssa.Alloc); !fresh {
			return false, ""
		}
		// a later registered (hence earlier executed) deferred stop of the server, on every path past this defer
		host := d.Parent()
		stopFound := false
		instrsOf(host, func(in ssa.Instruction) {
			if sd, ok := in.(*ssa.Defer); ok && sd != d {
				n := calleeName(sd)
				if strings.HasSuffix(n, ".Server).GracefulStop") || strings.HasSuffix(n, ".Server).Stop") || strings.HasSuffix(n, ".App).Shutdown") || strings.HasSuffix(n, ".Server).Shutdown") {
					if d.Block().Dominates(sd.Block()) && (d.Block() != sd.Block() || indexIn(d.Block(), d) < indexIn(sd.Block(), sd)) {
						stopFound = true
					}
				}
			}
		})
		if !stopFound {
			return false, ""
		}
	}
	return true, "runs only from a defer of the constructor that was registered before the deferred server stop: the server no longer serves when it runs"
}

type tableInfo struct {
	sp     tableSpec
	tf     *tableFollower
	nLoads int
}

// collectTables follows every mutex-guarded map field of the structs of pkgs to the operations performed on it.
func collectTables(w *World, pkgs ...string) []tableInfo {
	specs := tableSpecsOf(w, pkgs...)
	fns := w.RepoFuncs(pkgs...)
	var out []tableInfo
	for _, sp := range specs {
		tf := &tableFollower{w: w, seenV: map[ssa.Value]bool{}, seenCell: map[ssa.Value]bool{}}
		nLoads := 0
		for _, fn := range fns {
			instrsOf(fn, func(in ssa.Instruction) {
				fa, ok := in.(*ssa.FieldAddr)
				if !ok || fa.Field != sp.field {
					return
				}
				t := deref(fa.X.Type())
				n, ok := t.(*types.Named)
				if !ok || n.Obj().Pkg() == nil || n.Obj().Pkg().Name()+"."+n.Obj().Name() != sp.tn {
					return
				}
				if _, fresh := strip(fa.X).(*ssa.Alloc); fresh {
					return // the struct under construction is not shared yet
				}
				for _, ref := range *fa.Referrers() {
					switch u := ref.(type) {
					case *ssa.UnOp:
						if u.Op == token.MUL {
							nLoads++
							tf.value(u)
						}
					case *ssa.Store:
						if u.Addr == ssa.Value(fa) {
							tf.add(u, true, "table replaced")
						}
					case *ssa.DebugRef:
					default:
						tf.escapes = append(tf.escapes, ref)
					}
				}
			})
		}
		for _, mu := range tf.pending {
			if !tf.seenV[mu.Map] {
				tf.escapes = append(tf.escapes, mu)
			}
		}
		tf.pending = nil
		out = append(out, tableInfo{sp, tf, nLoads})
	}
	return out
}

func tablesUnderLock(w *World, r *Report, rule string) {
	r.rule(rule, "every operation on a map table of a request-serving struct that has a mutex (peer table, webhook table) — range step, lookup, update, delete, len, hand-over to a library helper; aliases, nested tables, helpers and closures followed — has that mutex in its must-hold lockset (exclusive for writes)", 12)
	pkgs := []string{"gossip", "webhooks", "notaryserver", "webhooksserver"}
	specs := tableSpecsOf(w, pkgs...)
	li := ComputeLocks(w, func(fn *ssa.Function) bool { return isRepoFunc(fn) })
	for _, ti := range collectTables(w, pkgs...) {
		sp, tf, nLoads := ti.sp, ti.tf, ti.nLoads
		tkey := sp.tn + "." + sp.fname
		if nLoads == 0 && len(tf.accs) == 0 {
			r.ok(rule, tkey+"/unused", "-", "table is never read outside the constructor")
			continue
		}
		// which mutex guards the table: the one held (exclusively) at every write
		lock := ""
		for _, id := range sp.lockIDs {
			all, any := true, false
			for _, a := range tf.accs {
				if a.write {
					any = true
					if !li.At(a.in).Has(id, "W") {
						all = false
					}
				}
			}
			if any && all {
				lock = id
				break
			}
		}
		if lock == "" {
			lock = sp.lockIDs[0]
		}
		for _, mu := range tf.pending {
			if !tf.seenV[mu.Map] {
				tf.escapes = append(tf.escapes, mu)
			}
		}
		ord := map[string]int{}
		sort.SliceStable(tf.accs, func(i, j int) bool { return tf.accs[i].at.Pos() < tf.accs[j].at.Pos() })
		exempt := map[*ssa.Function]string{}
		for _, a := range tf.accs {
			fn := a.in.Parent()
			root := fn
			for root.Parent() != nil {
				root = root.Parent()
			}
			base := shortFn(fn) + "/" + a.what
			ord[base]++
			key := fmt.Sprintf("%s/%s#%d", tkey, base, ord[base])
			r.seen(shortFn(fn))
			why, known := exempt[root]
			if !known {
				if ok, reason := teardownOnly(w, root); ok {
					why = reason
				}
				exempt[root] = why
			}
			if why != "" {
				r.ok(rule, key, lineOf(w, a.at), "teardown: "+why)
				continue
			}
			held := li.At(a.in)
			mode := ""
			need := "held"
			if a.write {
				mode, need = "W", "held exclusively"
			}
			r.check(held.Has(lock, mode), rule, key, lineOf(w, a.at),
				fmt.Sprintf("%s of %s with %s %s", a.what, tkey, lock, need),
				fmt.Sprintf("%s of the shared table %s at %s in %s runs with lockset %s: a concurrent request that writes the table (peer join, webhook registration) makes the runtime abort the process", a.what, tkey, lineOf(w, a.at), shortFn(fn), held))
		}
		for i, e := range tf.escapes {
			r.undecided(rule, fmt.Sprintf("%s/escape#%d/%s", tkey, i+1, shortFn(e.Parent())), lineOf(w, e), "the table does not leave the functions that hold its lock",
				fmt.Sprintf("%s is stored / sent / boxed at %s: accesses through that alias cannot be attributed to %s", tkey, lineOf(w, e), lock))
		}
	}
	if len(specs) == 0 {
		r.bad(rule, "tables", "-", "at least the gossiper's peer table is found", "no struct with a mutex and a map field in "+strings.Join(pkgs, ", "))
	}
}
