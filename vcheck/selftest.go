package main

// Engine self-test on the canary package (stdlib only): every run first checks that each analysis
// engine fires on a broken miniature and stays silent on the correct one.

import (
	"fmt"
	"go/types"
	"os"
	"path/filepath"

	"golang.org/x/tools/go/packages"
	"golang.org/x/tools/go/ssa"
	"golang.org/x/tools/go/ssa/ssautil"
)

func canaryDir() string {
	if d := os.Getenv("VERIF_CANARY"); d != "" {
		return d
	}
	return filepath.Join(verifDir(), "vcheck", "canary")
}

// selfTest returns the list of engine expectations that failed (empty = all engines alive).
func selfTest() (failed []string, n int) {
	dir := canaryDir()
	if _, err := os.Stat(dir); err != nil {
		dir = "/verif/vcheck/canary"
	}
	cfg := &packages.Config{Mode: packages.LoadAllSyntax, Dir: dir,
		Env: append(os.Environ(), "GOFLAGS=-mod=mod", "GOPROXY=off", "GOSUMDB=off", "GOTOOLCHAIN=local", "GOWORK=off")}
	pkgs, err := packages.Load(cfg, ".")
	if err != nil || len(pkgs) != 1 || len(pkgs[0].Errors) > 0 {
		return []string{fmt.Sprintf("canary package does not load: %v %v", err, pkgs)}, 0
	}
	prog, spkgs := ssautil.AllPackages(pkgs, ssa.InstantiateGenerics)
	prog.Build()
	sp := spkgs[0]
	w := &World{RepoDir: dir, Fset: pkgs[0].Fset, Pkgs: pkgs, Prog: prog, SSA: map[string]*ssa.Package{"canary": sp}}
	fnOf := func(name string) *ssa.Function {
		f := sp.Func(name)
		if f == nil {
			failed = append(failed, "canary function missing: "+name)
		}
		return f
	}
	expect := func(label string, got, want bool) {
		n++
		if got != want {
			failed = append(failed, fmt.Sprintf("%s: got %v want %v", label, got, want))
		}
	}
	effectBehindGuard := func(name string) bool {
		f := fnOf(name)
		if f == nil {
			return false
		}
		gs := callsTo(f, "canary.g")
		es := callsTo(f, "canary.effect")
		if len(gs) != 1 || len(es) != 1 {
			return false
		}
		return behind(es[0], passErrNil(gs[0]))
	}
	expect("guard dominance / if err != nil", effectBehindGuard("GuardOK"), true)
	expect("guard dominance / error only logged", effectBehindGuard("GuardBad"), false)
	expect("guard dominance / switch err {case nil}", effectBehindGuard("GuardSwitchOK"), true)
	expect("guard dominance / err != nil && y", effectBehindGuard("GuardShortCircuitBad"), false)

	expect("path obligation / drain helper", drainsParam(fnOf("DrainOK"), 0), true)
	expect("path obligation / early-exit helper", drainsParam(fnOf("DrainBad"), 0), false)
	consumerExits := func(name string) int {
		f := fnOf(name)
		if f == nil {
			return -1
		}
		ch := f.Params[0]
		_, exh := exhaustedEdges(f, ch)
		n := 0
		walkFrom(nil, f.Blocks[0], edgeSet(exh), func(in ssa.Instruction) bool {
			if isDrainCallOfLocal(in, ch) {
				return true
			}
			if _, ok := in.(*ssa.Return); ok {
				n++
				return true
			}
			return false
		})
		return n
	}
	expect("path obligation / consumer drains on early exit", consumerExits("ConsumerOK") == 0, true)
	expect("path obligation / consumer abandons channel", consumerExits("ConsumerBad") == 0, false)

	li := ComputeLocks(w, func(fn *ssa.Function) bool { return fn.Pkg == sp })
	heldAtStore := func(name, mode string) bool {
		f := fnOf(name)
		if f == nil {
			return false
		}
		ok := false
		instrsOf(f, func(in ssa.Instruction) {
			if st, isSt := in.(*ssa.Store); isSt {
				if g, isG := st.Addr.(*ssa.Global); isG && g.Name() == "shared" {
					ok = li.At(st).Has("canary.mu", mode)
				}
			}
		})
		return ok
	}
	expect("lockset / write under Lock", heldAtStore("LockOK", "W"), true)
	expect("lockset / write under RLock only", heldAtStore("LockReadOnly", "W"), false)
	expect("lockset / callee entry = intersection of callers", heldAtStore("lockedHelper", "W"), true)
	leak := func(name string) bool {
		f := fnOf(name)
		bad := false
		instrsOf(f, func(in ssa.Instruction) {
			c, ok := in.(*ssa.Call)
			if !ok {
				return
			}
			if op, mode, id, ok := lockOp(c); ok && op == "lock" {
				exits := exitsAvoiding(c, nil, func(x ssa.Instruction) bool {
					if ci, ok := x.(ssa.CallInstruction); ok {
						if op2, m2, id2, ok := lockOp(ci); ok && op2 == "unlock" && m2 == mode && id2 == id {
							return true
						}
					}
					return false
				})
				if len(exits) > 0 {
					bad = true
				}
			}
		})
		return bad
	}
	expect("lock released / early return leaks", leak("LockLeak"), true)
	expect("lock released / deferred unlock", leak("LockOK"), false)

	var all []*ssa.Function
	for _, m := range sp.Members {
		if f, ok := m.(*ssa.Function); ok && len(f.Blocks) > 0 {
			all = append(all, f)
		}
	}
	fe := NewFactEngine(w, all)
	fe.anyPkg = true
	convOK := func(name string) bool {
		f := fnOf(name)
		ok := false
		instrsOf(f, func(in ssa.Instruction) {
			if x, isC := in.(*ssa.SliceToArrayPointer); isC {
				ok, _ = fe.Holds(x, pfact{kind: kLenMin, path: pathOf(x.X), min: 4}, 0)
			}
		})
		return ok
	}
	expect("facts / len(b) != 4 guard", convOK("LenOK"), true)
	expect("facts / len(b) == 0 guard is too weak", convOK("LenBad"), false)
	expect("facts / validator ensures-summary", convOK("LenViaValidatorOK"), true)
	expect("facts / bool validator `a && b`", convOK("LenViaBoolExprOK"), true)
	expect("facts / bool validator `a || b` proves nothing", convOK("LenViaWeakBoolBad"), false)
	expect("facts / negated bool validator `isIncomplete(b)`", convOK("LenViaNegatedBoolOK"), true)
	nilOK := func(name string) bool {
		f := fnOf(name)
		ok := true
		instrsOf(f, func(in ssa.Instruction) {
			if fa, isFA := in.(*ssa.FieldAddr); isFA && fieldName(fa.X.Type(), fa.Field) == "f" {
				ok, _ = fe.Holds(fa, pfact{kind: kNotNil, path: pathOf(fa.X)}, 0)
			}
		})
		return ok
	}
	expect("facts / sub-message nil via validator", nilOK("NilOK"), true)
	expect("facts / sub-message not checked", nilOK("NilBad"), false)
	boundsBad := func(name string) bool {
		f := fnOf(name)
		r := &Report{floors: map[string]int{}, ruleDoc: map[string]string{}, Extra: map[string]any{}, FuncsSeen: map[string]bool{}}
		d3Obligations(w, r, fe, "d3", f)
		for _, o := range r.Obs {
			if !o.OK {
				return true
			}
		}
		return len(r.Obs) == 0
	}
	expect("bounds / len(b)-4 < 1 covers b[1:len-4]", boundsBad("SliceBoundsOK"), false)
	expect("bounds / len(b)-4 < 0 does not", boundsBad("SliceBoundsBad"), true)

	if f := fnOf("Origins"); f != nil {
		got := map[string]bool{}
		for _, ret := range returnsOf(f) {
			for _, o := range origins(ret.Results[0]) {
				got[pathOf(o)] = true
			}
		}
		expect("origins / through append, range and φ", got["a"] && got["b"], true)
	}
	dropped := func(name string) bool {
		f := fnOf(name)
		r := &Report{floors: map[string]int{}, ruleDoc: map[string]string{}, Extra: map[string]any{}, FuncsSeen: map[string]bool{}}
		noDroppedErrors(w, r, "e", f)
		for _, o := range r.Obs {
			if !o.OK {
				return true
			}
		}
		return false
	}
	expect("pooled memory / returned after Put", len(pooledMemoryLeaks(w, fnOf("PoolLeakBad"))) > 0, true)
	expect("pooled memory / copied out", len(pooledMemoryLeaks(w, fnOf("PoolCopyOK"))) > 0, false)
	hashOf := func(typ string) *ssa.Function {
		for _, m := range sp.Members {
			if t, ok := m.(*ssa.Type); ok && t.Name() == typ {
				return prog.LookupMethod(t.Type(), sp.Pkg, "Sum64")
			}
		}
		failed = append(failed, "canary type missing: "+typ)
		return nil
	}
	if ph, wh := hashOf("prefixHasher"), hashOf("wholeHasher"); ph != nil && wh != nil {
		expect("key hash / prefix only", partialKeyHash(w, ph) != "", true)
		expect("key hash / whole key", partialKeyHash(w, wh) != "", false)
	}
	methodOf := func(typ, name string) *ssa.Function {
		for _, m := range sp.Members {
			if t, ok := m.(*ssa.Type); ok && t.Name() == typ {
				return prog.LookupMethod(types.NewPointer(t.Type()), sp.Pkg, name)
			}
		}
		failed = append(failed, "canary type missing: "+typ)
		return nil
	}
	if g, l := methodOf("miniLRU", "Get"), methodOf("miniLRU", "Len"); g != nil && l != nil {
		wg, _ := writesThroughReceiver(g, 0, nil)
		wl, _ := writesThroughReceiver(l, 0, nil)
		expect("receiver purity / look-up that moves the entry", wg, true)
		expect("receiver purity / length", wl, false)
	}
	expect("error discipline / checked", dropped("RetOK"), false)
	expect("error discipline / result discarded", dropped("RetDrop"), true)
	expect("error discipline / only logged", dropped("RetLogOnly"), true)
	return failed, n
}

// isDrainCallOfLocal is isDrainCallOf without the repo-package restriction (canary package).
func isDrainCallOfLocal(in ssa.Instruction, ch ssa.Value) bool {
	c, ok := in.(*ssa.Call)
	if !ok {
		return false
	}
	cal := c.Call.StaticCallee()
	if cal == nil {
		return false
	}
	for k, a := range c.Call.Args {
		if sameVal(a, ch) && drainsParam(cal, k) {
			return true
		}
	}
	return false
}
