package main

// C08 — ledger operations never wedge the node. Lock/channel structure only.

import (
	"fmt"
	"go/token"
	"go/types"
	"sort"
	"strings"

	"golang.org/x/tools/go/ssa"
)

const abMux = "accountant.AccountingBook.mux"

// Stream is a function that returns a channel fed by a goroutine which holds a lock while it is
// blocked in the send.
type Stream struct {
	Fn      *ssa.Function
	DataIdx int    // result index of the data channel
	StopIdx int    // result index of the channel the producer polls to stop (-1 if none)
	Lock    string // e.g. "R:dag.DAG.muDAG"
	SendPos string
	// does the producer re-check the stop channel while parked in the send? (select with both arms)
	StopCheckedInSend bool
	ProducerCloses    []int // result indices of channels closed by the producer goroutine
}

// chanRootIn resolves a channel-typed value inside the producer side to the variable (Alloc) or
// MakeChan of the stream function it denotes. bind maps FreeVars/Parameters of nested functions
// to values of the enclosing context.
func chanRootIn(v ssa.Value, bind map[ssa.Value]ssa.Value) ssa.Value {
	for i := 0; i < 10; i++ {
		switch x := v.(type) {
		case *ssa.UnOp:
			if x.Op == token.MUL {
				if _, ok := x.X.(*ssa.Alloc); ok {
					rs := reachingStores(x)
					if !rs.escaped && !rs.zero && len(rs.vals) == 1 {
						v = rs.vals[0] // spilled result / plain local: follow the stored value
						continue
					}
				}
				v = x.X
				continue
			}
		case *ssa.ChangeType:
			v = x.X
			continue
		case *ssa.FreeVar, *ssa.Parameter:
			if b, ok := bind[v]; ok {
				v = b
				continue
			}
		case *ssa.Alloc:
			return x
		case *ssa.MakeChan:
			return x
		}
		return v
	}
	return v
}

// deriveStreams finds lock-holding streams among the given functions from their own bodies.
func deriveStreams(w *World, li *LockInfo, cands []*ssa.Function) []Stream {
	var out []Stream
	for _, F := range cands {
		res := F.Signature.Results()
		chanIdx := []int{}
		for i := 0; i < res.Len(); i++ {
			if _, ok := res.At(i).Type().Underlying().(*types.Chan); ok {
				chanIdx = append(chanIdx, i)
			}
		}
		if len(chanIdx) == 0 || len(F.Blocks) == 0 {
			continue
		}
		// result index -> root variable
		roots := map[int]ssa.Value{}
		for _, r := range returnsOf(F) {
			for _, i := range chanIdx {
				v := r.Results[i]
				if isNilConst(v) {
					continue
				}
				roots[i] = chanRootIn(v, nil)
			}
		}
		idxOf := func(root ssa.Value) int {
			for i, r := range roots {
				if r == root {
					return i
				}
			}
			return -1
		}
		instrsOf(F, func(in ssa.Instruction) {
			g, ok := in.(*ssa.Go)
			if !ok {
				return
			}
			G := closureOf(g.Call.Value)
			if G == nil {
				return
			}
			bind := map[ssa.Value]ssa.Value{}
			if mc, ok := g.Call.Value.(*ssa.MakeClosure); ok {
				for k, fv := range G.FreeVars {
					bind[fv] = mc.Bindings[k]
				}
			}
			st := Stream{Fn: F, DataIdx: -1, StopIdx: -1}
			// visit G and static callees (depth 2) carrying bindings
			var visit func(fn *ssa.Function, bind map[ssa.Value]ssa.Value, depth int)
			visit = func(fn *ssa.Function, bind map[ssa.Value]ssa.Value, depth int) {
				instrsOf(fn, func(in ssa.Instruction) {
					switch x := in.(type) {
					case *ssa.Send:
						i := idxOf(chanRootIn(x.Chan, bind))
						held := li.At(x)
						if i >= 0 && !held.top && len(held.m) > 0 {
							st.DataIdx = i
							var ls []string
							for k := range held.m {
								ls = append(ls, k)
							}
							sort.Strings(ls)
							st.Lock = strings.Join(ls, ",")
							st.SendPos = lineOf(w, x)
						}
					case *ssa.Select:
						hasSend, hasRecv := -1, -1
						for _, s := range x.States {
							i := idxOf(chanRootIn(s.Chan, bind))
							if i < 0 {
								continue
							}
							if s.Dir == types.SendOnly {
								hasSend = i
							} else {
								hasRecv = i
							}
						}
						if hasRecv >= 0 {
							st.StopIdx = hasRecv
						}
						if hasSend >= 0 && hasRecv >= 0 {
							st.StopCheckedInSend = true
							held := li.At(x)
							if !held.top && len(held.m) > 0 {
								st.DataIdx = hasSend
							}
						}
					case *ssa.UnOp:
						if x.Op == token.ARROW {
							if i := idxOf(chanRootIn(x.X, bind)); i >= 0 {
								st.StopIdx = i
							}
						}
					case *ssa.Call:
						if b, ok := x.Call.Value.(*ssa.Builtin); ok && b.Name() == "close" {
							if i := idxOf(chanRootIn(x.Call.Args[0], bind)); i >= 0 {
								st.ProducerCloses = append(st.ProducerCloses, i)
							}
							return
						}
						if depth >= 2 {
							return
						}
						if cal := x.Call.StaticCallee(); cal != nil && len(cal.Blocks) > 0 && cal.Pkg == F.Pkg {
							nb := map[ssa.Value]ssa.Value{}
							for k, p := range cal.Params {
								if k < len(x.Call.Args) {
									nb[p] = chanRootIn(x.Call.Args[k], bind)
								}
							}
							visit(cal, nb, depth+1)
						}
					}
				})
			}
			visit(G, bind, 0)
			if st.DataIdx >= 0 {
				sort.Ints(st.ProducerCloses)
				out = append(out, st)
			}
		})
	}
	sort.Slice(out, func(i, j int) bool { return out[i].Fn.String() < out[j].Fn.String() })
	return out
}

// recvsOn returns the comma-ok receives on channel ch in fn and their exhausted (ok == false) edges.
func exhaustedEdges(fn *ssa.Function, ch ssa.Value) (recvs []*ssa.UnOp, edges []Edge) {
	instrsOf(fn, func(in ssa.Instruction) {
		u, ok := in.(*ssa.UnOp)
		if !ok || u.Op != token.ARROW || !u.CommaOk || !sameVal(u.X, ch) {
			return
		}
		recvs = append(recvs, u)
		for _, r := range *u.Referrers() {
			if e, ok := r.(*ssa.Extract); ok && e.Index == 1 {
				edges = append(edges, falseEdges(fn, e)...)
			}
		}
	})
	return
}

// drainsParam: every path from entry to an exit of fn crosses the exhausted edge of a receive on
// parameter i (fn is a "drain helper").
func drainsParam(fn *ssa.Function, i int) bool {
	if fn == nil || len(fn.Blocks) == 0 || i >= len(fn.Params) {
		return false
	}
	_, edges := exhaustedEdges(fn, fn.Params[i])
	if len(edges) == 0 {
		return false
	}
	exits := 0
	walkFrom(nil, fn.Blocks[0], edgeSet(edges), func(in ssa.Instruction) bool {
		switch in.(type) {
		case *ssa.Return, *ssa.Panic:
			exits++
			return true
		}
		return false
	})
	return exits == 0
}

func isDrainCallOf(in ssa.Instruction, ch ssa.Value) bool {
	c, ok := in.(*ssa.Call)
	if !ok {
		return false
	}
	cal := c.Call.StaticCallee()
	if cal == nil || !isRepoFunc(cal) {
		return false
	}
	for k, a := range c.Call.Args {
		if sameVal(a, ch) && drainsParam(cal, k) {
			return true
		}
	}
	return false
}

// exhaustedEdgesOfPath: the ok==false edges of comma-ok receives (range loops) on the channel named dataPath.
func exhaustedEdgesOfPath(fn *ssa.Function, res resolver, dataPath string) []Edge {
	var es []Edge
	instrsOf(fn, func(in ssa.Instruction) {
		u, ok := in.(*ssa.UnOp)
		if !ok || u.Op != token.ARROW || !u.CommaOk || res(u.X) != dataPath {
			return
		}
		for _, ref := range *u.Referrers() {
			if e, ok := ref.(*ssa.Extract); ok && e.Index == 1 {
				es = append(es, falseEdges(fn, e)...)
			}
		}
	})
	return es
}

// consumesOnlyArg: call x hands channel v to a same-package helper that only receives from it, drains it, or
// hands it on to such a helper (a partial consumer: the caller's walk follows it).
func consumesOnlyArg(x *ssa.Call, v ssa.Value, depth int) bool {
	h := x.Call.StaticCallee()
	if h == nil || !isRepoFunc(h) || len(h.Blocks) == 0 || depth <= 0 {
		return false
	}
	ok := false
	for k, a := range x.Call.Args {
		if !sameVal(a, v) || k >= len(h.Params) {
			continue
		}
		ok = true
		var check func(pv ssa.Value) bool
		check = func(pv ssa.Value) bool {
			for _, ref := range *pv.Referrers() {
				switch y := ref.(type) {
				case *ssa.UnOp, *ssa.DebugRef:
				case *ssa.ChangeType:
					if !check(y) {
						return false
					}
				case *ssa.Call:
					if !isDrainCallOf(y, pv) && !consumesOnlyArg(y, pv, depth-1) {
						return false
					}
				default:
					return false
				}
			}
			return true
		}
		if !check(h.Params[k]) {
			return false
		}
	}
	return ok
}

// loopOf returns the blocks of the consumption loop of a receive: blocks reachable from the recv
// block from which the recv block is reachable again.
func loopOf(recvBlock *ssa.BasicBlock, cut map[Edge]bool) map[*ssa.BasicBlock]bool {
	fwd := reachable([]*ssa.BasicBlock{recvBlock}, cut)
	loop := map[*ssa.BasicBlock]bool{}
	for b := range fwd {
		if b == recvBlock || reachable(succsOf(b, cut), cut)[recvBlock] {
			loop[b] = true
		}
	}
	return loop
}

func succsOf(b *ssa.BasicBlock, cut map[Edge]bool) []*ssa.BasicBlock {
	var out []*ssa.BasicBlock
	for i, s := range b.Succs {
		if !cut[Edge{b, i}] {
			out = append(out, s)
		}
	}
	return out
}

func describeExit(in ssa.Instruction) string {
	switch x := in.(type) {
	case *ssa.Return:
		fn := x.Parent()
		if i := errIndex(fn); i >= 0 {
			vals, _ := resultVals(x, i)
			var ds []string
			for _, v := range vals {
				ds = append(ds, describeErrVal(v))
			}
			ds = uniqStrings(ds)
			return "return " + strings.Join(ds, "|")
		}
		return "return"
	case *ssa.Panic:
		return "panic"
	}
	return "exit"
}

func init() {
	register("C08", []string{"./accountant", "./gossip"},
		"Structural necessary conditions of 'ledger operations never wedge the node', decided for all paths and schedules from the type-checked SSA of /repo: "+
			"lock-holding stream producers are derived from heimdalr/dag's own source; every consumer path must let the producer finish (drain), never sends on the producer-closed stop channel, "+
			"re-enters the graph lock only under the ledger lock, performs no unguarded blocking channel operation while a lock is held, no send/lock wait-for cycle exists, "+
			"every lock is released on all paths, and no pointer the operation itself nil-checks is dereferenced on a path where it may be nil. The behaviour (termination of walks, I/O blocking) is not decided.",
		runC08)
}

func runC08(w *World, r *Report) {
	r.NotDecided = []string{"termination of the graph walks themselves", "blocking inside badger / logger / gRPC", "fairness of sync.RWMutex beyond writer-preference"}
	dagSSA := w.SSA[dagPkg]
	if dagSSA == nil {
		r.bad("analyser", "dag-package", "-", "heimdalr/dag must be loaded with syntax", "package not found")
		return
	}
	scope := func(fn *ssa.Function) bool {
		if fn.Pkg == nil {
			return false
		}
		p := fn.Pkg.Pkg.Path()
		return p == dagPkg || strings.HasPrefix(p, modPath+"/accountant") || strings.HasPrefix(p, modPath+"/gossip")
	}
	li := ComputeLocks(w, scope)

	// ---- rule 1: derive lock-holding streams from the library source
	r.rule("stream-derivation", "functions returning a channel fed by a goroutine that holds a lock while blocked in the send (derived from source, not listed)", 2)
	var cands []*ssa.Function
	for fn := range w.AllFuncs() {
		if fn.Pkg == dagSSA && fn.Parent() == nil && len(fn.Blocks) > 0 {
			cands = append(cands, fn)
		}
	}
	for _, fn := range w.RepoFuncs("accountant") {
		if fn.Parent() == nil {
			cands = append(cands, fn)
		}
	}
	streams := deriveStreams(w, li, cands)
	streamByName := map[string]Stream{}
	var streamNames []string
	for _, s := range streams {
		name := s.Fn.Object().(*types.Func).FullName()
		streamByName[name] = s
		streamNames = append(streamNames, name)
		r.ok("stream-derivation", shortFn(s.Fn), w.Pos(s.Fn.Pos()),
			fmt.Sprintf("result #%d is fed while holding %s (send at %s); stop channel = result #%d; stop re-checked while parked in send: %v; producer closes results %v",
				s.DataIdx, s.Lock, s.SendPos, s.StopIdx, s.StopCheckedInSend, s.ProducerCloses))
		r.seen(shortFn(s.Fn))
	}
	if _, ok := streamByName[dagM("AncestorsWalker")]; !ok {
		r.bad("stream-derivation", "dag.AncestorsWalker", "-", "AncestorsWalker must be recognised as a lock-holding stream (anchor of the property)", "not derived")
	}

	// derive which dag methods take muDAG and in which mode
	takers := map[string]string{} // callee full name -> "R"|"W"
	for fn := range w.AllFuncs() {
		if fn.Pkg != dagSSA || fn.Parent() != nil || fn.Object() == nil {
			continue
		}
		mode := ""
		instrsOf(fn, func(in ssa.Instruction) {
			if c, ok := in.(*ssa.Call); ok {
				if op, m, id, ok := lockOp(c); ok && op == "lock" && id == "dag.DAG.muDAG" {
					if m == "W" || mode == "" {
						mode = m
					}
				}
			}
		})
		if mode != "" {
			takers[fn.Object().(*types.Func).FullName()] = mode
		}
	}
	r.Extra["dag_methods_taking_graph_lock"] = len(takers)

	r.rule("drain", "after a successful call of a lock-holding stream every path to a function exit (or back to the call) crosses the exhausted edge of a receive on the data channel, directly or in a helper that drains it", 3)
	r.rule("stream-consumed-only-when-started", "where a function tests the error of a lock-holding stream call, every receive on the stream's data channel lies behind the err == nil edge (on the failure path the channel is nil: a receive on it never returns)", 3)
	r.rule("no-send-on-stop", "no send on the stop channel of a stream whose producer closes it (send after close panics; a send does not release a parked producer)", 0)
	r.rule("reentry-under-ledger-lock", "a consumption region that re-enters the graph lock holds the ledger lock, so no graph writer can queue between producer and consumer", 3)
	r.rule("graph-writers-under-ledger-lock", "every call that takes the graph lock exclusively holds AccountingBook.mux exclusively", 6)
	r.rule("no-graph-writer-inside-walk", "while a walk of the graph is being consumed (the producer holds the graph lock in read mode) the consumer — its loop, the helpers it calls, the callbacks it is handed — never asks for the graph lock in write mode", 3)
	r.rule("no-foreign-blocking-op", "no blocking channel operation on another channel inside a consumption region or while a repo lock is held, unless it is a select with a ctx.Done()/default arm", 0)

	acctFns := w.RepoFuncs("accountant")
	for _, fn := range acctFns {
		r.seen(shortFn(fn))
	}
	nSites := 0
	for _, fn := range acctFns {
		for _, c := range callsTo(fn, streamNames...) {
			nSites++
			st := streamByName[calleeName(c)]
			data := resultAt(c, st.DataIdx)
			site := fmt.Sprintf("%s/%s", shortFn(fn), shortCallee(c))
			if data == nil {
				r.bad("drain", site, lineOf(w, c), "the data channel of a lock-holding stream must be consumed", "result discarded: producer parks for ever with the lock held")
				continue
			}
			// a stream that failed to start hands back a nil channel: a receive on it (range, <-, select arm) never returns —
			// receives lie behind the success edge of the call
			// (a contradiction rule: it applies where the function itself tests the error, i.e. believes the call can fail;
			// validateLeaf discards it after IsRoot has answered for the same id under the same lock)
			if okE := passErrNil(c); errResult(c) != nil && len(okE) > 0 {
				instrsOf(fn, func(in ssa.Instruction) {
					isRecv := false
					switch x := in.(type) {
					case *ssa.UnOp:
						isRecv = x.Op == token.ARROW && sameVal(x.X, data)
					case *ssa.Select:
						for _, sst := range x.States {
							if sst.Dir == types.RecvOnly && sameVal(sst.Chan, data) {
								isRecv = true
							}
						}
					}
					if isRecv {
						r.check(len(okE) > 0 && behind(in, okE), "stream-consumed-only-when-started", site+"/receive", lineOf(w, in), "the receive lies behind the stream call's err == nil edge",
							"the receive is reachable from the failure edge of "+shortCallee(c)+": the channel is nil there and the receive blocks for ever (with the locks the caller holds)")
					}
				})
			}
			// the channel must not flow anywhere we do not follow
			var checkUses func(v ssa.Value)
			checkUses = func(v ssa.Value) {
				for _, ref := range *v.Referrers() {
					switch x := ref.(type) {
					case *ssa.UnOp, *ssa.DebugRef:
					case *ssa.ChangeType:
						checkUses(x)
					case *ssa.Call:
						if !isDrainCallOf(x, data) && !consumesOnlyArg(x, v, 2) {
							r.undecided("drain", site+"/escape", lineOf(w, x), "data channel may only be received from or handed to a drain helper", "passed to a call that is not a drain helper")
						}
					default:
						r.undecided("drain", site+"/escape", lineOf(w, ref), "data channel may only be received from or handed to a drain helper", fmt.Sprintf("used by %T", ref))
					}
				}
			}
			checkUses(data)
			recvs, _ := exhaustedEdges(fn, data)
			dataPath := pathOf(data)
			var notStarted map[Edge]bool
			if ev := errResult(c); ev != nil {
				notStarted = map[Edge]bool{}
				for _, e := range errNonNilEdges(fn, ev) {
					notStarted[e] = true // walker not started on the error path
				}
			}
			// the walk follows helpers that receive from the channel: their exhausted edges count, their returns do not
			var exits []ssa.Instruction
			dw := newDeepWalk(func(in ssa.Instruction, fr *frame) bool {
				if cc, ok := in.(*ssa.Call); ok {
					if cal := cc.Call.StaticCallee(); cal != nil && isRepoFunc(cal) {
						for k, a := range cc.Call.Args {
							if fr.cx.res(a) == dataPath && drainsParam(cal, k) {
								return true
							}
						}
					}
				}
				switch x := in.(type) {
				case *ssa.Return:
					if fr.top() && !(fn.Recover != nil && x.Block() == fn.Recover) {
						exits = append(exits, in)
						return true
					}
				case *ssa.Panic:
					if !isSelectNoCasePanic(x) {
						exits = append(exits, in)
					}
					return true
				}
				return false
			})
			dw.cutFixed = notStarted
			dw.cutSpec = func(fn2 *ssa.Function, res resolver) []Edge {
				var es []Edge
				instrsOf(fn2, func(in ssa.Instruction) {
					u, ok := in.(*ssa.UnOp)
					if !ok || u.Op != token.ARROW || !u.CommaOk || res(u.X) != dataPath {
						return
					}
					for _, ref := range *u.Referrers() {
						if e, ok := ref.(*ssa.Extract); ok && e.Index == 1 {
							es = append(es, falseEdges(fn2, e)...)
						}
					}
				})
				return es
			}
			dw.descend = func(h *ssa.Function) bool { // only helpers that are handed a channel matter
				for _, p := range h.Params {
					if _, isChan := p.Type().Underlying().(*types.Chan); isChan {
						return true
					}
				}
				return false
			}
			ci := c.(ssa.Instruction)
			dw.run(topFrame(fn), ci.Block(), indexIn(ci.Block(), ci)+1)
			// also: reaching the call again without draining
			if len(exits) == 0 {
				r.ok("drain", site, lineOf(w, c), "all paths after the call drain the walker")
			}
			for _, ex := range exits {
				r.bad("drain", fmt.Sprintf("%s/%s", site, describeExit(ex)), lineOf(w, ex),
					"path from the stream call to this exit must drain the data channel",
					fmt.Sprintf("exit reachable without crossing the exhausted edge of a receive on result #%d of %s (called at %s): producer stays parked in its send holding %s",
						st.DataIdx, shortCallee(c), lineOf(w, c), st.Lock))
			}
			// rule 3: sends on the stop channel
			if st.StopIdx >= 0 {
				stop := resultAt(c, st.StopIdx)
				closes := false
				for _, k := range st.ProducerCloses {
					if k == st.StopIdx {
						closes = true
					}
				}
				if stop == nil && closes {
					r.ok("no-send-on-stop", site, lineOf(w, c), "stop channel result is discarded: no send possible")
				}
				if stop != nil && closes {
					nSend := 0
					defer func() {
						if nSend == 0 {
							r.ok("no-send-on-stop", site, lineOf(w, c), "no send on the stop channel in this function")
						}
					}()
					instrsOf(fn, func(in ssa.Instruction) {
						if s, ok := in.(*ssa.Send); ok && sameVal(s.Chan, stop) {
							nSend++
						}
						if s, ok := in.(*ssa.Send); ok && sameVal(s.Chan, stop) {
							r.bad("no-send-on-stop", site+"/send", lineOf(w, s), "never send on the producer-closed stop channel",
								"send on result #"+fmt.Sprint(st.StopIdx)+" of "+shortCallee(c)+": panics if the producer finished, blocks for ever if the call failed (nil channel), and does not release a producer parked in its send")
						}
						if sel, ok := in.(*ssa.Select); ok {
							for _, s := range sel.States {
								if s.Dir == types.SendOnly && sameVal(s.Chan, stop) {
									r.bad("no-send-on-stop", site+"/select-send", lineOf(w, sel), "never send on the producer-closed stop channel", "select send on closed channel panics")
								}
							}
						}
					})
				}
			}
			// consumption region = loop blocks of the receives
			region := map[*ssa.BasicBlock]ssa.Value{} // block → the data channel as it is named in the block's function
			var addRegion func(f2 *ssa.Function, ch ssa.Value, depth int)
			addRegion = func(f2 *ssa.Function, ch ssa.Value, depth int) {
				rv2, exh2 := exhaustedEdges(f2, ch)
				for _, rv := range rv2 {
					for b := range loopOf(rv.Block(), edgeSet(exh2)) {
						region[b] = ch
					}
				}
				if depth <= 0 {
					return
				}
				// the receive may sit in a helper that is handed the channel: the loop around that call is part of
				// the region, and so is the helper's own receive loop
				instrsOf(f2, func(in ssa.Instruction) {
					x, ok := in.(*ssa.Call)
					if !ok || isDrainCallOf(x, ch) || !consumesOnlyArg(x, ch, 2) {
						return
					}
					for b := range loopOf(x.Block(), edgeSet(exh2)) {
						region[b] = ch
					}
					h := x.Call.StaticCallee()
					for k, a := range x.Call.Args {
						if sameVal(a, ch) && k < len(h.Params) {
							addRegion(h, h.Params[k], depth-1)
						}
					}
				})
			}
			addRegion(fn, data, 2)
			_ = recvs
			reenters := false
			// while the producer holds the graph lock in read mode, a consumer that asks for it in WRITE mode waits for the
			// producer, which waits for the consumer: the walk never ends. Calls made by the region itself, by repo helpers it
			// calls and by callbacks it is handed are all "the consumer".
			graphWriter := func(ci ssa.CallInstruction) bool { return takers[calleeName(ci)] == "W" }
			writerIn := func(body *ssa.Function) (ssa.CallInstruction, bool) {
				for _, d := range deepCalls(body, graphWriter, 1) {
					return d.c, true
				}
				return nil, false
			}
			nWriterSites := 0
			for b, data := range region {
				for _, in := range b.Instrs {
					if x, ok := in.(*ssa.Call); ok {
						if graphWriter(x) {
							nWriterSites++
							r.bad("no-graph-writer-inside-walk", site+"/"+shortCallee(x), lineOf(w, x), "no call that takes the graph lock exclusively while a walk of the graph is being consumed", "the walker holds "+st.Lock+" until it is drained; "+shortCallee(x)+" waits for it for ever")
						}
						if cal := x.Call.StaticCallee(); cal != nil && isRepoFunc(cal) && len(cal.Blocks) > 0 {
							if wc, found := writerIn(cal); found {
								nWriterSites++
								r.bad("no-graph-writer-inside-walk", site+"/"+shortCallee(x)+"→"+shortCallee(wc), lineOf(w, wc), "no call that takes the graph lock exclusively while a walk of the graph is being consumed", "reached from the consumption loop through "+shortCallee(x))
							}
						}
						// a callback handed to this function and called from the region: look at what every caller passes
						if prm, isParam := x.Call.Value.(*ssa.Parameter); isParam {
							host := b.Parent()
							for k, p2 := range host.Params {
								if p2 != prm {
									continue
								}
								for _, cs := range staticCallers(w, host) {
									if k >= len(cs.Common().Args) {
										continue
									}
									if body, _, _, _ := callbackBody(cs.Common().Args[k]); body != nil {
										if wc, found := writerIn(body); found {
											nWriterSites++
											r.bad("no-graph-writer-inside-walk", shortFn(cs.Parent())+"/callback/"+shortCallee(wc), lineOf(w, wc), "a callback run for every walked vertex takes no exclusive graph lock", "the callback passed at "+lineOf(w, cs)+" calls "+shortCallee(wc)+" while the walker holds "+st.Lock)
										}
									}
								}
							}
						}
					}
					_ = data
				}
			}
			if nWriterSites == 0 {
				r.ok("no-graph-writer-inside-walk", site, lineOf(w, c), "the consumption of this walk takes no exclusive graph lock")
			}
			for b, data := range region {
				for _, in := range b.Instrs {
					switch x := in.(type) {
					case *ssa.Call:
						if _, ok := takers[calleeName(x)]; ok {
							reenters = true
						}
						// a repo helper called from the region that itself takes the graph lock
						if cal := x.Call.StaticCallee(); cal != nil && isRepoFunc(cal) {
							if len(deepCalls(cal, func(c ssa.CallInstruction) bool { _, ok := takers[calleeName(c)]; return ok }, 1)) > 0 {
								reenters = true
							}
						}
					case *ssa.Send:
						if !sameVal(x.Chan, data) {
							r.bad("no-foreign-blocking-op", site+"/send", lineOf(w, x), "no blocking send inside a consumption region",
								"blocking send on "+pathOf(x.Chan)+" while the walker producer holds "+st.Lock+" for this consumer")
						}
					case *ssa.UnOp:
						if x.Op == token.ARROW && !sameVal(x.X, data) {
							r.bad("no-foreign-blocking-op", site+"/recv", lineOf(w, x), "no blocking receive on another channel inside a consumption region", "receive on "+pathOf(x.X))
						}
					case *ssa.Select:
						if x.Blocking {
							r.check(selectHasCtxArm(x), "no-foreign-blocking-op", site+"/select", lineOf(w, x), "a blocking select inside a consumption region needs a ctx.Done() arm", "no ctx.Done() arm")
						}
					}
				}
			}
			if reenters {
				held := li.At(c)
				r.check(held.Has(abMux, ""), "reentry-under-ledger-lock", site, lineOf(w, c),
					"consumer calls dag methods that take the graph lock while the producer holds it; AccountingBook.mux must be held for the whole consumption",
					"lockset at the stream call is "+held.String()+": a graph writer can queue between the producer's RLock and the consumer's RLock (writer-preferring RWMutex) → deadlock")
			}
		}
	}
	r.Extra["stream_call_sites"] = nSites

	// graph writers under ledger lock
	for _, fn := range acctFns {
		instrsOf(fn, func(in ssa.Instruction) {
			c, ok := in.(ssa.CallInstruction)
			if !ok {
				return
			}
			if takers[calleeName(c)] != "W" {
				return
			}
			held := li.At(c)
			r.check(held.Has(abMux, "W"), "graph-writers-under-ledger-lock", shortFn(fn)+"/"+shortCallee(c), lineOf(w, c),
				"graph mutation only with AccountingBook.mux held exclusively", "lockset "+held.String())
		})
	}

	// blocking channel ops while a repo lock is held (outside consumption regions too)
	r.rule("no-blocking-send-under-lock", "a blocking send executed with a repo lock held must not be able to wait on a receiver that needs that lock; local channels need a select with ctx.Done()", 0)
	recvFnsByChan := map[string][]*ssa.Function{}
	allFns := append(append([]*ssa.Function{}, acctFns...), w.RepoFuncs("gossip")...)
	for _, fn := range allFns {
		instrsOf(fn, func(in ssa.Instruction) {
			switch x := in.(type) {
			case *ssa.UnOp:
				if x.Op == token.ARROW {
					if id := chanFieldIdent(x.X); id != "" {
						recvFnsByChan[id] = append(recvFnsByChan[id], fn)
					}
				}
			case *ssa.Select:
				for _, s := range x.States {
					if s.Dir == types.RecvOnly {
						if id := chanFieldIdent(s.Chan); id != "" {
							recvFnsByChan[id] = append(recvFnsByChan[id], fn)
						}
					}
				}
			}
		})
	}
	acquires := lockAcquirers(w, allFns)
	for _, fn := range allFns {
		instrsOf(fn, func(in ssa.Instruction) {
			if sel, ok := in.(*ssa.Select); ok {
				held := li.At(sel)
				for _, st := range sel.States {
					if st.Dir == types.SendOnly && !held.top && len(held.m) > 0 {
						r.check(!sel.Blocking || selectHasCtxArm(sel), "no-blocking-send-under-lock", shortFn(fn)+"/select-send:"+pathOf(st.Chan), lineOf(w, sel),
							"a select that sends while holding "+held.String()+" needs a ctx.Done() or default arm", "blocking select without escape arm")
						// a ctx.Done() arm ends the wait only when the caller gives up: if the receiver of a long-lived channel
						// needs the lock the sender holds, the send waits for the receiver and the receiver for the sender
						if id := chanFieldIdent(st.Chan); id != "" && sel.Blocking {
							bad := ""
							for _, rf := range recvFnsByChan[id] {
								for l := range held.m {
									lid := l[2:]
									if acquires[rf][lid] {
										bad = fmt.Sprintf("receiver %s acquires %s between receives; the sender holds %s while it waits in the select when the buffer is full (the ctx.Done() arm only fires when the caller gives up)", shortFn(rf), lid, l)
									}
								}
							}
							r.check(bad == "", "no-blocking-send-under-lock", shortFn(fn)+"/select-send-cycle:"+pathOf(st.Chan), lineOf(w, sel), "no send/lock wait-for cycle on "+id, bad)
						}
					}
				}
				return
			}
			s, ok := in.(*ssa.Send)
			if !ok {
				return
			}
			held := li.At(s)
			if held.top || len(held.m) == 0 {
				return
			}
			if ex, ok := strip(s.Chan).(*ssa.Extract); ok {
				if c, ok := ex.Tuple.(*ssa.Call); ok {
					if _, isStream := streamByName[calleeName(c)]; isStream {
						return // judged by no-send-on-stop
					}
				}
			}
			id := chanFieldIdent(s.Chan)
			key := shortFn(fn) + "/send:" + pathOf(s.Chan)
			if id == "" {
				r.bad("no-blocking-send-under-lock", key, lineOf(w, s), "blocking send on a local channel while holding "+held.String()+" needs a select with a ctx.Done() arm",
					"plain send: a consumer that went away leaves the goroutine parked with the lock held")
				return
			}
			bad := ""
			for _, rf := range recvFnsByChan[id] {
				for l := range held.m {
					lid := l[2:]
					if acquires[rf][lid] {
						bad = fmt.Sprintf("receiver %s acquires %s between receives; sender holds %s while blocked when the buffer is full", shortFn(rf), lid, l)
					}
				}
			}
			r.check(bad == "", "no-blocking-send-under-lock", key, lineOf(w, s), "no send/lock wait-for cycle on "+id, bad)
		})
	}

	// a storage scan under the ledger lock ends: between two looks at the current item of an iterator the iterator moves
	r.rule("storage-scan-advances", "in package accountant every path from a call of (*badger.Iterator).Item back to that same call crosses Next / Seek / Rewind of the iterator: a `continue` that skips the advance re-examines one item for ever, with whatever lock the scan holds (truncate scans under the exclusive ledger lock)", 1)
	nScan := 0
	for _, fn := range acctFns {
		instrsOf(fn, func(in ssa.Instruction) {
			c, ok := in.(ssa.CallInstruction)
			if !ok || !strings.HasSuffix(calleeName(c), ".Iterator).Item") {
				return
			}
			nScan++
			again := false
			first := true
			walkFrom(in, nil, nil, func(x ssa.Instruction) bool {
				if first {
					first = false
					if x == in {
						return false
					}
				}
				if x == in {
					again = true
					return true
				}
				if xc, isCall := x.(ssa.CallInstruction); isCall {
					n := calleeName(xc)
					if strings.HasSuffix(n, ".Iterator).Next") || strings.HasSuffix(n, ".Iterator).Seek") || strings.HasSuffix(n, ".Iterator).Rewind") {
						return true
					}
				}
				return false
			})
			r.check(!again, "storage-scan-advances", shortFn(fn)+"/Iterator.Item", lineOf(w, in), "the iterator is advanced before its item is looked at again", "the call is reachable from itself without an advance of the iterator in between: the scan loops on one item")
		})
	}
	if nScan == 0 {
		r.ok("storage-scan-advances", "none", "-", "no iterator scan in package accountant")
	}

	// no lock is acquired while it may already be held by the same goroutine
	r.rule("no-reentrant-lock", "no Lock/RLock on a repo mutex is executed while the same mutex is already held on the calling path (a recursive RLock deadlocks as soon as a writer queues in between; a recursive Lock deadlocks at once)", 10)
	callSites := map[*ssa.Function][]ssa.CallInstruction{}
	for _, fn := range allFns {
		instrsOf(fn, func(in ssa.Instruction) {
			c, ok := in.(ssa.CallInstruction)
			if !ok {
				return
			}
			if _, isGo := in.(*ssa.Go); isGo {
				return
			}
			if cal := c.Common().StaticCallee(); cal != nil && isRepoFunc(cal) {
				callSites[cal] = append(callSites[cal], c)
			}
			for _, op := range c.Operands(nil) { // callbacks run inside the call
				if *op != nil {
					if cl := closureOf(*op); cl != nil {
						callSites[cl] = append(callSites[cl], c)
					}
				}
			}
		})
	}
	var heldByCaller func(fn *ssa.Function, id string, depth int, seen map[*ssa.Function]bool) string
	heldByCaller = func(fn *ssa.Function, id string, depth int, seen map[*ssa.Function]bool) string {
		if depth > 4 || seen[fn] {
			return ""
		}
		seen[fn] = true
		for _, cs := range callSites[fn] {
			held := li.At(cs)
			if !held.top && held.Has(id, "") {
				return shortFn(cs.Parent()) + " at " + lineOf(w, cs)
			}
			if via := heldByCaller(cs.Parent(), id, depth+1, seen); via != "" {
				return via + " → " + shortFn(cs.Parent())
			}
		}
		return ""
	}
	for _, fn := range allFns {
		instrsOf(fn, func(in ssa.Instruction) {
			c, ok := in.(*ssa.Call)
			if !ok {
				return
			}
			op, mode, id, ok := lockOp(c)
			if !ok || op != "lock" {
				return
			}
			why := ""
			if held := li.At(c); !held.top && held.Has(id, "") {
				why = "already held here: " + held.String()
			} else if via := heldByCaller(fn, id, 0, map[*ssa.Function]bool{}); via != "" {
				why = "reached with " + id + " already held from " + via
			}
			r.check(why == "", "no-reentrant-lock", shortFn(fn)+"/"+mode+":"+id, lineOf(w, c), "the mutex is not held on any calling path when it is acquired", why)
		})
	}

	// rule 7: locks released on all paths
	r.rule("lock-released", "every Lock/RLock on a repo mutex is followed on all paths by the matching unlock (or a deferred one)", 6)
	for _, fn := range allFns {
		instrsOf(fn, func(in ssa.Instruction) {
			c, ok := in.(*ssa.Call)
			if !ok {
				return
			}
			op, mode, id, ok := lockOp(c)
			if !ok || op != "lock" {
				return
			}
			exits := exitsAvoiding(c, nil, func(x ssa.Instruction) bool {
				if ci, ok := x.(ssa.CallInstruction); ok {
					if _, isGo := x.(*ssa.Go); isGo {
						return false
					}
					if op2, m2, id2, ok := lockOp(ci); ok && op2 == "unlock" && m2 == mode && id2 == id {
						return true
					}
					if d, isDefer := x.(*ssa.Defer); isDefer && deferredClosureReleases(d, id) {
						return true
					}
				}
				return false
			})
			r.check(len(exits) == 0, "lock-released", shortFn(fn)+"/"+mode+":"+id, lineOf(w, c), "matching unlock on all paths",
				fmt.Sprintf("%d exits reachable with the lock held", len(exits)))
		})
	}

}

func selectHasCtxArm(s *ssa.Select) bool {
	for _, st := range s.States {
		if st.Dir != types.RecvOnly {
			continue
		}
		if c, ok := strip(st.Chan).(*ssa.Call); ok && calleeName(c) == "(context.Context).Done" {
			return true
		}
	}
	return false
}

// chanFieldIdent names a channel that lives in a struct field ("accountant.AccountingBook.truncateSignal").
func chanFieldIdent(v ssa.Value) string {
	v = strip(v)
	// an accessor that hands the field out (subscribe() returns b.pub)
	if c, ok := v.(*ssa.Call); ok {
		if cal := c.Call.StaticCallee(); cal != nil && isRepoFunc(cal) && len(cal.Blocks) > 0 {
			if rets := returnsOf(cal); len(rets) == 1 && len(rets[0].Results) == 1 {
				if _, again := strip(rets[0].Results[0]).(*ssa.Call); !again {
					return chanFieldIdent(rets[0].Results[0])
				}
			}
		}
		return ""
	}
	if u, ok := v.(*ssa.UnOp); ok && u.Op == token.MUL {
		if fa, ok := u.X.(*ssa.FieldAddr); ok {
			return lockIdent(fa)
		}
	}
	if f, ok := v.(*ssa.Field); ok {
		t := f.X.Type()
		if n, ok := t.(*types.Named); ok {
			return n.Obj().Pkg().Name() + "." + n.Obj().Name() + "." + fieldName(t, f.Field)
		}
	}
	return ""
}

// lockAcquirers: for each function, the set of repo locks it may acquire itself or through static
// repo callees (transitively).
func lockAcquirers(w *World, fns []*ssa.Function) map[*ssa.Function]map[string]bool {
	direct := map[*ssa.Function]map[string]bool{}
	callees := map[*ssa.Function][]*ssa.Function{}
	for _, fn := range fns {
		direct[fn] = map[string]bool{}
		instrsOf(fn, func(in ssa.Instruction) {
			c, ok := in.(ssa.CallInstruction)
			if !ok {
				return
			}
			if op, _, id, ok := lockOp(c); ok && op == "lock" {
				direct[fn][id] = true
			}
			if cal := c.Common().StaticCallee(); cal != nil && isRepoFunc(cal) {
				callees[fn] = append(callees[fn], cal)
			}
			for _, op := range c.Operands(nil) {
				if *op != nil {
					if cl := closureOf(*op); cl != nil {
						callees[fn] = append(callees[fn], cl)
					}
				}
			}
		})
	}
	for changed := true; changed; {
		changed = false
		for _, fn := range fns {
			for _, cal := range callees[fn] {
				for id := range direct[cal] {
					if !direct[fn][id] {
						direct[fn][id] = true
						changed = true
					}
				}
			}
		}
	}
	return direct
}

// nonNilOnEdge: is v known non-nil when control flows over edge (pred → succ #k)?
func nonNilValue(v ssa.Value) bool {
	switch x := strip(v).(type) {
	case *ssa.Alloc, *ssa.FieldAddr, *ssa.IndexAddr, *ssa.MakeInterface, *ssa.MakeClosure, *ssa.MakeMap, *ssa.MakeChan, *ssa.MakeSlice, *ssa.Function, *ssa.Global:
		return true
	case *ssa.Const:
		return x.Value != nil
	}
	return false
}

func nonNilAtBlock(fn *ssa.Function, v ssa.Value, b *ssa.BasicBlock, depth int) bool {
	if nonNilValue(v) {
		return true
	}
	v = strip(v)
	if es := errNonNilEdges(fn, v); len(es) > 0 && mustCross(fn, b, es) {
		return true
	}
	if phi, ok := v.(*ssa.Phi); ok && depth < 6 {
		// non-nil on every incoming edge
		for i, ev := range phi.Edges {
			pred := phi.Block().Preds[i]
			if !nonNilOnEdge(fn, ev, pred, phi.Block(), depth+1) {
				return false
			}
		}
		return true
	}
	return false
}

func nonNilOnEdge(fn *ssa.Function, v ssa.Value, pred, succ *ssa.BasicBlock, depth int) bool {
	if nonNilValue(v) {
		return true
	}
	v = strip(v)
	es := errNonNilEdges(fn, v)
	if len(es) > 0 {
		cut := edgeSet(es)
		r := reachable([]*ssa.BasicBlock{fn.Blocks[0]}, cut)
		if !r[pred] {
			return true
		}
		// pred reachable without the fact: the edge itself may establish it
		all := true
		for k, s := range pred.Succs {
			if s == succ && !cut[Edge{pred, k}] {
				all = false
			}
		}
		if all {
			return true
		}
	}
	if phi, ok := v.(*ssa.Phi); ok && depth < 6 {
		for i, ev := range phi.Edges {
			if !nonNilOnEdge(fn, ev, phi.Block().Preds[i], phi.Block(), depth+1) {
				return false
			}
		}
		return true
	}
	return false
}

func nilContradictions(w *World, r *Report, fn *ssa.Function) {
	// pointer values the function compares with nil
	tested := map[ssa.Value]bool{}
	for _, b := range fn.Blocks {
		for i := range b.Succs {
			for _, f := range edgeFacts(Edge{b, i}) {
				if f.kind == fIsNil || f.kind == fNotNil {
					if _, ok := f.x.Type().Underlying().(*types.Pointer); ok {
						tested[strip(f.x)] = true
					}
				}
			}
		}
	}
	if len(tested) == 0 {
		return
	}
	// φ-nodes that merge a tested value are tested, too (the source-level variable)
	for changed := true; changed; {
		changed = false
		instrsOf(fn, func(in ssa.Instruction) {
			if phi, ok := in.(*ssa.Phi); ok && !tested[phi] {
				for _, e := range phi.Edges {
					if tested[strip(e)] {
						tested[phi] = true
						changed = true
					}
				}
			}
		})
	}
	type key struct {
		v ssa.Value
		b *ssa.BasicBlock
	}
	done := map[key]bool{}
	instrsOf(fn, func(in ssa.Instruction) {
		var ptr ssa.Value
		switch x := in.(type) {
		case *ssa.FieldAddr:
			ptr = x.X
		case *ssa.UnOp:
			if x.Op == token.MUL {
				ptr = x.X
			}
		}
		if ptr == nil {
			return
		}
		p := strip(ptr)
		if !tested[p] {
			return
		}
		k := key{p, in.Block()}
		if done[k] {
			return
		}
		done[k] = true
		name := p.Name()
		if phi, ok := p.(*ssa.Phi); ok && phi.Comment != "" {
			name = phi.Comment
		} else if pr, ok := p.(*ssa.Parameter); ok {
			name = pr.Name()
		}
		r.check(nonNilAtBlock(fn, p, in.Block(), 0), "nil-contradiction", shortFn(fn)+"/"+name+"@"+blockLabel(in.Block()), lineOf(w, in),
			"value is nil-checked elsewhere in this function and must be proven non-nil here",
			"dereference reachable on a path where the nil test did not establish ≠nil")
	})
}

func blockLabel(b *ssa.BasicBlock) string {
	return fmt.Sprintf("%s", b.Comment)
}

// deferredClosureReleases: `defer func() { … }()` whose body unlocks mutex id, either directly or by
// calling a captured func variable that only ever holds bound Unlock/RUnlock methods of that mutex
// (`unlock := mu.RUnlock; defer func() { unlock() }(); …; unlock = mu.Unlock`).
func deferredClosureReleases(d *ssa.Defer, id string) bool {
	cl := closureOf(d.Call.Value)
	if cl == nil {
		return false
	}
	mc, _ := d.Call.Value.(*ssa.MakeClosure)
	found := false
	instrsOf(cl, func(in ssa.Instruction) {
		c, ok := in.(*ssa.Call)
		if !ok {
			return
		}
		if op, _, id2, ok := lockOp(c); ok && op == "unlock" && id2 == id {
			found = true
			return
		}
		// dynamic call of a captured func variable
		ld, ok := c.Call.Value.(*ssa.UnOp)
		if !ok || mc == nil {
			return
		}
		fv, ok := ld.X.(*ssa.FreeVar)
		if !ok {
			return
		}
		for i, v := range cl.FreeVars {
			if v != fv || i >= len(mc.Bindings) {
				continue
			}
			al, ok := mc.Bindings[i].(*ssa.Alloc)
			if !ok {
				return
			}
			all, n := true, 0
			for _, ref := range *al.Referrers() {
				st, ok := ref.(*ssa.Store)
				if !ok || st.Addr != ssa.Value(al) {
					continue
				}
				n++
				bm, ok := st.Val.(*ssa.MakeClosure)
				if !ok || len(bm.Bindings) != 1 {
					all = false
					continue
				}
				name := bm.Fn.Name()
				if !(strings.HasPrefix(name, "Unlock$bound") || strings.HasPrefix(name, "RUnlock$bound")) || lockIdent(bm.Bindings[0]) != id {
					all = false
				}
			}
			if all && n > 0 {
				found = true
			}
		}
	})
	return found
}
