package main

// C19 — vertices and transactions survive the wire transcoding unchanged (sibling-table agreement
// of the two mapper pairs). The msgpack pairs are NOT decided.

import (
	"fmt"
	"go/token"
	"go/types"
	"reflect"
	"sort"
	"strings"

	"golang.org/x/tools/go/ssa"
)

type mapEntry struct {
	dst, src, conv string
	pos            string
}

// relChain returns the field chain of an address/value relative to root (an Alloc or Parameter).
func relChain(v ssa.Value, root ssa.Value, prefix map[ssa.Value]string) (string, bool) {
	var parts []string
	for i := 0; i < 12; i++ {
		if v == root {
			rev(parts)
			return strings.Join(parts, "."), true
		}
		if p, ok := prefix[v]; ok {
			rev(parts)
			if len(parts) == 0 {
				return p, true
			}
			if p == "" {
				return strings.Join(parts, "."), true
			}
			return p + "." + strings.Join(parts, "."), true
		}
		switch x := v.(type) {
		case *ssa.Alloc: // a by-value parameter spilled into a local because its fields are addressed
			spill := false
			for _, ref := range *x.Referrers() {
				if st, ok := ref.(*ssa.Store); ok && st.Addr == ssa.Value(x) && st.Val == root {
					spill = true
				}
			}
			if !spill {
				return "", false
			}
			v = root
		case *ssa.FieldAddr:
			parts = append(parts, fieldName(x.X.Type(), x.Field))
			v = x.X
		case *ssa.Field:
			parts = append(parts, fieldName(x.X.Type(), x.Field))
			v = x.X
		case *ssa.UnOp:
			if x.Op != token.MUL {
				return "", false
			}
			v = x.X
		default:
			return "", false
		}
	}
	return "", false
}

func rev(s []string) {
	for i, j := 0, len(s)-1; i < j; i, j = i+1, j-1 {
		s[i], s[j] = s[j], s[i]
	}
}

// describeSource classifies the stored value as a conversion of a field chain of param.
func describeSource(v ssa.Value, param ssa.Value) (conv, chain string) {
	switch x := v.(type) {
	case *ssa.UnOp:
		if x.Op == token.MUL {
			if sp, ok := x.X.(*ssa.SliceToArrayPointer); ok {
				if c, ok := relChain(sp.X, param, nil); ok {
					return "array", c
				}
			}
			if c, ok := relChain(x, param, nil); ok {
				return "id", c
			}
		}
	case *ssa.Slice:
		if x.Low == nil && x.High == nil {
			if c, ok := relChain(x.X, param, nil); ok {
				return "slice", c
			}
		}
	case *ssa.Convert:
		if call, ok := x.X.(*ssa.Call); ok && calleeName(call) == "(time.Time).UnixNano" {
			if c, ok := relChain(call.Call.Args[0], param, nil); ok {
				return "unixnano", c
			}
		}
	case *ssa.Call:
		// a helper that is nothing but one recognised conversion of its single parameter
		if cal := x.Call.StaticCallee(); cal != nil && isRepoFunc(cal) && len(cal.Params) == 1 && len(x.Call.Args) == 1 {
			rets := returnsOf(cal)
			if len(rets) == 1 && len(rets[0].Results) == 1 {
				if conv, chain := describeSource(rets[0].Results[0], cal.Params[0]); conv != "?" && chain == "" {
					if c2, arg := describeSource(x.Call.Args[0], param); c2 == "id" {
						return conv, arg
					}
				}
			}
		}
		if calleeName(x) == "time.Unix" && len(x.Call.Args) == 2 {
			if z, ok := intConst(x.Call.Args[0]); ok && z == 0 {
				if cv, ok := x.Call.Args[1].(*ssa.Convert); ok {
					if c, ok := relChain(cv.X, param, nil); ok {
						return "fromnano", c
					}
				}
			}
		}
	}
	return "?", pathOf(v)
}

// mappingOf extracts dst-field ← (conversion, src-field) from a mapper function.
func mappingOf(w *World, fn *ssa.Function) ([]mapEntry, string) {
	if fn == nil || len(fn.Params) == 0 {
		return nil, "function not found"
	}
	param := fn.Params[0]
	// root literal: the value returned on the success path
	var root *ssa.Alloc
	for _, ret := range returnsOf(fn) {
		if errIndex(fn) >= 0 && !successReturn(ret) {
			continue
		}
		v := ret.Results[0]
		if ld, ok := v.(*ssa.UnOp); ok && ld.Op == token.MUL {
			v = ld.X
		}
		if a, ok := v.(*ssa.Alloc); ok {
			root = a
		}
	}
	if root == nil {
		return nil, "no composite literal is returned on the success path"
	}
	prefix := map[ssa.Value]string{root: ""}
	// nested literals stored by pointer
	for changed := true; changed; {
		changed = false
		instrsOf(fn, func(in ssa.Instruction) {
			st, ok := in.(*ssa.Store)
			if !ok {
				return
			}
			inner, ok := st.Val.(*ssa.Alloc)
			if !ok {
				return
			}
			if _, done := prefix[inner]; done {
				return
			}
			if c, ok := relChain(st.Addr, root, prefix); ok {
				prefix[inner] = c
				changed = true
			}
		})
	}
	var out []mapEntry
	instrsOf(fn, func(in ssa.Instruction) {
		st, ok := in.(*ssa.Store)
		if !ok {
			return
		}
		if _, isAlloc := st.Val.(*ssa.Alloc); isAlloc {
			return
		}
		dst, ok := relChain(st.Addr, root, prefix)
		if !ok || dst == "" {
			return
		}
		// a sub-structure built by a converter function of the repository: its own mapping, re-rooted
		if call, ok := st.Val.(*ssa.Call); ok {
			if cal := call.Call.StaticCallee(); cal != nil && cal != fn && isRepoFunc(cal) && len(cal.Params) == 1 && len(call.Call.Args) == 1 && len(cal.Blocks) > 0 {
				if sub, why := mappingOf(w, cal); why == "" && len(sub) > 0 {
					if c0, argChain := describeSource(call.Call.Args[0], param); c0 == "id" {
						for _, e := range sub {
							src := e.src
							if argChain != "" {
								src = argChain + "." + e.src
							}
							out = append(out, mapEntry{dst: dst + "." + e.dst, src: src, conv: e.conv, pos: e.pos})
						}
						return
					}
				}
			}
		}
		conv, src := describeSource(st.Val, param)
		out = append(out, mapEntry{dst: dst, src: src, conv: conv, pos: lineOf(w, st)})
	})
	sort.Slice(out, func(i, j int) bool { return out[i].dst < out[j].dst })
	return out, ""
}

var inverseConv = map[string]string{"id": "id", "slice": "array", "array": "slice", "unixnano": "fromnano", "fromnano": "unixnano"}

func init() {
	register("C19", []string{"./gossip", "./transformers", "./accountant", "./transaction", "./spice", "./cache", "./notaryserver", "./walletapi", "./walletmiddleware"},
		"Sibling-table agreement of the wire mappings, decided from the SSA of the two mapper pairs: every signed/semantic field of Vertex, Transaction and Melange is mapped in both directions; composing the two directions is the identity on field names; "+
			"each conversion pair is an inverse pair from {identity; h[:] / [32]byte(x); uint64(t.UnixNano()) / time.Unix(0,int64(x))}; the nested transaction mapping inside the vertex mappers agrees with transformers. "+
			"The storage/cache (msgpack) pairs — one library encodes, another decodes — are NOT decided: their agreement is a property of the libraries' format tables over all values.",
		runC19)
}

func runC19(w *World, r *Report) {
	r.NotDecided = []string{"msgpack encode (vmihailenco) / decode (shamaton) agreement for Vertex, Transaction, Melange, Balance", "timestamp range: uint64(UnixNano) of times outside the int64-nanosecond range", "monotonic-clock / location parts of time.Time (not signed)"}
	// the field sets are derived from the struct definitions (every stored/wire field, as in C04)
	var vFields, tFields []string
	if vt := w.Pkg("accountant").Pkg.Scope().Lookup("Vertex"); vt != nil {
		for n := range msgpackTagged(vt.Type().Underlying().(*types.Struct)) {
			if n != "Transaction" {
				vFields = append(vFields, n)
			}
		}
	}
	if tt := w.Pkg("transaction").Pkg.Scope().Lookup("Transaction"); tt != nil {
		for n, ft := range msgpackTagged(tt.Type().Underlying().(*types.Struct)) {
			if st, ok := ft.Underlying().(*types.Struct); ok && n == "Spice" {
				for sn := range msgpackTagged(st) {
					tFields = append(tFields, n+"."+sn)
				}
				continue
			}
			tFields = append(tFields, n)
		}
	}
	sort.Strings(vFields)
	sort.Strings(tFields)
	r.Extra["vertex_fields"] = vFields
	r.Extra["transaction_fields"] = tFields

	toWireV, e1 := mappingOf(w, w.Func("gossip", "", "mapAccountantVertexToProtoVertex"))
	toDomV, e2 := mappingOf(w, w.Func("gossip", "", "mapProtoVertexToAccountantVertex"))
	toWireT, e3 := mappingOf(w, w.Func("transformers", "", "TrxToProtoTrx"))
	toDomT, e4 := mappingOf(w, w.Func("transformers", "", "ProtoTrxToTrx"))
	for i, e := range []string{e1, e2, e3, e4} {
		if e != "" {
			r.bad("analyser", fmt.Sprintf("mapper#%d", i), "-", "mapper function must be analysable", e)
		}
	}
	r.Extra["mapping_entries"] = map[string]int{"vertex→wire": len(toWireV), "wire→vertex": len(toDomV), "trx→wire": len(toWireT), "wire→trx": len(toDomT)}
	bySrc := func(es []mapEntry) map[string]mapEntry {
		m := map[string]mapEntry{}
		for _, e := range es {
			m[e.src] = e
		}
		return m
	}
	byDst := func(es []mapEntry) map[string]mapEntry {
		m := map[string]mapEntry{}
		for _, e := range es {
			m[e.dst] = e
		}
		return m
	}
	r.rule("round-trip-field", "for every signed field F: domain→wire maps F to wire field W with conversion c, wire→domain maps W back to F with the inverse conversion", 20)
	check := func(label string, fields []string, toWire, toDom []mapEntry, domPrefix string) {
		ws, dd := bySrc(toWire), byDst(toDom)
		for _, f := range fields {
			df := domPrefix + f
			a, okA := ws[df]
			b, okB := dd[df]
			key := label + "." + f
			switch {
			case !okA:
				r.bad("round-trip-field", key, "-", "field is written to the wire", "domain field "+df+" is not mapped to any wire field")
			case !okB:
				r.bad("round-trip-field", key, a.pos, "field is restored from the wire", "no wire field is mapped back to "+df)
			default:
				ok := a.dst == b.src && inverseConv[a.conv] == b.conv && a.conv != "?"
				r.check(ok, "round-trip-field", key, a.pos, "wire field and conversion pair agree in both directions",
					fmt.Sprintf("to wire: %s ← %s(%s); from wire: %s ← %s(%s)", a.dst, a.conv, a.src, b.dst, b.conv, b.src))
			}
		}
	}
	check("Vertex", vFields, toWireV, toDomV, "")
	check("Vertex.Transaction", tFields, toWireV, toDomV, "Transaction.")
	check("Transaction", tFields, toWireT, toDomT, "")

	r.rule("nested-agrees-with-transformers", "the transaction mapping nested in the vertex mappers uses the same wire field and conversion as transformers (a transaction enters through one and leaves through the other)", 14)
	wsV, wsT := bySrc(toWireV), bySrc(toWireT)
	ddV, ddT := byDst(toDomV), byDst(toDomT)
	for _, f := range tFields {
		a, okA := wsV["Transaction."+f]
		b, okB := wsT[f]
		r.check(okA && okB && strings.TrimPrefix(a.dst, "Transaction.") == b.dst && a.conv == b.conv, "nested-agrees-with-transformers", "to-wire."+f, a.pos,
			"gossip and transformers write the field to the same wire field the same way", fmt.Sprintf("gossip: %s %s; transformers: %s %s", a.dst, a.conv, b.dst, b.conv))
		c, okC := ddV["Transaction."+f]
		d, okD := ddT[f]
		r.check(okC && okD && strings.TrimPrefix(c.src, "Transaction.") == d.src && c.conv == d.conv, "nested-agrees-with-transformers", "from-wire."+f, c.pos,
			"gossip and transformers restore the field from the same wire field the same way", fmt.Sprintf("gossip: %s %s; transformers: %s %s", c.src, c.conv, d.src, d.conv))
	}

	// storage/cache form: the only part of the msgpack pairs that is in the shape of this repository's code
	r.rule("msgpack-keys", "structs encoded by one msgpack library and decoded by another share one key table: every exported field carries a msgpack tag and tags are unique per struct (a duplicate or missing key silently drops a field on decode)", 4)
	for _, spec := range [][2]string{{"accountant", "Vertex"}, {"transaction", "Transaction"}, {"spice", "Melange"}, {"accountant", "Balance"}} {
		pkg := w.Pkg(spec[0])
		if pkg == nil {
			continue
		}
		obj := pkg.Pkg.Scope().Lookup(spec[1])
		if obj == nil {
			r.bad("msgpack-keys", spec[0]+"."+spec[1], "-", "struct must exist", "not found")
			continue
		}
		st := obj.Type().Underlying().(*types.Struct)
		seen := map[string]string{}
		bad := ""
		for i := 0; i < st.NumFields(); i++ {
			f := st.Field(i)
			if !f.Exported() {
				continue
			}
			tag := reflect.StructTag(st.Tag(i)).Get("msgpack")
			if tag == "-" {
				continue
			}
			name := strings.Split(tag, ",")[0]
			if name == "" {
				bad = "field " + f.Name() + " has no msgpack key"
			}
			if strings.Contains(tag, ",") {
				// the encoder cuts the tag at the comma, the decoder of the other library takes the whole tag as the key:
				// with an option the field is written under one key and looked up under another
				bad = "field " + f.Name() + " carries a tag option (" + tag + "): the two msgpack libraries derive different keys from it"
			}
			if prev, dup := seen[name]; dup {
				bad = "fields " + prev + " and " + f.Name() + " share the key " + name
			}
			seen[name] = f.Name()
		}
		r.check(bad == "", "msgpack-keys", spec[0]+"."+spec[1], w.Pos(obj.Pos()), fmt.Sprintf("%d keyed fields, all distinct", len(seen)), bad)
	}

	// no extra unmapped wire field silently dropped is out of scope; but no domain field may receive a constant
	r.rule("no-unknown-source", "every value stored into a mapped struct is a recognised conversion of a field of the input", 25)
	for name, es := range map[string][]mapEntry{"vertex→wire": toWireV, "wire→vertex": toDomV, "trx→wire": toWireT, "wire→trx": toDomT} {
		for _, e := range es {
			r.check(e.conv != "?", "no-unknown-source", name+"/"+e.dst, e.pos, "recognised conversion", "stored value is "+e.src)
		}
	}

	// the transcoders are pure functions of their input: a storage / wire form that aliases shared state changes
	// after it was handed out (e.g. a pooled buffer reused by the next encode)
	r.rule("transcoders-stateless", "the functions that produce or read a storage / wire form touch no package-level mutable state (only error sentinels): their result cannot alias storage another call reuses", 6)
	var coders []*ssa.Function
	for _, pk := range []string{"accountant", "transaction", "spice", "transformers", "gossip"} {
		for _, fn := range w.RepoFuncs(pk) {
			if fn.Parent() != nil {
				continue
			}
			n := strings.ToLower(refName(fn))
			isCoder := n == "encode" || n == "decode" || strings.HasPrefix(n, "decode") && pk != "gossip" || strings.HasPrefix(n, "encode") && pk != "gossip" ||
				fn.Name() == "mapAccountantVertexToProtoVertex" || fn.Name() == "mapProtoVertexToAccountantVertex" || fn.Name() == "TrxToProtoTrx" || fn.Name() == "ProtoTrxToTrx"
			if isCoder {
				coders = append(coders, fn)
			}
		}
	}
	for _, fn := range coders {
		statelessObligation(w, r, "transcoders-stateless", fn)
	}

	// … and reads its input from bytes nobody rewrites while the decoded value is in use: the decoder keeps sub-slices of
	// its input for []byte fields, so a buffer kept on a long-lived struct (or handed to ValueCopy for reuse) changes
	// vertices that were returned earlier
	r.rule("decode-input-not-reused", "no stored record is decoded from a buffer that is kept for reuse: (*badger.Item).ValueCopy is given nil, and the bytes passed to the decoders do not come from a field of a long-lived struct or a package-level variable", 3)
	for _, fn := range w.RepoFuncs("accountant", "transaction", "spice", "cache") {
		for _, c := range callsTo(fn, "(*"+badgerPkg+".Item).ValueCopy") {
			_, a := callArgs(c)
			isNil := len(a) > 0 && isNilConst(a[0])
			r.check(isNil, "decode-input-not-reused", shortFn(fn)+"/ValueCopy", lineOf(w, c), "the copy of a stored value goes into a fresh buffer", "ValueCopy reuses "+pathOf(a[0])+": records decoded earlier keep pointing into it")
		}
		for _, c := range callsTo(fn, cn("accountant", "", "decodeVertex"), cn("accountant", "", "decodeBalance"), cn("transaction", "", "Decode"), cn("spice", "", "Decode"),
			"github.com/shamaton/msgpack/v2.Unmarshal", "github.com/vmihailenco/msgpack.Unmarshal") {
			src := c.Common().Args[0]
			shared := ""
			for _, o := range origins(src) {
				switch x := o.(type) {
				case *ssa.Global:
					shared = "package-level " + x.Name()
				case *ssa.UnOp:
					if fa, ok := x.X.(*ssa.FieldAddr); ok {
						if _, fresh := strip(fa.X).(*ssa.Alloc); !fresh && isRepoNamed(fa.X.Type()) {
							shared = "field " + pathOf(x)
						}
					}
					if g, ok := x.X.(*ssa.Global); ok {
						shared = "package-level " + g.Name()
					}
				}
			}
			r.check(shared == "", "decode-input-not-reused", shortFn(fn)+"/"+shortCallee(c), lineOf(w, c), "the decoded bytes are not kept in shared storage", "input comes from "+shared)
		}
	}

	// the stored form is what the codec makes of the value itself: nothing rewrites a field between the value and the
	// encoder, or between the decoder and the value (an in-band transformation with no flag cannot be undone reliably)
	r.rule("storage-codec-is-transparent", "a msgpack Marshal of a ledger struct is given the value itself, not a copy with rewritten fields; after a msgpack Unmarshal no field of the decoded value is assigned", 3)
	for _, fn := range w.RepoFuncs("accountant", "transaction", "spice", "cache") {
		for _, c := range callsTo(fn, "github.com/shamaton/msgpack/v2.Marshal", "github.com/vmihailenco/msgpack.Marshal") {
			v := c.Common().Args[0]
			if vs, ok := v.(*ssa.Slice); ok { // variadic form Marshal(v...)
				v = vs.X
			}
			why := ""
			for _, o := range marshalSources(v, 0) {
				if al, ok := o.(*ssa.Alloc); ok {
					if fs := fieldStores(al, nil); fs != nil {
						why = "the encoded value is the local copy " + al.Comment + " whose field is assigned at " + lineOf(w, fs) + " before it is encoded"
					}
				}
			}
			r.check(why == "", "storage-codec-is-transparent", shortFn(fn)+"/Marshal", lineOf(w, c), "the encoder is given the value itself", why)
		}
		// the same one level up: an encoder method (its Marshal is given the receiver / a parameter) called on a local copy
		// of the value whose field was assigned before
		instrsOf(fn, func(in ssa.Instruction) {
			c, ok := in.(ssa.CallInstruction)
			if !ok {
				return
			}
			enc := c.Common().StaticCallee()
			if enc == nil || !isRepoFunc(enc) || len(enc.Blocks) == 0 || enc == fn {
				return
			}
			for _, mc := range callsTo(enc, "github.com/shamaton/msgpack/v2.Marshal", "github.com/vmihailenco/msgpack.Marshal") {
				v := mc.Common().Args[0]
				if vs, ok := v.(*ssa.Slice); ok {
					v = vs.X
				}
				var walk func(x ssa.Value, d int) *ssa.Parameter
				walk = func(x ssa.Value, d int) *ssa.Parameter {
					if d > 6 || x == nil {
						return nil
					}
					switch y := x.(type) {
					case *ssa.Parameter:
						return y
					case *ssa.MakeInterface:
						return walk(y.X, d+1)
					case *ssa.ChangeType:
						return walk(y.X, d+1)
					case *ssa.UnOp:
						return walk(y.X, d+1)
					case *ssa.Alloc: // a value receiver / parameter spilled into a local
						for _, ref := range *y.Referrers() {
							if st, ok := ref.(*ssa.Store); ok && st.Addr == ssa.Value(y) {
								if p := walk(st.Val, d+1); p != nil {
									return p
								}
							}
						}
					}
					return nil
				}
				prm := walk(v, 0)
				if prm == nil {
					continue
				}
				for k, p := range enc.Params {
					if p != prm || k >= len(c.Common().Args) {
						continue
					}
					why := ""
					for _, o := range marshalSources(c.Common().Args[k], 0) {
						if al, ok := o.(*ssa.Alloc); ok {
							if fs := fieldStores(al, nil); fs != nil {
								why = "the value handed to the encoder " + shortFn(enc) + " is the local copy " + al.Comment + " whose field is assigned at " + lineOf(w, fs) + " before it is encoded: the stored form is not the value's own, every reader of the record has to know how to undo it"
							}
						}
					}
					r.check(why == "", "storage-codec-is-transparent", shortFn(fn)+"/"+shortCallee(c), lineOf(w, c), "the encoder is given the value itself", why)
				}
			}
		})
		for _, c := range callsTo(fn, "github.com/shamaton/msgpack/v2.Unmarshal", "github.com/vmihailenco/msgpack.Unmarshal") {
			why := ""
			for _, o := range marshalSources(c.Common().Args[1], 0) {
				if al, ok := o.(*ssa.Alloc); ok {
					if fs := fieldStores(al, c.(ssa.Instruction)); fs != nil {
						why = "field of the decoded value " + al.Comment + " is assigned at " + lineOf(w, fs) + " after decoding"
					}
				}
			}
			r.check(why == "", "storage-codec-is-transparent", shortFn(fn)+"/Unmarshal", lineOf(w, c), "the decoded value is returned as the decoder filled it", why)
		}
	}

	// a wire message that shares bytes with a variable the caller goes on to overwrite is rewritten after the fact
	r.rule("wire-form-does-not-alias-a-reused-variable", "a mapper that slices array fields through a pointer parameter (its result shares those bytes) is not given the address of a variable that a loop reassigns while the mapped message is kept (appended, stored) beyond the iteration", 1)
	aliasing := map[*ssa.Function][]int{}
	for _, fn := range w.RepoFuncs("transformers", "gossip", "notaryserver", "walletapi", "walletmiddleware", "accountant") {
		if fn.Parent() != nil {
			continue
		}
		instrsOf(fn, func(in ssa.Instruction) {
			sl, ok := in.(*ssa.Slice)
			if !ok {
				return
			}
			pt, ok := sl.X.Type().Underlying().(*types.Pointer)
			if !ok {
				return
			}
			if _, isArr := pt.Elem().Underlying().(*types.Array); !isArr {
				return
			}
			if _, isFA := sl.X.(*ssa.FieldAddr); !isFA {
				return
			}
			if prm, isPrm := baseOf(sl.X).(*ssa.Parameter); isPrm {
				if _, ptrParam := prm.Type().Underlying().(*types.Pointer); ptrParam && !isPBMessagePtr(prm.Type()) {
					for k, p := range fn.Params {
						if p == prm {
							dup := false
							for _, k0 := range aliasing[fn] {
								if k0 == k {
									dup = true
								}
							}
							if !dup {
								aliasing[fn] = append(aliasing[fn], k)
							}
						}
					}
				}
			}
		})
	}
	nAliasCalls := 0
	for _, fn := range w.RepoFuncs("transformers", "gossip", "notaryserver", "walletapi", "walletmiddleware", "accountant") {
		instrsOf(fn, func(in ssa.Instruction) {
			c, ok := in.(*ssa.Call)
			if !ok {
				return
			}
			cal := c.Call.StaticCallee()
			ks := aliasing[cal]
			if cal == nil || len(ks) == 0 {
				return
			}
			for _, k := range ks {
				if k >= len(c.Call.Args) {
					continue
				}
				al, ok := c.Call.Args[k].(*ssa.Alloc)
				if !ok {
					continue
				}
				nAliasCalls++
				reassigned := false
				for _, ref := range *al.Referrers() {
					if st, ok := ref.(*ssa.Store); ok && st.Addr == ssa.Value(al) && onCycleWith(st.Block(), c.Block()) {
						reassigned = true
					}
				}
				kept := ""
				if reassigned {
					var follow func(v ssa.Value, d int)
					seenV := map[ssa.Value]bool{}
					follow = func(v ssa.Value, d int) {
						if v == nil || seenV[v] || d > 4 || kept != "" {
							return
						}
						seenV[v] = true
						for _, ref := range *v.Referrers() {
							switch x := ref.(type) {
							case *ssa.Extract:
								follow(x, d+1)
							case *ssa.Phi:
								follow(x, d+1)
							case *ssa.Store:
								if x.Val == v {
									if _, local := x.Addr.(*ssa.Alloc); local {
										// element of a slice literal handed to append, or a plain local
										for _, r2 := range *x.Addr.Referrers() {
											if ld, ok := r2.(*ssa.UnOp); ok && ld.Op == token.MUL {
												follow(ld, d+1)
											}
										}
									} else {
										kept = "stored at " + lineOf(w, x)
									}
								}
							case *ssa.Call:
								if b, ok := x.Call.Value.(*ssa.Builtin); ok && b.Name() == "append" {
									kept = "appended at " + lineOf(w, x)
								}
							case *ssa.MapUpdate:
								kept = "put into a map at " + lineOf(w, x)
							}
						}
					}
					follow(c, 0)
					// elements of a slice literal `append(list, msg)`
					if kept == "" {
						for _, ref := range *c.Referrers() {
							if st, ok := ref.(*ssa.Store); ok {
								if ia, ok := st.Addr.(*ssa.IndexAddr); ok {
									_ = ia
									kept = "placed into a list at " + lineOf(w, st)
								}
							}
						}
					}
				}
				r.check(kept == "", "wire-form-does-not-alias-a-reused-variable", shortFn(fn)+"/"+shortCallee(c), lineOf(w, c), "the mapped message does not share bytes with a variable that is overwritten while the message is kept",
					fmt.Sprintf("%s slices array fields of *%s; the argument is the address of %s, which the loop assigns again, and the message is %s", shortCallee(c), cal.Params[k].Name(), al.Comment, kept))
			}
		})
	}
	if nAliasCalls == 0 {
		r.ok("wire-form-does-not-alias-a-reused-variable", "none", "-", "no mapper that shares bytes with its argument is given the address of a local variable")
	}

	r.rule("decode-into-zero-value", "every msgpack decode writes into a destination that is a fresh zero value on each execution (never a variable reused across records)", 2)
	for _, fn := range w.RepoFuncs("accountant", "transaction", "spice", "cache") {
		for _, c := range callsTo(fn, "github.com/shamaton/msgpack/v2.Unmarshal", "github.com/vmihailenco/msgpack.Unmarshal") {
			ok, why := decodeTargetFresh(w, c.(ssa.Instruction), c.Common().Args[1], 2)
			r.check(ok, "decode-into-zero-value", shortFn(fn)+"/Unmarshal", lineOf(w, c), "the decode destination is a fresh zero value", why)
		}
	}
}

func isRepoGlobal(g *ssa.Global) bool {
	return g.Pkg != nil && strings.HasPrefix(g.Pkg.Pkg.Path(), modPath)
}

// decodeTargetFresh: the value a msgpack buffer is decoded into is a zero value on every execution of the call
// (the decoder leaves absent / nil fields of the destination untouched, so a reused destination keeps fields of
// the previous record).
func decodeTargetFresh(w *World, at ssa.Instruction, target ssa.Value, depth int) (bool, string) {
	v := target
	for i := 0; i < 6; i++ {
		switch x := v.(type) {
		case *ssa.MakeInterface:
			v = x.X
			continue
		case *ssa.ChangeType:
			v = x.X
			continue
		case *ssa.ChangeInterface:
			v = x.X
			continue
		}
		break
	}
	switch x := v.(type) {
	case *ssa.Alloc:
		for _, ref := range *x.Referrers() {
			if st, ok := ref.(*ssa.Store); ok && st.Addr == ssa.Value(x) {
				return false, "the destination variable is assigned before it is decoded into"
			}
		}
		cb := at.Block()
		inLoop := reachable(cb.Succs, nil)[cb]
		if inLoop && x.Block() != cb && !(reachable(cb.Succs, nil)[x.Block()]) {
			return false, "the destination is declared outside the loop that decodes into it: the second record inherits what the first left behind"
		}
		return true, ""
	case *ssa.Parameter:
		fn := x.Parent()
		if depth <= 0 {
			return false, "destination is handed in by the caller"
		}
		idx := -1
		for i, p := range fn.Params {
			if p == x {
				idx = i
			}
		}
		n := 0
		for _, g := range w.RepoFuncs() {
			var bad string
			instrsOf(g, func(in ssa.Instruction) {
				c, ok := in.(ssa.CallInstruction)
				if !ok || c.Common().StaticCallee() != fn || idx < 0 || idx >= len(c.Common().Args) {
					return
				}
				n++
				if ok2, why := decodeTargetFresh(w, in, c.Common().Args[idx], depth-1); !ok2 {
					bad = shortFn(g) + " at " + lineOf(w, in) + ": " + why
				}
			})
			if bad != "" {
				return false, bad
			}
		}
		if n == 0 {
			return false, "destination is handed in by unknown callers"
		}
		return true, ""
	}
	return false, "destination is not a fresh local variable"
}

// statelessObligation: fn (and the same-package helpers it calls) touches no package-level mutable state of the
// repository (error sentinels excepted): what it returns cannot alias storage that another call reuses.
func statelessObligation(w *World, r *Report, rule string, fn *ssa.Function) {
	var shared []string
	seenFn := map[*ssa.Function]bool{}
	var scan func(f *ssa.Function, d int)
	scan = func(f *ssa.Function, d int) {
		if seenFn[f] {
			return
		}
		seenFn[f] = true
		for _, ff := range WithAnon(f) {
			instrsOf(ff, func(in ssa.Instruction) {
				for _, op := range in.Operands(nil) {
					if g, ok := (*op).(*ssa.Global); ok && isRepoGlobal(g) {
						if pt, ok := g.Type().Underlying().(*types.Pointer); ok && isErrorType(pt.Elem()) {
							continue
						}
						shared = append(shared, g.Name())
					}
				}
				if c, ok := in.(ssa.CallInstruction); ok && d < 2 {
					if h := samePkgHelper(ff, c); h != nil {
						scan(h, d+1)
					}
				}
			})
		}
	}
	scan(fn, 0)
	r.check(len(shared) == 0, rule, shortFn(fn), w.Pos(fn.Pos()), "no package-level state is used while transcoding", "uses package-level "+strings.Join(uniqStrings(shared), ", "))
}

// isRepoNamed: t is (a pointer to) a named struct type of the repository.
func isRepoNamed(t types.Type) bool {
	if p, ok := t.Underlying().(*types.Pointer); ok {
		t = p.Elem()
	}
	if p, ok := t.(*types.Pointer); ok {
		t = p.Elem()
	}
	n, ok := t.(*types.Named)
	return ok && n.Obj().Pkg() != nil && strings.HasPrefix(n.Obj().Pkg().Path(), modPath)
}

// marshalSources: the local variables a value handed to the codec is (a load of / the address of).
func marshalSources(v ssa.Value, d int) []ssa.Value {
	if v == nil || d > 8 {
		return nil
	}
	switch x := v.(type) {
	case *ssa.MakeInterface:
		return marshalSources(x.X, d+1)
	case *ssa.ChangeType:
		return marshalSources(x.X, d+1)
	case *ssa.UnOp:
		if x.Op == token.MUL {
			return marshalSources(x.X, d+1)
		}
	case *ssa.Alloc:
		return []ssa.Value{x}
	case *ssa.Phi:
		var out []ssa.Value
		for _, e := range x.Edges {
			out = append(out, marshalSources(e, d+1)...)
		}
		return out
	}
	return nil
}

// fieldStores: a store into a field (at any depth) of local variable al; with after != nil only stores reachable from it.
func fieldStores(al *ssa.Alloc, after ssa.Instruction) ssa.Instruction {
	var hit ssa.Instruction
	var reachAfter map[*ssa.BasicBlock]bool
	if after != nil {
		reachAfter = reachable(after.Block().Succs, nil)
	}
	var visit func(addr ssa.Value, d int)
	visit = func(addr ssa.Value, d int) {
		if d > 6 || hit != nil {
			return
		}
		for _, ref := range *addr.Referrers() {
			switch x := ref.(type) {
			case *ssa.FieldAddr:
				if x.X == addr {
					for _, r2 := range *x.Referrers() {
						if st, ok := r2.(*ssa.Store); ok && st.Addr == ssa.Value(x) {
							if after == nil || reachAfter[st.Block()] || (st.Block() == after.Block() && indexIn(st.Block(), st) > indexIn(after.Block(), after)) {
								hit = st
								return
							}
						}
					}
					visit(x, d+1)
				}
			case *ssa.IndexAddr:
				if x.X == addr {
					visit(x, d+1)
				}
			}
		}
	}
	visit(al, 0)
	return hit
}
