module canary

go 1.23
