// Package canary holds tiny positive and negative examples for every analysis engine of vcheck.
// The analyser loads it on every run (stdlib only, ~1 s) and fails the check if an engine stops
// firing on a broken example or starts firing on a correct one — so that a rule can never pass
// vacuously because its engine went blind.
package canary

import (
	"bytes"
	"container/list"
	"context"
	"errors"
	"strconv"
	"sync"
)

type T struct {
	f   int
	sub *T
	b   []byte
}

var (
	mu     sync.RWMutex
	shared int
	ErrX   = errors.New("x")
)

func g(x int) error {
	if x > 3 {
		return ErrX
	}
	return nil
}

func effect(x int) int { return x + 1 }

// ---- guard dominance
func GuardOK(x int) int {
	if err := g(x); err != nil {
		return 0
	}
	return effect(x)
}

func GuardBad(x int) int {
	if err := g(x); err != nil {
		shared++
	}
	return effect(x)
}

func GuardSwitchOK(x int) int {
	err := g(x)
	switch err {
	case nil:
		return effect(x)
	}
	return 0
}

func GuardShortCircuitBad(x int, y bool) int {
	if err := g(x); err != nil && y {
		return 0
	}
	return effect(x)
}

// ---- path obligations (drain)
func DrainOK(c chan int) {
	for range c {
	}
}

func DrainBad(c chan int) {
	for v := range c {
		if v == 1 {
			return
		}
	}
}

func ConsumerOK(c chan int, ctx context.Context) int {
	n := 0
	for v := range c {
		select {
		case <-ctx.Done():
			DrainOK(c)
			return n
		default:
		}
		n += v
	}
	return n
}

func ConsumerBad(c chan int, ctx context.Context) int {
	n := 0
	for v := range c {
		select {
		case <-ctx.Done():
			return n
		default:
		}
		n += v
	}
	return n
}

// ---- locksets
func LockOK() {
	mu.Lock()
	defer mu.Unlock()
	shared++
}

func LockReadOnly() {
	mu.RLock()
	shared++
	mu.RUnlock()
}

func LockLeak(b bool) {
	mu.Lock()
	if b {
		return
	}
	mu.Unlock()
}

func lockedHelper() { shared++ }

func CallsHelperLocked() {
	mu.Lock()
	defer mu.Unlock()
	lockedHelper()
}

// ---- facts
func LenOK(b []byte) [4]byte {
	if len(b) != 4 {
		return [4]byte{}
	}
	return [4]byte(b)
}

func LenBad(b []byte) [4]byte {
	if len(b) == 0 {
		return [4]byte{}
	}
	return [4]byte(b)
}

func validT(t *T) error {
	if t == nil || t.sub == nil || len(t.b) != 4 {
		return ErrX
	}
	return nil
}

func LenViaValidatorOK(t *T) [4]byte {
	if err := validT(t); err != nil {
		return [4]byte{}
	}
	return [4]byte(t.b)
}

func NilOK(t *T) int {
	if err := validT(t); err != nil {
		return 0
	}
	return t.sub.f
}

func NilBad(t *T) int {
	if t == nil {
		return 0
	}
	return t.sub.f
}

func SliceBoundsOK(b []byte) []byte {
	if len(b)-4 < 1 {
		return nil
	}
	return b[1 : len(b)-4]
}

func SliceBoundsBad(b []byte) []byte {
	if len(b)-4 < 0 {
		return nil
	}
	return b[1 : len(b)-4]
}

// ---- origins
func Origins(a, b *T, flag bool) *T {
	s := make([]*T, 0, 2)
	s = append(s, a)
	if flag {
		s = append(s, b)
	}
	var last *T
	for _, x := range s {
		last = x
	}
	return last
}

// ---- error discipline
func RetOK(x int) error {
	if err := g(x); err != nil {
		return err
	}
	return nil
}

func RetDrop(x int) error {
	g(x)
	return nil
}

func RetLogOnly(x int) error {
	if err := g(x); err != nil {
		shared++
	}
	return nil
}

// ---- bool validators written as expressions
func validB(b []byte) bool { return b != nil && len(b) == 4 }

func LenViaBoolExprOK(b []byte) [4]byte {
	if !validB(b) {
		return [4]byte{}
	}
	return [4]byte(b)
}

func weakB(b []byte) bool { return b != nil || len(b) == 4 }

func LenViaWeakBoolBad(b []byte) [4]byte {
	if !weakB(b) {
		return [4]byte{}
	}
	return [4]byte(b)
}

func incompleteB(b []byte) bool { return b == nil || len(b) != 4 }

func LenViaNegatedBoolOK(b []byte) [4]byte {
	if incompleteB(b) {
		return [4]byte{}
	}
	return [4]byte(b)
}

// ---- pooled memory
var bufPool = sync.Pool{New: func() any { return new(bytes.Buffer) }}

func PoolLeakBad(a, b []byte) []byte {
	buf := bufPool.Get().(*bytes.Buffer)
	defer bufPool.Put(buf)
	buf.Reset()
	buf.Write(a)
	buf.Write(b)
	return buf.Bytes()
}

func PoolCopyOK(a, b []byte) []byte {
	buf := bufPool.Get().(*bytes.Buffer)
	defer bufPool.Put(buf)
	buf.Reset()
	buf.Write(a)
	buf.Write(b)
	out := make([]byte, buf.Len())
	copy(out, buf.Bytes())
	return out
}

// ---- key hashes
type prefixHasher struct{}

func (prefixHasher) Sum64(key string) uint64 {
	if len(key) >= 8 {
		if sum, err := strconv.ParseUint(key[:8], 16, 64); err == nil {
			return sum
		}
	}
	return 0
}

type wholeHasher struct{}

func (wholeHasher) Sum64(key string) uint64 {
	var h uint64 = 14695981039346656037
	for i := 0; i < len(key); i++ {
		h ^= uint64(key[i])
		h *= 1099511628211
	}
	return h
}

// ---- look-ups that write
type miniLRU struct {
	ll    *list.List
	cache map[string]*list.Element
}

func (c *miniLRU) Get(key string) (any, bool) {
	if ele, hit := c.cache[key]; hit {
		c.ll.MoveToFront(ele)
		return ele.Value, true
	}
	return nil, false
}

func (c *miniLRU) Len() int {
	if c.cache == nil {
		return 0
	}
	return c.ll.Len()
}
