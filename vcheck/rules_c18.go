package main

// C18 — concurrent use of a node is free of data races: a static lockset discipline (Eraser /
// RacerD style) over the operations the property names.

import (
	"fmt"
	"go/token"
	"go/types"
	"sort"
	"strings"

	"golang.org/x/tools/go/ssa"
)

type rootSpec struct {
	pkg, recv, name string
	single          bool // started once per node (background loop)
}

// the operations of the property's mix, after the DAG is loaded
var c18Roots = []rootSpec{
	{"accountant", "AccountingBook", "CreateLeaf", false},
	{"accountant", "AccountingBook", "AddLeaf", false},
	{"accountant", "AccountingBook", "CalculateBalance", false},
	{"accountant", "AccountingBook", "ReadTransactionByHash", false},
	{"accountant", "AccountingBook", "ReadDAGTransactionsByAddress", false},
	{"accountant", "AccountingBook", "ReadVertex", false},
	{"accountant", "AccountingBook", "StreamDAG", false},
	{"accountant", "AccountingBook", "DagLoaded", false},
	{"accountant", "AccountingBook", "Address", false},
	{"accountant", "AccountingBook", "runLeafSubscriber", true},
	{"accountant", "AccountingBook", "runTruncate", true},
	{"accountant", "buffer", "run", true},
	{"gossip", "gossiper", "GossipVrx", false},
	{"gossip", "gossiper", "GossipTrx", false},
	{"gossip", "gossiper", "GetVertex", false},
	{"gossip", "gossiper", "LoadDag", false},
	{"gossip", "gossiper", "runVertexGossipProcess", true},
	{"gossip", "gossiper", "runTransactionGossipProcess", true},
	{"notaryserver", "server", "Propose", false},
	{"notaryserver", "server", "Confirm", false},
	{"notaryserver", "server", "Reject", false},
	{"notaryserver", "server", "Waiting", false},
	{"notaryserver", "server", "Saved", false},
	{"notaryserver", "server", "Data", false},
	{"notaryserver", "server", "Balance", false},
	{"notaryserver", "server", "TransactionsInDAG", false},
	{"notaryserver", "server", "runSubscriber", true},
	{"dataprovider", "Cache", "clean", true},
}

var c18Tracked = map[string]bool{
	"accountant.AccountingBook": true, "accountant.buffer": true, "gossip.gossiper": true, "notaryserver.server": true,
	"dataprovider.Cache": true, "pipe.Juggler": true, "cache.Hippocampus": true, "cache.Flashback": true,
}

type access struct {
	fn    *ssa.Function
	in    ssa.Instruction
	write bool
	what  string
}

func namedOf(t types.Type) string {
	if p, ok := t.Underlying().(*types.Pointer); ok {
		t = p.Elem()
	}
	if p, ok := t.(*types.Pointer); ok {
		t = p.Elem()
	}
	if n, ok := t.(*types.Named); ok && n.Obj().Pkg() != nil {
		return n.Obj().Pkg().Name() + "." + curAliases.refTypeName(n.Obj().Pkg().Path(), n.Obj().Name())
	}
	return ""
}

func exemptFieldType(t types.Type) string {
	s := t.String()
	switch {
	case strings.HasPrefix(s, "sync."), strings.HasPrefix(s, "sync/atomic."):
		return "sync/atomic type"
	}
	if _, ok := t.Underlying().(*types.Chan); ok {
		return "channel (operations are synchronised)"
	}
	return ""
}

func init() {
	register("C18", []string{"./..."}, // the whole program: interface dispatch (VTA) needs the wiring in cmd/
		"A static lockset discipline standing in for the race detector over ALL schedules: for every field of the node's long-lived structs that is written by an operation of the property's mix, "+
			"all accesses reachable from those operations hold one common lock (exclusively at the writes), unless every access belongs to one single-instance background loop; "+
			"variables captured by goroutines started from those operations are not stored to afterwards; published vertices/transactions are written only while being built. "+
			"Races inside third-party packages and through values the call graph cannot resolve are not decided.",
		runC18)
}

func runC18(w *World, r *Report) {
	r.NotDecided = []string{"races inside third-party packages (dag, badger, bigcache are internally locked — trusted)", "happens-before through channels (not needed for any field on the pinned tree)",
		"operations outside the property's mix (peer join Announce/Discover, startup, shutdown)"}
	r.Assumptions = append(r.Assumptions, "CreateGenesis and LoadDag are excluded by the property's precondition 'once the DAG is loaded'", "one instance of each long-lived struct per process; locks are identified by (type, field)")
	repoScope := func(fn *ssa.Function) bool { return isRepoFunc(fn) }
	li := ComputeLocks(w, repoScope)
	cg := w.CallGraph()

	// reachability from roots, tracking thread class
	type tclass struct {
		roots map[string]bool
		multi bool
	}
	classOf := map[*ssa.Function]*tclass{}
	var visit func(fn *ssa.Function, root string, multi bool)
	visit = func(fn *ssa.Function, root string, multi bool) {
		if fn == nil || !isRepoFunc(fn) || len(fn.Blocks) == 0 {
			return
		}
		n := refName(fn)
		if fn.Parent() == nil && (n == "CreateGenesis" || (n == "LoadDag" && fn.Pkg.Pkg.Name() == "accountant")) {
			return
		}
		tc := classOf[fn]
		if tc == nil {
			tc = &tclass{roots: map[string]bool{}}
			classOf[fn] = tc
		}
		if tc.roots[root] && (tc.multi || !multi) {
			return
		}
		tc.roots[root] = true
		tc.multi = tc.multi || multi
		if node := cg.Nodes[fn]; node != nil {
			for _, e := range node.Out {
				cal := e.Callee.Func
				if _, isGo := e.Site.(*ssa.Go); isGo {
					// a goroutine spawned by the operation: its own thread; as many instances as spawns
					visit(cal, "go:"+shortFn(cal), true) // spawned per call: treated as multi-instance
					continue
				}
				visit(cal, root, multi)
			}
		}
		for _, a := range fn.AnonFuncs {
			// closures invoked through library callbacks (db.View(func…)) run on the caller's thread;
			// closures started with `go` are handled at the Go instruction above
			usedByGo := false
			instrsOf(fn, func(in ssa.Instruction) {
				if g, ok := in.(*ssa.Go); ok && closureOf(g.Call.Value) == a {
					usedByGo = true
				}
			})
			if !usedByGo {
				visit(a, root, multi)
			}
		}
	}
	r.rule("roots", "operations of the property's mix resolved to functions", 20)
	for _, rs := range c18Roots {
		fn := w.Func(rs.pkg, rs.recv, rs.name)
		key := rs.pkg + "." + rs.recv + "." + rs.name
		if fn == nil {
			r.bad("roots", key, "-", "root operation must resolve", "not found")
			continue
		}
		r.ok("roots", key, w.Pos(fn.Pos()), fmt.Sprintf("single-instance=%v", rs.single))
		visit(fn, key, !rs.single)
	}
	r.Extra["functions_reachable_from_roots"] = len(classOf)

	// collect accesses per tracked field
	accs := map[string][]access{}
	fieldType := map[string]types.Type{}
	record := func(fn *ssa.Function, in ssa.Instruction, base ssa.Value, field int, write bool, what string) {
		tn := namedOf(base.Type())
		if !c18Tracked[tn] {
			return
		}
		// accesses through a freshly allocated struct (constructor) are not shared yet
		if _, fresh := strip(base).(*ssa.Alloc); fresh {
			return
		}
		st := base.Type().Underlying()
		if p, ok := st.(*types.Pointer); ok {
			st = p.Elem().Underlying()
		}
		s, ok := st.(*types.Struct)
		if !ok || field >= s.NumFields() {
			return
		}
		k := tn + "." + fieldName(base.Type(), field)
		fieldType[k] = s.Field(field).Type()
		accs[k] = append(accs[k], access{fn, in, write, what})
	}
	var fnsSorted []*ssa.Function
	for fn := range classOf {
		fnsSorted = append(fnsSorted, fn)
	}
	sort.Slice(fnsSorted, func(i, j int) bool { return fnsSorted[i].String() < fnsSorted[j].String() })
	for _, fn := range fnsSorted {
		r.seen(shortFn(fn))
		instrsOf(fn, func(in ssa.Instruction) {
			switch x := in.(type) {
			case *ssa.FieldAddr:
				// classify by the uses of the address
				for _, ref := range *x.Referrers() {
					switch u := ref.(type) {
					case *ssa.Store:
						if u.Addr == ssa.Value(x) {
							record(fn, u, x.X, x.Field, true, "store")
						}
					case *ssa.UnOp:
						if u.Op != token.MUL {
							continue
						}
						wr, what := loadedValueWritten(u)
						record(fn, u, x.X, x.Field, wr, what)
					case *ssa.Call, *ssa.Go, *ssa.Defer:
						// address passed as receiver/argument (e.g. &ab.mux, &ab.weight): method of the field's own type
						record(fn, ref, x.X, x.Field, false, "address-taken")
					}
				}
			case *ssa.UnOp:
				// whole-struct load through a pointer: reads every field (value-receiver call, copy)
				if x.Op == token.MUL {
					tn := namedOf(x.X.Type())
					if _, isPtr := x.X.Type().Underlying().(*types.Pointer); isPtr && c18Tracked[tn] {
						if st, ok := x.Type().Underlying().(*types.Struct); ok {
							if _, fresh := strip(x.X).(*ssa.Alloc); !fresh {
								for i := 0; i < st.NumFields(); i++ {
									record(fn, x, x.X, i, false, "whole-struct copy")
								}
							}
						}
					}
				}
			}
		})
	}

	r.rule("lockset-discipline", "a field written by an operation of the mix: all accesses share one lock, held exclusively at writes — or all belong to one single-instance loop", 4)
	var keys []string
	for k := range accs {
		keys = append(keys, k)
	}
	sort.Strings(keys)
	nFields, nWritten := 0, 0
	for _, k := range keys {
		nFields++
		if why := exemptFieldType(fieldType[k]); why != "" {
			continue
		}
		as := accs[k]
		var writes []access
		for _, a := range as {
			if a.write {
				writes = append(writes, a)
			}
		}
		if len(writes) == 0 {
			continue
		}
		nWritten++
		// single-instance exemption
		threads := map[string]bool{}
		multi := false
		for _, a := range as {
			tc := classOf[a.fn]
			for rt := range tc.roots {
				threads[rt] = true
			}
			if tc.multi {
				multi = true
			}
		}
		if len(threads) == 1 && !multi {
			r.ok("lockset-discipline", k, lineOf(w, writes[0].in), fmt.Sprintf("all %d accesses run on one single-instance loop", len(as)))
			continue
		}
		// common lock
		common := LockSet{top: true}
		for _, a := range as {
			held := li.At(a.in).clone()
			if a.write { // only exclusive holds protect a write
				for l := range held.m {
					if strings.HasPrefix(l, "R:") {
						delete(held.m, l)
					}
				}
			}
			// compare lock identities irrespective of mode
			ids := LockSet{m: map[string]bool{}}
			for l := range held.m {
				ids.m[l[2:]] = true
			}
			common = common.meet(ids)
		}
		if !common.top && len(common.m) > 0 {
			r.ok("lockset-discipline", k, lineOf(w, writes[0].in), fmt.Sprintf("%d accesses (%d writes) all under %s", len(as), len(writes), common.String()))
			continue
		}
		// find an offending pair for the report
		var detail []string
		for _, a := range as {
			detail = append(detail, fmt.Sprintf("%s %s in %s at %s holding %s", map[bool]string{true: "WRITE", false: "read"}[a.write], a.what, shortFn(a.fn), lineOf(w, a.in), li.At(a.in).String()))
			if len(detail) >= 8 {
				break
			}
		}
		r.bad("lockset-discipline", k, lineOf(w, writes[0].in), "accesses from concurrently runnable operations need a common lock (exclusive at writes)",
			"no common lock: "+strings.Join(detail, "; "))
	}
	r.Extra["tracked_fields_accessed"] = nFields
	r.Extra["fields_written_by_mix"] = nWritten

	// a lock protects a slice or map only while every reference to its storage stays inside the critical sections:
	// a method that hands the field's value out (return b.members, or a reslice of it) lets the caller read the backing
	// array while the next locked writer overwrites it
	r.rule("guarded-storage-stays-inside", "no function returns (a reslice of) a written slice / map field of a tracked struct: callers get copies or elements, never the shared backing store", 0)
	nRef := 0
	for _, fn := range fnsSorted {
		for _, ret := range returnsOf(fn) {
			for _, res := range ret.Results {
				switch res.Type().Underlying().(type) {
				case *types.Slice, *types.Map:
				default:
					continue
				}
				seenV := map[ssa.Value]bool{}
				var chase func(v ssa.Value) string
				chase = func(v ssa.Value) string {
					if v == nil || seenV[v] {
						return ""
					}
					seenV[v] = true
					switch x := v.(type) {
					case *ssa.Slice:
						return chase(x.X)
					case *ssa.ChangeType:
						return chase(x.X)
					case *ssa.Phi:
						for _, e := range x.Edges {
							if k := chase(e); k != "" {
								return k
							}
						}
					case *ssa.UnOp:
						if x.Op != token.MUL {
							return ""
						}
						if fa, ok := x.X.(*ssa.FieldAddr); ok {
							tn := namedOf(fa.X.Type())
							if c18Tracked[tn] {
								if _, fresh := strip(fa.X).(*ssa.Alloc); !fresh {
									return tn + "." + fieldName(fa.X.Type(), fa.Field)
								}
							}
							return ""
						}
						if al, ok := x.X.(*ssa.Alloc); ok {
							for _, sv := range reachingStores(x).vals {
								if k := chase(sv); k != "" {
									return k
								}
							}
							_ = al
						}
					}
					return ""
				}
				k := chase(res)
				if k == "" {
					continue
				}
				written := false
				for _, a := range accs[k] {
					if a.write {
						written = true
					}
				}
				if !written {
					continue
				}
				nRef++
				r.bad("guarded-storage-stays-inside", shortFn(fn)+"/returns "+k, lineOf(w, ret), "the shared backing store of "+k+" is not handed out of its critical sections",
					"the returned value aliases "+k+", which other operations write under a lock the caller does not hold")
			}
		}
	}
	if nRef == 0 {
		r.ok("guarded-storage-stays-inside", "none", "-", "no function returns the storage of a written slice / map field")
	}

	// a read lock admits several holders at once: what runs under it must not write. A library container whose look-up
	// rearranges its own bookkeeping (an LRU's Get moves the entry to the front) is a writer under a reader's lock
	r.rule("read-lock-callees-do-not-write", "a method of a third-party or standard-library type that is called on a field of a repository struct with only a read lock held (R, not W, of a repository RWMutex) does not store into memory it reaches through its receiver — unless it takes a lock or uses atomics itself", 0)
	{
		liR := ComputeLocks(w, func(fn *ssa.Function) bool { return isRepoFunc(fn) })
		nR, nBadR := 0, 0
		for _, fn := range w.RepoFuncs() {
			instrsOf(fn, func(in ssa.Instruction) {
				c, ok := in.(ssa.CallInstruction)
				if !ok {
					return
				}
				cal := c.Common().StaticCallee()
				if cal == nil || isRepoFunc(cal) || cal.Signature.Recv() == nil || len(c.Common().Args) == 0 {
					return
				}
				// the receiver is (loaded from) a field of a repository struct
				fromField := false
				for _, o := range origins(c.Common().Args[0]) {
					if u, ok := o.(*ssa.UnOp); ok {
						if fa, ok := u.X.(*ssa.FieldAddr); ok && strings.HasPrefix(deref(fa.X.Type()).String(), modPath) {
							fromField = true
						}
					}
					if fa, ok := o.(*ssa.FieldAddr); ok && strings.HasPrefix(deref(fa.X.Type()).String(), modPath) {
						fromField = true
					}
				}
				if !fromField {
					return
				}
				held := liR.At(in)
				if held.top {
					return
				}
				onlyRead := ""
				for l := range held.m {
					if strings.HasPrefix(l, "R:") && !held.m["W:"+l[2:]] {
						onlyRead = l
					}
				}
				hasW := false
				for l := range held.m {
					if strings.HasPrefix(l, "W:") {
						hasW = true
					}
				}
				if onlyRead == "" || hasW {
					return
				}
				nR++
				writes, locks := writesThroughReceiver(cal, 0, map[*ssa.Function]bool{})
				if writes && !locks {
					nBadR++
					r.bad("read-lock-callees-do-not-write", shortFn(fn)+"/"+shortCallee(c), lineOf(w, c), "what is called under a read lock only reads",
						fmt.Sprintf("%s stores into memory of its receiver and takes no lock of its own, and it is called here with only %s held: two holders of the read lock write the same memory", calleeName(c), onlyRead))
				}
			})
		}
		r.Extra["library_calls_under_read_lock"] = nR
		if nBadR == 0 {
			r.ok("read-lock-callees-do-not-write", "all", "-", fmt.Sprintf("%d library method calls on struct fields under a read lock examined, none writes through its receiver without a lock of its own", nR))
		}
	}

	// memory that goes back into a pool is not handed out
	r.rule("pooled-memory-stays-inside", "no function returns a value taken from a sync.Pool, or memory that value owns (the result of a method on it, a reslice), when it also puts the value back: the pool hands the object to the next Get on any goroutine, without any lock of the repository in between", 0)
	nPool := 0
	for _, fn := range w.RepoFuncs() {
		for _, d := range pooledMemoryLeaks(w, fn) {
			nPool++
			r.bad("pooled-memory-stays-inside", shortFn(fn), w.Pos(fn.Pos()), "pooled memory is copied before it leaves the function that returns it to the pool", d)
		}
	}
	if nPool == 0 {
		r.ok("pooled-memory-stays-inside", "none", "-", "no function hands out memory of an object it returns to a sync.Pool")
	}

	// goroutine-captured variables
	r.rule("go-closure-captures", "a variable captured by reference by a goroutine started from an operation is not stored to by the spawner after the go statement nor by the goroutine", 5)
	for _, fn := range fnsSorted {
		instrsOf(fn, func(in ssa.Instruction) {
			g, ok := in.(*ssa.Go)
			if !ok {
				return
			}
			mc, ok := g.Call.Value.(*ssa.MakeClosure)
			if !ok {
				return
			}
			cl := mc.Fn.(*ssa.Function)
			bad := ""
			for i, b := range mc.Bindings {
				al, ok := b.(*ssa.Alloc)
				if !ok {
					continue
				}
				fv := cl.FreeVars[i]
				for _, ref := range *fv.Referrers() {
					if st, ok := ref.(*ssa.Store); ok && st.Addr == ssa.Value(fv) {
						bad = fmt.Sprintf("goroutine stores to captured %s at %s", fv.Name(), lineOf(w, st))
					}
				}
				walkFrom(g, nil, nil, func(x ssa.Instruction) bool {
					if st, ok := x.(*ssa.Store); ok && st.Addr == ssa.Value(al) {
						bad = fmt.Sprintf("spawner stores to captured %s at %s after go", fv.Name(), lineOf(w, st))
					}
					return false
				})
			}
			r.check(bad == "", "go-closure-captures", shortFn(fn)+"/go "+shortFn(cl), lineOf(w, g), "captured variables are read-only after the go statement", bad)
		})
	}

	// published vertices are immutable
	r.rule("vertex-immutable", "fields of accountant.Vertex / transaction.Transaction are stored through a non-fresh pointer only while the value is being built (sign), and sign is called on fresh values only", 2)
	allowedWriters := map[string]bool{"(*accountant.Vertex).sign": true, "(*transaction.Transaction).Sign": true}
	for _, fn := range w.RepoFuncs("accountant", "gossip", "notaryserver", "cache", "transaction") {
		instrsOf(fn, func(in ssa.Instruction) {
			st, ok := in.(*ssa.Store)
			if !ok {
				return
			}
			fa, ok := st.Addr.(*ssa.FieldAddr)
			if !ok {
				return
			}
			tn := namedOf(fa.X.Type())
			if tn != "accountant.Vertex" && tn != "transaction.Transaction" {
				return
			}
			base := strip(fa.X)
			if _, fresh := base.(*ssa.Alloc); fresh {
				return
			}
			if fa2, ok := base.(*ssa.FieldAddr); ok { // field of a fresh composite (Vertex.Transaction of a local)
				if _, fresh := strip(fa2.X).(*ssa.Alloc); fresh {
					return
				}
			}
			r.check(allowedWriters[shortFn(fn)], "vertex-immutable", shortFn(fn)+"/store:"+tn+"."+fieldName(fa.X.Type(), fa.Field), lineOf(w, st),
				"store to a possibly shared vertex/transaction only in its builder", "write through a non-fresh pointer outside the builder")
		})
	}
	if sign := w.Func("accountant", "Vertex", "sign"); sign != nil {
		for _, fn := range w.RepoFuncs("accountant") {
			for _, c := range callsTo(fn, cn("accountant", "*Vertex", "sign")) {
				recv, _ := callArgs(c)
				_, fresh := strip(recv).(*ssa.Alloc)
				r.check(fresh, "vertex-immutable", shortFn(fn)+"/call sign", lineOf(w, c), "sign is applied to a vertex under construction (fresh local)", "sign called on "+pathOf(recv))
			}
		}
	} else {
		r.bad("analyser", "accountant.Vertex.sign", "-", "anchor must resolve", "not found")
	}

	// fork/join inside an operation: goroutines started by one function do not write a variable they share
	r.rule("spawned-goroutines-share-no-written-variable", "a local variable captured by function literals that are started with `go` is written by at most one goroutine instance, or every such write holds a lock (a WaitGroup orders each goroutine with the parent, not the goroutines with one another)", 0)
	nGo := 0
	for _, fn := range w.RepoFuncs("accountant", "gossip", "notaryserver", "cache", "dataprovider") {
		// captured cell -> the go statements whose closure writes it without a lock
		writers := map[*ssa.Alloc][]*ssa.Go{}
		multi := map[*ssa.Go]bool{}
		instrsOf(fn, func(in ssa.Instruction) {
			g, ok := in.(*ssa.Go)
			if !ok {
				return
			}
			mc, ok := g.Call.Value.(*ssa.MakeClosure)
			if !ok {
				return
			}
			cl, ok := mc.Fn.(*ssa.Function)
			if !ok {
				return
			}
			nGo++
			multi[g] = inLoop(g)
			for i, fv := range cl.FreeVars {
				if i >= len(mc.Bindings) {
					continue
				}
				cell, ok := mc.Bindings[i].(*ssa.Alloc)
				if !ok {
					continue
				}
				written := false
				for _, ref := range *fv.Referrers() {
					if st, ok := ref.(*ssa.Store); ok && st.Addr == ssa.Value(fv) {
						if held := li.At(st); held.top || len(held.m) == 0 {
							written = true
						}
					}
				}
				if written {
					writers[cell] = append(writers[cell], g)
				}
			}
		})
		for cell, gs := range writers {
			n := 0
			for _, g := range gs {
				n++
				if multi[g] {
					n++
				}
			}
			r.check(n < 2, "spawned-goroutines-share-no-written-variable", shortFn(fn)+"/"+cell.Comment, lineOf(w, gs[0]), "at most one spawned goroutine writes the captured variable",
				fmt.Sprintf("variable %s is assigned without a lock by goroutines started at %s (%d instances can run at once): unsynchronised write/write", cell.Comment, lineOf(w, gs[0]), n))
		}
	}
	if nGo == 0 {
		r.bad("spawned-goroutines-share-no-written-variable", "go-statements", "-", "go statements with function literals are found", "none")
	} else {
		r.ok("spawned-goroutines-share-no-written-variable", "go-statements", "-", fmt.Sprintf("%d go statements with function literals examined", nGo))
	}
}

// inLoop reports whether the instruction's block is part of a cycle.
func inLoop(in ssa.Instruction) bool {
	b := in.Block()
	return reachable(b.Succs, nil)[b]
}

// loadedValueWritten: is the value loaded from a field (map, slice) mutated through that value?
func loadedValueWritten(u *ssa.UnOp) (bool, string) {
	for _, ref := range *u.Referrers() {
		switch x := ref.(type) {
		case *ssa.MapUpdate:
			if x.Map == ssa.Value(u) {
				return true, "map update"
			}
		case *ssa.IndexAddr:
			for _, rr := range *x.Referrers() {
				if st, ok := rr.(*ssa.Store); ok && st.Addr == ssa.Value(x) {
					return true, "element store"
				}
			}
		case *ssa.Call:
			if b, ok := x.Call.Value.(*ssa.Builtin); ok {
				switch b.Name() {
				case "delete", "clear":
					return true, "builtin " + b.Name()
				case "append":
					if len(x.Call.Args) > 0 && x.Call.Args[0] == ssa.Value(u) {
						return true, "append (may write the shared backing array)"
					}
				}
				continue
			}
			// a map or slice handed to a function that may mutate it (sort, maps.Clear, …)
			switch u.Type().Underlying().(type) {
			case *types.Map, *types.Slice:
				n := calleeName(x)
				if strings.HasPrefix(n, "slices.Sort") || strings.HasPrefix(n, "sort.") || strings.Contains(n, "maps.Clear") || strings.Contains(n, "maps.Copy") {
					return true, "passed to " + n
				}
			}
		}
	}
	return false, "load"
}

// pooledMemoryLeaks: a value taken from a sync.Pool and put back by the same function must not be handed out of it — not
// itself, and not memory it owns (buf.Bytes(), a reslice). After Put the next Get, on any goroutine, gets the same object
// and writes into the bytes the first caller is still reading.
func pooledMemoryLeaks(w *World, fn *ssa.Function) []string {
	var pooled []ssa.Value
	isPoolCall := func(c ssa.CallInstruction, name string) bool {
		cal := c.Common().StaticCallee()
		return cal != nil && cal.Pkg != nil && cal.Pkg.Pkg.Path() == "sync" && cal.Name() == name && cal.Signature.Recv() != nil && strings.HasSuffix(cal.Signature.Recv().Type().String(), "sync.Pool")
	}
	var puts []ssa.Value
	instrsOf(fn, func(in ssa.Instruction) {
		c, ok := in.(ssa.CallInstruction)
		if !ok {
			return
		}
		if isPoolCall(c, "Get") {
			if cv, isVal := c.(ssa.Value); isVal && cv.Referrers() != nil {
				for _, ref := range *cv.Referrers() {
					if ta, isTA := ref.(*ssa.TypeAssert); isTA {
						if ta.CommaOk {
							for _, r2 := range *ta.Referrers() {
								if ex, isEx := r2.(*ssa.Extract); isEx && ex.Index == 0 {
									pooled = append(pooled, ex)
								}
							}
						} else {
							pooled = append(pooled, ta)
						}
					}
				}
				pooled = append(pooled, cv)
			}
		}
		if isPoolCall(c, "Put") && len(c.Common().Args) >= 2 {
			puts = append(puts, c.Common().Args[1])
		}
	})
	if len(pooled) == 0 || len(puts) == 0 {
		return nil
	}
	isPooled := func(v ssa.Value) bool {
		for _, p := range pooled {
			if v == p {
				return true
			}
		}
		return false
	}
	putBack := false
	for _, p := range puts {
		x := p
		if mi, ok := x.(*ssa.MakeInterface); ok {
			x = mi.X
		}
		if isPooled(x) {
			putBack = true
		}
	}
	if !putBack {
		return nil
	}
	refLike := func(t types.Type) bool {
		switch t.Underlying().(type) {
		case *types.Slice, *types.Pointer, *types.Map, *types.Interface:
			return true
		}
		return false
	}
	seen := map[ssa.Value]bool{}
	var owned func(v ssa.Value) bool
	owned = func(v ssa.Value) bool {
		if v == nil || seen[v] {
			return false
		}
		seen[v] = true
		if isPooled(v) {
			return true
		}
		switch x := v.(type) {
		case *ssa.Slice:
			return owned(x.X)
		case *ssa.ChangeType:
			return owned(x.X)
		case *ssa.MakeInterface:
			return owned(x.X)
		case *ssa.Phi:
			for _, e := range x.Edges {
				if owned(e) {
					return true
				}
			}
		case *ssa.Call:
			if refLike(x.Type()) && len(x.Call.Args) > 0 && !x.Call.IsInvoke() && owned(x.Call.Args[0]) {
				return true
			}
			// the Append… family (binary.LittleEndian.AppendUint64, strconv.AppendInt, …) extends the slice it is handed
			if cal := x.Call.StaticCallee(); cal != nil && strings.HasPrefix(cal.Name(), "Append") && refLike(x.Type()) {
				for _, a := range x.Call.Args {
					if _, isSlice := a.Type().Underlying().(*types.Slice); isSlice && owned(a) {
						return true
					}
				}
			}
		case *ssa.FieldAddr:
			return owned(x.X)
		case *ssa.IndexAddr:
			return owned(x.X)
		case *ssa.UnOp:
			if x.Op == token.MUL {
				if al, ok := x.X.(*ssa.Alloc); ok {
					_ = al
					for _, sv := range reachingStores(x).vals {
						if owned(sv) {
							return true
						}
					}
					return false
				}
				if refLike(x.Type()) {
					return owned(x.X)
				}
			}
		}
		return false
	}
	var out []string
	for _, ret := range returnsOf(fn) {
		for _, res := range ret.Results {
			if refLike(res.Type()) && owned(res) {
				out = append(out, fmt.Sprintf("%s returns at %s memory owned by an object it has put back into a sync.Pool: the next Get, on any goroutine, hands the same object out and its writes land in the bytes the caller is still reading", shortFn(fn), lineOf(w, ret)))
			}
		}
	}
	return out
}

// writesThroughReceiver: does the library method fn (or a function it hands such memory to) store into memory reachable
// from its receiver, without taking a lock of its own? Such a method is a writer even when its name says Get (an LRU
// moves the entry to the front of its list on every hit).
func writesThroughReceiver(fn *ssa.Function, depth int, seen map[*ssa.Function]bool) (writes bool, locks bool) {
	return writesThroughParams(fn, map[int]bool{0: true}, depth, map[string]bool{})
}

// writesThroughParams: the same with an explicit set of parameters whose memory belongs to the shared object.
func writesThroughParams(fn *ssa.Function, ownedParams map[int]bool, depth int, seen map[string]bool) (writes bool, locks bool) {
	if fn == nil || len(fn.Blocks) == 0 || depth > 4 {
		return false, false
	}
	key := fn.String()
	for k := range fn.Params {
		if ownedParams[k] {
			key += fmt.Sprintf("/%d", k)
		}
	}
	if seen[key] {
		return false, false
	}
	seen[key] = true
	owned := map[ssa.Value]bool{}
	for k, p := range fn.Params {
		if ownedParams[k] {
			owned[p] = true
		}
	}
	refLike := func(t types.Type) bool {
		switch t.Underlying().(type) {
		case *types.Pointer, *types.Map, *types.Slice, *types.Interface:
			return true
		}
		return false
	}
	for changed := true; changed; {
		changed = false
		instrsOf(fn, func(in ssa.Instruction) {
			v, ok := in.(ssa.Value)
			if !ok || owned[v] {
				return
			}
			mark := false
			switch x := in.(type) {
			case *ssa.FieldAddr:
				mark = owned[x.X]
			case *ssa.IndexAddr:
				mark = owned[x.X]
			case *ssa.UnOp:
				mark = x.Op == token.MUL && owned[x.X] && refLike(x.Type())
			case *ssa.Phi:
				for _, e := range x.Edges {
					if owned[e] {
						mark = true
					}
				}
			case *ssa.Field:
				mark = owned[x.X] && refLike(x.Type())
			case *ssa.Lookup:
				mark = owned[x.X]
			case *ssa.Extract:
				mark = owned[x.Tuple] && refLike(x.Type())
			case *ssa.TypeAssert:
				mark = owned[x.X]
			case *ssa.ChangeType:
				mark = owned[x.X]
			}
			if mark {
				owned[v] = true
				changed = true
			}
		})
	}
	isParam := func(v ssa.Value) bool { _, ok := v.(*ssa.Parameter); return ok }
	instrsOf(fn, func(in ssa.Instruction) {
		switch x := in.(type) {
		case *ssa.Store:
			if owned[x.Addr] && !isParam(x.Addr) {
				writes = true
			}
		case *ssa.MapUpdate:
			if owned[x.Map] {
				writes = true
			}
		case ssa.CallInstruction:
			n := calleeName(x)
			if strings.HasPrefix(n, "(*sync.Mutex).") || strings.HasPrefix(n, "(*sync.RWMutex).") || strings.HasPrefix(n, "sync/atomic.") || strings.HasPrefix(n, "(*sync/atomic.") {
				locks = true
				return
			}
			if b, ok := x.Common().Value.(*ssa.Builtin); ok {
				if b.Name() == "delete" && len(x.Common().Args) > 0 && owned[x.Common().Args[0]] {
					writes = true
				}
				return
			}
			if cal := x.Common().StaticCallee(); cal != nil {
				sub := map[int]bool{}
				for k, a := range x.Common().Args {
					if owned[a] {
						sub[k] = true
					}
				}
				if len(sub) > 0 {
					w2, l2 := writesThroughParams(cal, sub, depth+1, seen)
					if w2 && !l2 {
						writes = true
					}
					if l2 {
						locks = true
					}
				}
			}
		}
	})
	return writes, locks
}
