package main

// Loading of /repo's current working tree into type-checked syntax and SSA form.
// Nothing of the repository is executed; go/packages drives `go list` only to resolve files.

import (
	"fmt"
	"go/token"
	"go/types"
	"os"
	"path/filepath"
	"sort"
	"strings"

	"golang.org/x/tools/go/callgraph"
	"golang.org/x/tools/go/callgraph/cha"
	"golang.org/x/tools/go/callgraph/vta"
	"golang.org/x/tools/go/packages"
	"golang.org/x/tools/go/ssa"
	"golang.org/x/tools/go/ssa/ssautil"
)

const modPath = "github.com/bartossh/Computantis/src"

// World is the resolved program all rules work on.
type World struct {
	RepoDir  string // module directory (/repo/src)
	Fset     *token.FileSet
	Pkgs     []*packages.Package // root packages (repo packages matched by the patterns)
	ByPath   map[string]*packages.Package
	Prog     *ssa.Program
	SSA      map[string]*ssa.Package
	NPkgsAll int // including dependencies
	cg       *callgraph.Graph
	allFns   map[*ssa.Function]bool
}

func repoDir() string {
	if d := os.Getenv("VERIF_REPO"); d != "" {
		return filepath.Join(d, "src")
	}
	return "/repo/src"
}

// Load loads the given patterns (relative to the module dir) with full syntax for all dependencies.
func Load(patterns ...string) (*World, error) {
	dir := repoDir()
	env := append(os.Environ(), "GOFLAGS=-mod=mod", "GOPROXY=off", "GOSUMDB=off", "GOTOOLCHAIN=local", "GOWORK=off")
	cfg := &packages.Config{
		Mode:  packages.LoadAllSyntax,
		Dir:   dir,
		Env:   env,
		Tests: false,
	}
	pkgs, err := packages.Load(cfg, patterns...)
	if err != nil {
		return nil, fmt.Errorf("packages.Load: %w", err)
	}
	if len(pkgs) == 0 {
		return nil, fmt.Errorf("no packages matched %v in %s", patterns, dir)
	}
	var errs []string
	n := 0
	byPath := map[string]*packages.Package{}
	packages.Visit(pkgs, nil, func(p *packages.Package) {
		n++
		byPath[p.PkgPath] = p
		for _, e := range p.Errors {
			errs = append(errs, fmt.Sprintf("%s: %s", p.PkgPath, e))
		}
	})
	if len(errs) > 0 {
		sort.Strings(errs)
		if len(errs) > 10 {
			errs = errs[:10]
		}
		return nil, fmt.Errorf("type/load errors (%d): %s", len(errs), strings.Join(errs, "; "))
	}
	prog, _ := ssautil.AllPackages(pkgs, ssa.InstantiateGenerics)
	prog.Build()
	w := &World{RepoDir: dir, Fset: pkgs[0].Fset, Pkgs: pkgs, ByPath: byPath, Prog: prog, SSA: map[string]*ssa.Package{}, NPkgsAll: n}
	for _, p := range prog.AllPackages() {
		w.SSA[p.Pkg.Path()] = p
	}
	curWorld = w
	curAliases = nil
	if os.Getenv("VCHECK_NO_ALIAS") == "" {
		curAliases = buildAliases(w)
	}
	return w, nil
}

// curWorld: the program under analysis (for helpers that have no World parameter).
var curWorld *World

// Pkg returns the SSA package of a repo-relative package ("accountant") or an absolute import path.
func (w *World) Pkg(rel string) *ssa.Package {
	if p, ok := w.SSA[modPath+"/"+rel]; ok {
		return p
	}
	if p, ok := w.SSA[rel]; ok {
		return p
	}
	return nil
}

// Func resolves a package-level function ("accountant", "", "pourFunds") or a method
// ("accountant", "AccountingBook", "CreateLeaf"); methods are looked up on both T and *T.
func (w *World) Func(pkg, recv, name string) *ssa.Function {
	p := w.Pkg(pkg)
	if p == nil {
		return nil
	}
	// rule tables use reference names: translate to the names of the current tree
	name = curAliases.curFuncName(pkg, recv, name)
	recv = curAliases.curTypeName(pkg, recv)
	if recv == "" {
		return p.Func(name)
	}
	obj := p.Pkg.Scope().Lookup(recv)
	if obj == nil {
		return nil
	}
	tn, ok := obj.(*types.TypeName)
	if !ok {
		return nil
	}
	for _, t := range []types.Type{tn.Type(), types.NewPointer(tn.Type())} {
		ms := w.Prog.MethodSets.MethodSet(t)
		for i := 0; i < ms.Len(); i++ {
			sel := ms.At(i)
			if sel.Obj().Name() == name && len(sel.Index()) == 1 { // declared on T itself, not promoted
				if f := w.Prog.MethodValue(sel); f != nil {
					// skip synthetic wrappers (*T wrapper for T method): unwrap to declared method
					if f.Synthetic != "" {
						if fo, ok := sel.Obj().(*types.Func); ok {
							if df := w.Prog.FuncValue(fo); df != nil {
								return df
							}
						}
					}
					return f
				}
			}
		}
	}
	return nil
}

// WithAnon returns fn and all functions literally nested in it.
func WithAnon(fn *ssa.Function) []*ssa.Function {
	out := []*ssa.Function{fn}
	for _, a := range fn.AnonFuncs {
		out = append(out, WithAnon(a)...)
	}
	return out
}

// RepoFuncs returns all source functions (incl. closures) of repo packages, sorted by position.
func (w *World) RepoFuncs(pkgs ...string) []*ssa.Function {
	want := map[string]bool{}
	for _, p := range pkgs {
		want[modPath+"/"+p] = true
	}
	var out []*ssa.Function
	for fn := range w.AllFuncs() {
		if fn.Pkg == nil || fn.Synthetic != "" && fn.Parent() == nil {
			continue
		}
		pp := fn.Pkg.Pkg.Path()
		if len(pkgs) == 0 {
			if !strings.HasPrefix(pp, modPath) {
				continue
			}
		} else if !want[pp] {
			continue
		}
		if fn.Blocks == nil {
			continue
		}
		out = append(out, fn)
	}
	sort.Slice(out, func(i, j int) bool {
		if out[i].Pos() != out[j].Pos() {
			return out[i].Pos() < out[j].Pos()
		}
		return out[i].String() < out[j].String()
	})
	return out
}

func (w *World) AllFuncs() map[*ssa.Function]bool {
	if w.allFns == nil {
		w.allFns = ssautil.AllFunctions(w.Prog)
	}
	return w.allFns
}

// CallGraph returns the VTA-refined call graph (CHA as the initial graph).
func (w *World) CallGraph() *callgraph.Graph {
	if w.cg == nil {
		w.cg = vta.CallGraph(w.AllFuncs(), cha.CallGraph(w.Prog))
	}
	return w.cg
}

// Pos renders a position relative to the repository root (or module cache for dependencies).
func (w *World) Pos(p token.Pos) string {
	if !p.IsValid() {
		return "-"
	}
	pos := w.Fset.Position(p)
	f := pos.Filename
	root := filepath.Dir(w.RepoDir)
	if rel, err := filepath.Rel(root, f); err == nil && !strings.HasPrefix(rel, "..") {
		f = rel
	} else if i := strings.Index(f, "/pkg/mod/"); i >= 0 {
		f = f[i+len("/pkg/mod/"):]
	}
	return fmt.Sprintf("%s:%d", f, pos.Line)
}

func isRepoFunc(fn *ssa.Function) bool {
	return fn != nil && fn.Pkg != nil && strings.HasPrefix(fn.Pkg.Pkg.Path(), modPath)
}

// shortFn gives "accountant.(*AccountingBook).CreateLeaf" / "accountant.pourFunds" / "…CreateLeaf$1".
func shortFn(fn *ssa.Function) string {
	if fn == nil {
		return "<nil>"
	}
	s := fn.String()
	if curAliases != nil && (len(curAliases.funcRev) > 0 || len(curAliases.typeRev) > 0) {
		root, suffix := fn, ""
		for root.Parent() != nil {
			root = root.Parent()
		}
		if root != fn {
			suffix = strings.TrimPrefix(fn.String(), root.String())
		}
		if f, ok := root.Object().(*types.Func); ok {
			s = refFuncFullName(f) + suffix
		}
	}
	s = strings.ReplaceAll(s, modPath+"/", "")
	s = strings.ReplaceAll(s, "github.com/heimdalr/", "")
	s = strings.ReplaceAll(s, "github.com/dgraph-io/badger/v4", "badger")
	s = strings.ReplaceAll(s, "github.com/allegro/", "")
	return s
}
