package main

// Must-facts on access paths: len(p) >= k and p != nil, established by branch edges and by the
// success edges of calls to validators (callee ensures-summaries), pushed to callers when the
// path is rooted at a parameter of an internal helper (requires) or at a captured variable.

import (
	"fmt"
	"go/constant"
	"go/token"
	"go/types"
	"strings"

	"golang.org/x/tools/go/ssa"
)

type factK int

const (
	kLenMin factK = iota
	kNotNil
	kLenMax0 // len(path) == 0
	kLenEq   // len(path) == min
)

type pfact struct {
	kind factK
	path string
	min  int64
}

// lenExpr recognises `len(v)` and `len(v) ± c`; returns the path of v and the offset.
func lenExpr(v ssa.Value) (path string, off int64, ok bool) {
	switch x := v.(type) {
	case *ssa.Call:
		if b, isB := x.Call.Value.(*ssa.Builtin); isB && b.Name() == "len" && len(x.Call.Args) == 1 {
			return pathOf(x.Call.Args[0]), 0, true
		}
	case *ssa.BinOp:
		if x.Op == token.SUB || x.Op == token.ADD {
			if p, o, ok := lenExpr(x.X); ok {
				if c, isC := intConst(x.Y); isC {
					if x.Op == token.SUB {
						return p, o - c, true
					}
					return p, o + c, true
				}
			}
		}
	case *ssa.Convert:
		return lenExpr(x.X)
	}
	return "", 0, false
}

func intConst(v ssa.Value) (int64, bool) {
	c, ok := v.(*ssa.Const)
	if !ok || c.Value == nil || c.Value.Kind() != constant.Int {
		return 0, false
	}
	i, exact := constant.Int64Val(c.Value)
	return i, exact
}

// lenFactsOf returns the length facts implied by cond == truth.
func lenFactsOf(cond ssa.Value, truth bool) []pfact {
	switch c := cond.(type) {
	case *ssa.UnOp:
		if c.Op == token.NOT {
			return lenFactsOf(c.X, !truth)
		}
	case *ssa.BinOp:
		op := c.Op
		l, r := c.X, c.Y
		if op == token.EQL || op == token.NEQ { // (cond) == true / != false … produced by `switch cond {case true:}`
			if bv, isB := boolConst(r); isB {
				return lenFactsOf(l, (bv == (op == token.EQL)) == truth)
			}
			if bv, isB := boolConst(l); isB {
				return lenFactsOf(r, (bv == (op == token.EQL)) == truth)
			}
		}
		p, off, ok := lenExpr(l)
		k, kok := intConst(r)
		if !ok || !kok {
			// mirrored: const OP len
			p, off, ok = lenExpr(r)
			k, kok = intConst(l)
			if !ok || !kok {
				return nil
			}
			switch op {
			case token.LSS:
				op = token.GTR
			case token.GTR:
				op = token.LSS
			case token.LEQ:
				op = token.GEQ
			case token.GEQ:
				op = token.LEQ
			}
		}
		// len(p) + off OP k
		base := k - off
		switch {
		case base == 0 && (op == token.NEQ && truth || op == token.EQL && !truth):
			return []pfact{{kind: kLenMin, path: p, min: 1}} // len(x) != 0
		case base == 0 && (op == token.EQL && truth || op == token.NEQ && !truth):
			return []pfact{{kind: kLenMax0, path: p}} // len(x) == 0
		case base == 1 && (op == token.LSS && truth || op == token.GEQ && !truth), base == 0 && (op == token.LEQ && truth || op == token.GTR && !truth):
			return []pfact{{kind: kLenMax0, path: p}} // len(x) < 1, len(x) <= 0, !(len(x) >= 1), !(len(x) > 0)
		case op == token.EQL && truth, op == token.NEQ && !truth:
			return []pfact{{kind: kLenMin, path: p, min: base}, {kind: kLenEq, path: p, min: base}}
		case op == token.LSS && !truth, op == token.GEQ && truth:
			return []pfact{{kind: kLenMin, path: p, min: base}}
		case op == token.GTR && truth, op == token.LEQ && !truth:
			return []pfact{{kind: kLenMin, path: p, min: base + 1}}
		}
	}
	return nil
}

// pfactsOnEdge returns all path facts (length and non-nil) that hold on e.
func pfactsOnEdge(e Edge) []pfact {
	b := e.From
	if len(b.Instrs) == 0 {
		return nil
	}
	iff, ok := b.Instrs[len(b.Instrs)-1].(*ssa.If)
	if !ok {
		return nil
	}
	truth := e.Idx == 0
	out := lenFactsOf(iff.Cond, truth)
	for _, f := range condFacts(iff.Cond, truth) {
		if f.kind == fNotNil {
			out = append(out, pfact{kind: kNotNil, path: pathOf(f.x)})
		}
	}
	return out
}

func (f pfact) implies(want pfact) bool {
	if f.kind != want.kind || f.path != want.path {
		return false
	}
	if f.kind == kLenMin {
		return f.min >= want.min
	}
	if f.kind == kLenEq {
		return f.min == want.min
	}
	return true
}

type relFact struct {
	param int
	rel   string // "" or ".Field.Chain"
	kind  factK
	min   int64
}

type FactEngine struct {
	w        *World
	resCache map[*ssa.Function][]relFact
	ensCache map[*ssa.Function][]relFact
	ensFalse map[*ssa.Function][]relFact
	busy     map[*ssa.Function]bool
	callers  map[*ssa.Function][]ssa.CallInstruction // static call sites in scope
	inScope  func(*ssa.Function) bool
	anyPkg   bool // canary self-test: functions outside the repository module are summarised too
}

func NewFactEngine(w *World, fns []*ssa.Function) *FactEngine {
	fe := &FactEngine{w: w, resCache: map[*ssa.Function][]relFact{}, ensCache: map[*ssa.Function][]relFact{}, ensFalse: map[*ssa.Function][]relFact{}, busy: map[*ssa.Function]bool{}, callers: map[*ssa.Function][]ssa.CallInstruction{}}
	set := map[*ssa.Function]bool{}
	for _, f := range fns {
		set[f] = true
	}
	fe.inScope = func(f *ssa.Function) bool { return set[f] }
	for _, f := range fns {
		instrsOf(f, func(in ssa.Instruction) {
			if c, ok := in.(ssa.CallInstruction); ok {
				if cal := c.Common().StaticCallee(); cal != nil && isRepoFunc(cal) {
					fe.callers[cal] = append(fe.callers[cal], c)
				}
			}
		})
	}
	return fe
}

// successReturn: may this return be a "pass" of a validator (nil error / true)?
func successReturn(r *ssa.Return) bool {
	fn := r.Parent()
	if i := errIndex(fn); i >= 0 {
		vals, zero := resultVals(r, i)
		if zero {
			return true
		}
		for _, v := range vals {
			if k, _ := classifyErr(v, r.Block()); k != nNonNil {
				return true
			}
		}
		return false
	}
	res := fn.Signature.Results()
	if res.Len() == 1 {
		if b, ok := res.At(0).Type().Underlying().(*types.Basic); ok && b.Kind() == types.Bool {
			vals, _ := resultVals(r, 0)
			for _, v := range vals {
				if bv, isC := boolConst(v); !isC || bv {
					return true
				}
			}
			return false
		}
	}
	return true
}

func isValidatorSig(fn *ssa.Function) bool {
	if errIndex(fn) >= 0 {
		return true
	}
	res := fn.Signature.Results()
	if res.Len() == 1 {
		if b, ok := res.At(0).Type().Underlying().(*types.Basic); ok && b.Kind() == types.Bool {
			return true
		}
	}
	return false
}

// ensures computes the facts on parameter-rooted paths that hold at every success return of fn.
func (fe *FactEngine) ensures(fn *ssa.Function) []relFact { return fe.ensuresT(fn, true) }

// ensuresT: facts that hold whenever fn reports `truth` (for error-returning functions truth = success;
// for bool functions also the facts implied by a FALSE result, e.g. `if isIncomplete(p) { return err }`).
func (fe *FactEngine) ensuresT(fn *ssa.Function, truth bool) []relFact {
	if fn == nil || len(fn.Blocks) == 0 || (!isRepoFunc(fn) && !fe.anyPkg) || !isValidatorSig(fn) {
		return nil
	}
	if !truth {
		if errIndex(fn) >= 0 {
			return nil
		}
		if r, ok := fe.ensFalse[fn]; ok {
			return r
		}
	} else if r, ok := fe.ensCache[fn]; ok {
		return r
	}
	if fe.busy[fn] {
		return nil
	}
	fe.busy[fn] = true
	defer func() { fe.busy[fn] = false }()
	// candidate facts: everything established on some edge or call inside fn, rooted at a parameter
	cands := map[pfact]bool{}
	for _, b := range fn.Blocks {
		for i := range b.Succs {
			for _, f := range fe.factsOnEdgeDeep(fn, Edge{b, i}) {
				cands[f] = true
			}
		}
	}
	var out []relFact
	var rets []*ssa.Return
	for _, r := range returnsOf(fn) {
		if truth && successReturn(r) {
			rets = append(rets, r)
		}
		if !truth && mayReturnBool(r, false) {
			rets = append(rets, r)
		}
	}
	if len(rets) == 0 {
		if truth {
			fe.ensCache[fn] = nil
		} else {
			fe.ensFalse[fn] = nil
		}
		return nil
	}
	// bool validators written as an expression (`return in != nil && len(in.Hash) == 32`): what the
	// returned value being true implies, per return
	implied := map[*ssa.Return][]pfact{}
	if errIndex(fn) < 0 {
		for _, r := range rets {
			implied[r] = fe.boolResultFacts(fn, r, truth)
			for _, f := range implied[r] {
				cands[f] = true
			}
		}
	}
	// error validators that end in `return g(x)`: a nil result of g is the only way this return succeeds,
	// so g's ensures (mapped to the actual arguments) hold on it
	if ei := errIndex(fn); ei >= 0 {
		for _, r := range rets {
			vals, zero := resultVals(r, ei)
			if zero || len(vals) != 1 {
				continue
			}
			var call *ssa.Call
			switch x := vals[0].(type) {
			case *ssa.Call:
				if isErrorType(x.Type()) {
					call = x
				}
			case *ssa.Extract:
				if c, ok := x.Tuple.(*ssa.Call); ok && isErrorType(x.Type()) {
					call = c
				}
			}
			if call == nil {
				continue
			}
			cal := call.Call.StaticCallee()
			if cal == nil || cal == fn {
				continue
			}
			for _, rf := range fe.ensures(cal) {
				if rf.param < len(call.Call.Args) {
					f := pfact{kind: rf.kind, path: pathOf(call.Call.Args[rf.param]) + rf.rel, min: rf.min}
					implied[r] = append(implied[r], f)
					cands[f] = true
				}
			}
		}
	}
	for f := range cands {
		pi, rel, ok := splitParam(fn, f.path)
		if !ok {
			continue
		}
		all := true
		for _, r := range rets {
			if fe.holdsAtBlock(fn, r.Block(), f) {
				continue
			}
			viaValue := false
			for _, g := range implied[r] {
				if g.implies(f) {
					viaValue = true
				}
			}
			if !viaValue {
				all = false
				break
			}
		}
		if all {
			out = append(out, relFact{param: pi, rel: rel, kind: f.kind, min: f.min})
		}
	}
	if truth {
		fe.ensCache[fn] = out
	} else {
		fe.ensFalse[fn] = out
	}
	return out
}

// mayReturnBool: can the bool returned at r be `want`?
func mayReturnBool(r *ssa.Return, want bool) bool {
	if len(r.Results) != 1 {
		return false
	}
	vals, _ := resultVals(r, 0)
	for _, v := range vals {
		if bv, isC := boolConst(v); !isC || bv == want {
			return true
		}
	}
	return false
}

func splitParam(fn *ssa.Function, path string) (int, string, bool) {
	for i, p := range fn.Params {
		n := p.Name()
		if path == n {
			return i, "", true
		}
		if strings.HasPrefix(path, n+".") {
			return i, path[len(n):], true
		}
	}
	return 0, "", false
}

// factsOnEdgeDeep: facts of the branch condition plus, when the condition tests the result of a
// validator call, the validator's ensures mapped to the actual arguments.
func (fe *FactEngine) factsOnEdgeDeep(fn *ssa.Function, e Edge) []pfact {
	out := pfactsOnEdge(e)
	b := e.From
	if len(b.Instrs) == 0 {
		return out
	}
	iff, ok := b.Instrs[len(b.Instrs)-1].(*ssa.If)
	if !ok {
		return out
	}
	for _, f := range condFacts(iff.Cond, e.Idx == 0) {
		var call *ssa.Call
		switch f.kind {
		case fIsNil: // err == nil
			v := strip(f.x)
			if c, ok := v.(*ssa.Call); ok && isErrorType(c.Type()) {
				call = c
			} else if ex, ok := v.(*ssa.Extract); ok {
				if c, ok := ex.Tuple.(*ssa.Call); ok && isErrorType(ex.Type()) {
					call = c
				}
			}
		case fTrue:
			if c, ok := strip(f.x).(*ssa.Call); ok {
				call = c
			}
		case fFalse:
			if c, ok := strip(f.x).(*ssa.Call); ok {
				if cal := c.Call.StaticCallee(); cal != nil {
					for _, rf := range fe.ensuresT(cal, false) {
						if rf.param < len(c.Call.Args) {
							out = append(out, pfact{kind: rf.kind, path: pathOf(c.Call.Args[rf.param]) + rf.rel, min: rf.min})
						}
					}
				}
			}
		}
		if call == nil {
			continue
		}
		cal := call.Call.StaticCallee()
		if cal == nil {
			continue
		}
		for _, rf := range fe.ensures(cal) {
			if rf.param >= len(call.Call.Args) {
				continue
			}
			out = append(out, pfact{kind: rf.kind, path: pathOf(call.Call.Args[rf.param]) + rf.rel, min: rf.min})
		}
		if f.kind == fIsNil {
			for _, rf := range fe.resultEnsures(cal) {
				if rv := resultAt(call, rf.param); rv != nil {
					out = append(out, pfact{kind: rf.kind, path: pathOf(rv), min: rf.min})
				}
			}
		}
	}
	return out
}

func (fe *FactEngine) edgesFor(fn *ssa.Function, want pfact) []Edge {
	var out []Edge
	for _, b := range fn.Blocks {
		for i := range b.Succs {
			e := Edge{b, i}
			for _, f := range fe.factsOnEdgeDeep(fn, e) {
				if f.implies(want) {
					out = append(out, e)
					break
				}
			}
		}
	}
	return out
}

func (fe *FactEngine) holdsAtBlock(fn *ssa.Function, b *ssa.BasicBlock, want pfact) bool {
	es := fe.edgesFor(fn, want)
	return len(es) > 0 && mustCross(fn, b, es)
}

// storesToPath reports stores in fn (not closures) whose address path is a prefix of path.
func storesToPath(fn *ssa.Function, path string) int {
	n := 0
	instrsOf(fn, func(in ssa.Instruction) {
		if st, ok := in.(*ssa.Store); ok {
			if _, isAlloc := st.Addr.(*ssa.Alloc); isAlloc {
				return
			}
			ap := pathOf(st.Addr)
			if ap == path || strings.HasPrefix(path, ap+".") {
				n++
			}
		}
	})
	return n
}

// Holds decides whether fact want holds whenever instruction at executes: locally, or — when the
// path is rooted at a parameter of an internal function or at a captured variable — at every call
// site / closure creation site (depth-limited).
func (fe *FactEngine) Holds(at ssa.Instruction, want pfact, depth int) (bool, string) {
	fn := at.Parent()
	if fe.holdsAtBlock(fn, at.Block(), want) {
		if storesToPath(fn, want.path) > 0 {
			return false, "path " + want.path + " is stored to in " + shortFn(fn) + ": fact may be stale (undecided)"
		}
		return true, ""
	}
	if depth >= 6 {
		return false, "no dominating fact (depth limit)"
	}
	// field of a locally built composite literal: the (single) store decides
	if want.kind == kNotNil {
		var stores []*ssa.Store
		instrsOf(fn, func(in ssa.Instruction) {
			if st, ok := in.(*ssa.Store); ok {
				if fa, ok := st.Addr.(*ssa.FieldAddr); ok {
					if _, isAlloc := fa.X.(*ssa.Alloc); isAlloc && pathOf(st.Addr) == want.path {
						stores = append(stores, st)
					}
				}
			}
		})
		if len(stores) == 1 {
			if fe.valueNonNil(stores[0].Val, stores[0], depth+1) {
				return true, ""
			}
		}
	}
	// captured variable of a closure: establish at the creation site in the parent
	if par := fn.Parent(); par != nil {
		for _, fv := range fn.FreeVars {
			n := fv.Name()
			if want.path == n || strings.HasPrefix(want.path, n+".") {
				var sites []ssa.Instruction
				instrsOf(par, func(in ssa.Instruction) {
					if mc, ok := in.(*ssa.MakeClosure); ok && mc.Fn == ssa.Value(fn) {
						sites = append(sites, mc)
					}
				})
				if len(sites) == 0 {
					return false, "closure creation site not found"
				}
				for _, s := range sites {
					if ok, why := fe.Holds(s, want, depth+1); !ok {
						return false, "at closure creation " + lineOf(fe.w, s) + ": " + why
					}
				}
				return true, ""
			}
		}
	}
	// parameter of an internal helper: every in-scope call site must establish it
	if pi, rel, ok := splitParam(fn, want.path); ok && fn.Object() != nil && !fn.Object().Exported() {
		sites := fe.callers[fn]
		if len(sites) == 0 {
			return false, "no dominating fact and no call sites in scope"
		}
		for _, cs := range sites {
			args := cs.Common().Args
			if pi >= len(args) {
				return false, "call site arity"
			}
			w2 := pfact{kind: want.kind, path: pathOf(args[pi]) + rel, min: want.min}
			if ok, why := fe.Holds(cs, w2, depth+1); !ok {
				return false, "caller " + shortFn(cs.Parent()) + " at " + lineOf(fe.w, cs) + ": " + why
			}
		}
		return true, ""
	}
	return false, "no dominating length/nil test on " + want.path
}

// valueNonNil: v is provably non-nil at instruction at.
func (fe *FactEngine) valueNonNil(v ssa.Value, at ssa.Instruction, depth int) bool {
	if nonNilValue(v) {
		return true
	}
	if c, ok := strip(v).(*ssa.Call); ok {
		if cal := c.Call.StaticCallee(); cal != nil && alwaysReturnsNonNil(cal, 0) {
			return true
		}
	}
	ok, _ := fe.Holds(at, pfact{kind: kNotNil, path: pathOf(v)}, depth)
	return ok
}

// alwaysReturnsNonNil: result #i of every return of fn is a fresh allocation.
func alwaysReturnsNonNil(fn *ssa.Function, i int) bool {
	if len(fn.Blocks) == 0 || !isRepoFunc(fn) {
		return false
	}
	rets := returnsOf(fn)
	if len(rets) == 0 {
		return false
	}
	for _, r := range rets {
		vals, zero := resultVals(r, i)
		if zero || len(vals) == 0 {
			return false
		}
		for _, v := range vals {
			if !nonNilValue(v) {
				return false
			}
		}
	}
	return true
}

// resultEnsures: facts about result #i (relFact.param = result index) that hold at every success
// return of an error-returning repo function, e.g. "the returned key has length 32".
func (fe *FactEngine) resultEnsures(fn *ssa.Function) []relFact {
	if fn == nil || len(fn.Blocks) == 0 || (!isRepoFunc(fn) && !fe.anyPkg) || errIndex(fn) < 1 {
		return nil
	}
	if r, ok := fe.resCache[fn]; ok {
		return r
	}
	if fe.busy[fn] {
		return nil
	}
	fe.busy[fn] = true
	defer func() { fe.busy[fn] = false }()
	var out []relFact
	first := true
	for _, ret := range returnsOf(fn) {
		if !successReturn(ret) {
			continue
		}
		var here []relFact
		for i := 0; i < errIndex(fn); i++ {
			p := pathOf(ret.Results[i])
			if n, ok := fe.lenOfValue(ret, ret.Results[i], 0); ok {
				here = append(here, relFact{param: i, kind: kLenEq, min: n}, relFact{param: i, kind: kLenMin, min: n})
			}
			for _, b := range fn.Blocks {
				for k := range b.Succs {
					for _, f := range fe.factsOnEdgeDeep(fn, Edge{b, k}) {
						if f.path == p && fe.holdsAtBlock(fn, ret.Block(), f) {
							here = append(here, relFact{param: i, kind: f.kind, min: f.min})
						}
					}
				}
			}
		}
		if first {
			out, first = here, false
			continue
		}
		var keep []relFact
		for _, a := range out {
			for _, b := range here {
				if a == b {
					keep = append(keep, a)
					break
				}
			}
		}
		out = keep
	}
	fe.resCache[fn] = out
	return out
}

// condPFacts: path facts implied by value cond being true/false (not necessarily a branch condition).
func condPFacts(cond ssa.Value, truth bool) []pfact {
	out := lenFactsOf(cond, truth)
	for _, f := range condFacts(cond, truth) {
		if f.kind == fNotNil {
			out = append(out, pfact{kind: kNotNil, path: pathOf(f.x)})
		}
	}
	return out
}

// boolResultFacts: facts implied by "the bool returned at r is true". The value is expanded through
// φ-nodes (short-circuit && / ||): an incoming constant false cannot be the true result; every other
// entry contributes its own condition and the facts that hold when its edge is taken; the result is
// the intersection over the entries.
func (fe *FactEngine) boolResultFacts(fn *ssa.Function, r *ssa.Return, truth bool) []pfact {
	if len(r.Results) != 1 {
		return nil
	}
	var acc []pfact
	first := true
	for _, pe := range phiEntries(r.Results[0]) {
		if bv, isC := boolConst(pe.val); isC && bv != truth {
			continue
		}
		var here []pfact
		if _, isC := boolConst(pe.val); !isC {
			here = append(here, condPFacts(pe.val, truth)...)
		}
		if pe.edge != nil {
			// facts on the edge itself and facts that must hold at its source block
			here = append(here, fe.factsOnEdgeDeep(fn, *pe.edge)...)
			for _, b := range fn.Blocks {
				for i := range b.Succs {
					for _, f := range fe.factsOnEdgeDeep(fn, Edge{b, i}) {
						if fe.holdsAtBlock(fn, pe.edge.From, f) {
							here = append(here, f)
						}
					}
				}
			}
		}
		if first {
			acc, first = here, false
			continue
		}
		var keep []pfact
		for _, a := range acc {
			for _, b := range here {
				if b.implies(a) {
					keep = append(keep, a)
					break
				}
			}
		}
		acc = keep
	}
	return acc
}

// ---------------------------------------------------------------------------------------------
// lengths that follow from how a value was built (x[:33] has length 33, x[1:] of a 33-byte x has 32)

// lenOfValue returns the exact length of v at instruction at, when it is determined by constant
// slice bounds, by the length of the sliced base, or by a dominating equality test on v's path.
func (fe *FactEngine) lenOfValue(at ssa.Instruction, v ssa.Value, depth int) (int64, bool) {
	if depth > 6 || v == nil {
		return 0, false
	}
	fn := at.Parent()
	for {
		ct, ok := v.(*ssa.ChangeType)
		if !ok {
			break
		}
		v = ct.X
	}
	if sl, ok := v.(*ssa.Slice); ok && sl.Max == nil {
		var lo int64
		loOK := true
		if sl.Low != nil {
			lo, loOK = intConst(sl.Low)
		}
		if loOK {
			if sl.High != nil {
				if hi, ok := intConst(sl.High); ok {
					return hi - lo, hi >= lo
				}
				if p, off, ok := lenExpr(sl.High); ok && p == pathOf(sl.X) {
					if n, ok := fe.lenOfValue(at, sl.X, depth+1); ok {
						return n + off - lo, n+off-lo >= 0
					}
				}
			} else {
				if pt, ok := sl.X.Type().Underlying().(*types.Pointer); ok {
					if arr, ok := pt.Elem().Underlying().(*types.Array); ok {
						return arr.Len() - lo, arr.Len() >= lo
					}
				}
				if n, ok := fe.lenOfValue(at, sl.X, depth+1); ok {
					return n - lo, n >= lo
				}
			}
		}
	}
	p := pathOf(v)
	for _, b := range fn.Blocks {
		for k := range b.Succs {
			for _, f := range fe.factsOnEdgeDeep(fn, Edge{b, k}) {
				if f.kind == kLenEq && f.path == p && fe.holdsAtBlock(fn, at.Block(), f) && storesToPath(fn, p) == 0 {
					return f.min, true
				}
			}
		}
	}
	return 0, false
}

// minLenOfValue returns a lower bound of len(v) at instruction at: from dominating length tests on v's path and,
// for x[lo:hi], from the bounds (constant, or len(x)±c) and the lower bound of the sliced base.
func (fe *FactEngine) minLenOfValue(at ssa.Instruction, v ssa.Value, depth int) (int64, bool) {
	if depth > 6 || v == nil {
		return 0, false
	}
	if n, ok := fe.lenOfValue(at, v, 0); ok {
		return n, true
	}
	fn := at.Parent()
	for {
		ct, ok := v.(*ssa.ChangeType)
		if !ok {
			break
		}
		v = ct.X
	}
	best, have := int64(0), false
	if sl, ok := v.(*ssa.Slice); ok && sl.Max == nil {
		var lo int64
		loOK := true
		if sl.Low != nil {
			lo, loOK = intConst(sl.Low)
		}
		if loOK {
			switch {
			case sl.High == nil:
				if n, ok := fe.minLenOfValue(at, sl.X, depth+1); ok {
					best, have = n-lo, true
				}
			default:
				if hi, ok := intConst(sl.High); ok {
					best, have = hi-lo, true
				} else if p, off, ok := lenExpr(sl.High); ok && p == pathOf(sl.X) {
					if n, ok := fe.minLenOfValue(at, sl.X, depth+1); ok {
						best, have = n+off-lo, true
					}
				}
			}
		}
	}
	p := pathOf(v)
	if storesToPath(fn, p) == 0 {
		for _, b := range fn.Blocks {
			for k := range b.Succs {
				for _, f := range fe.factsOnEdgeDeep(fn, Edge{b, k}) {
					if f.kind == kLenMin && f.path == p && (!have || f.min > best) && fe.holdsAtBlock(fn, at.Block(), f) {
						best, have = f.min, true
					}
				}
			}
		}
	}
	return best, have
}

// HoldsVal is Holds for a length fact about value v, which also uses lengths known by construction.
func (fe *FactEngine) HoldsVal(at ssa.Instruction, v ssa.Value, kind factK, min int64) (bool, string) {
	if kind == kLenMin {
		if n, ok := fe.minLenOfValue(at, v, 0); ok && n >= min {
			return true, ""
		}
	}
	if n, ok := fe.lenOfValue(at, v, 0); ok {
		switch kind {
		case kLenMin:
			if n >= min {
				return true, ""
			}
			return false, fmt.Sprintf("length of %s is %d by construction, %d needed", pathOf(v), n, min)
		case kLenEq:
			if n == min {
				return true, ""
			}
			return false, fmt.Sprintf("length of %s is %d by construction, %d needed", pathOf(v), n, min)
		}
	}
	return fe.Holds(at, pfact{kind: kind, path: pathOf(v), min: min}, 0)
}
