package main

// Thorough tier: the same rules, plus (i) the sensitivity suite of the property — one-edit mutants of
// the CURRENT tree that still compile; the analyser must name the mutated instance — and (ii)
// agreement tables with independent static oracles (compiler prove pass, errcheck). Both test the
// checker, not the repository: they are reported in the evidence and never change the verdict.

import (
	"encoding/json"
	"fmt"
	"os"
	"os/exec"
	"path/filepath"
	"regexp"
	"sort"
	"strings"
)

func init() {
	for _, id := range []string{"C01", "C03", "C04", "C05", "C06", "C07", "C08", "C09", "C10", "C11", "C12", "C13", "C14", "C15", "C16", "C17", "C18", "C19", "C20"} {
		id := id
		thorough[id] = func(w *World, r *Report) {
			runSensitivity(id, r)
			runSuites(id, r)
			switch id {
			case "C15":
				bceCrossCheck(w, r, []string{"./gossip", "./notaryserver", "./webhooksserver", "./transformers"}, "D1-slice-to-array")
			case "C20":
				bceCrossCheck(w, r, []string{"./aeswrapper"}, "D3-bounds")
			case "C07":
				errcheckCrossCheck(w, r, "./accountant")
			}
		}
	}
}

func toolEnv() []string {
	return append(os.Environ(), "GOFLAGS=-mod=mod", "GOPROXY=off", "GOSUMDB=off", "GOTOOLCHAIN=local", "GOWORK=off")
}

func runSensitivity(id string, r *Report) {
	out := filepath.Join(os.TempDir(), fmt.Sprintf("vcheck_sens_%s_%d.json", id, os.Getpid()))
	defer os.Remove(out)
	cmd := exec.Command("python3", filepath.Join(verifDir(), "mutants", "run.py"), "-p", id, "-j", "8", "--out", out)
	cmd.Env = toolEnv()
	b, err := cmd.CombinedOutput()
	res := map[string]any{}
	if raw, e2 := os.ReadFile(out); e2 == nil {
		json.Unmarshal(raw, &res)
	} else {
		res["error"] = fmt.Sprintf("%v: %s", err, tail(string(b), 400))
	}
	r.Extra["sensitivity_suite"] = res
	if s, ok := res["summary"].(map[string]any); ok {
		fmt.Printf("  sensitivity suite (non-gating): %v\n", s)
	}
}

// runSuites: the thorough tier also replays, for this property, the independent seeded breaking changes (each must be
// reported) and the behaviour-preserving refactorings (each must stay silent). Both are recorded, neither gates.
func runSuites(id string, r *Report) {
	for _, suite := range []struct {
		key  string
		args []string
	}{
		{"seeded_changes_of_this_property", []string{filepath.Join(verifDir(), "seeded", "own.py"), id, "-j", "6"}},
		{"neutral_refactorings", []string{filepath.Join(verifDir(), "mutants", "neutral.py"), "-p", id, "-j", "8"}},
	} {
		out := filepath.Join(os.TempDir(), fmt.Sprintf("vcheck_%s_%s_%d.json", suite.key, id, os.Getpid()))
		cmd := exec.Command("python3", append(suite.args, "--out", out)...)
		cmd.Env = toolEnv()
		b, err := cmd.CombinedOutput()
		res := map[string]any{}
		if raw, e2 := os.ReadFile(out); e2 == nil {
			json.Unmarshal(raw, &res)
		} else {
			res["error"] = fmt.Sprintf("%v: %s", err, tail(string(b), 400))
		}
		os.Remove(out)
		r.Extra[suite.key] = res
		if s, ok := res["summary"]; ok {
			fmt.Printf("  %s (non-gating): %v\n", suite.key, s)
		}
	}
}

func tail(s string, n int) string {
	if len(s) > n {
		return s[len(s)-n:]
	}
	return s
}

var bceRe = regexp.MustCompile(`^(\S+\.go):(\d+):\d+: Found (IsSliceInBounds|IsInBounds)`)

// bceCrossCheck lists the bounds checks the compiler's prove pass cannot eliminate and tabulates
// which of them correspond to obligations of the given rule (same file:line).
func bceCrossCheck(w *World, r *Report, pkgs []string, rule string) {
	args := append([]string{"build", "-gcflags=-d=ssa/check_bce/debug=1"}, pkgs...)
	cmd := exec.Command("go", args...)
	cmd.Dir = w.RepoDir
	cmd.Env = append(toolEnv(), "GOCACHE="+filepath.Join(os.TempDir(), fmt.Sprintf("vcheck_gocache_%d", os.Getpid())))
	defer os.RemoveAll(filepath.Join(os.TempDir(), fmt.Sprintf("vcheck_gocache_%d", os.Getpid())))
	b, _ := cmd.CombinedOutput()
	ours := map[string]bool{}
	for _, o := range r.Obs {
		if o.Rule == rule {
			ours[strings.TrimPrefix(o.Pos, "src/")] = true
		}
	}
	var unproven, matched []string
	for _, l := range strings.Split(string(b), "\n") {
		m := bceRe.FindStringSubmatch(strings.TrimSpace(l))
		if m == nil || m[3] != "IsSliceInBounds" {
			continue
		}
		key := strings.TrimPrefix(m[1], "./") + ":" + m[2]
		unproven = append(unproven, key)
		if ours[key] {
			matched = append(matched, key)
		}
	}
	sort.Strings(unproven)
	r.Extra["prove_pass_cross_check"] = map[string]any{
		"what":                     "slice bounds checks the Go compiler's prove pass could not eliminate (go build -gcflags=-d=ssa/check_bce/debug=1); every slice→array conversion needs a run-time check, so each must be one of this rule's obligations",
		"unproven_slice_bounds":    len(unproven),
		"also_obligations_of_rule": len(matched),
		"rule":                     rule,
		"sites":                    unproven,
	}
	fmt.Printf("  prove-pass cross-check (non-gating): %d unproven slice bounds, %d of them are %s obligations\n", len(unproven), len(matched), rule)
}

func errcheckCrossCheck(w *World, r *Report, pkg string) {
	cmd := exec.Command("errcheck", pkg)
	cmd.Dir = w.RepoDir
	cmd.Env = toolEnv()
	b, _ := cmd.CombinedOutput()
	var lines []string
	for _, l := range strings.Split(string(b), "\n") {
		if strings.Contains(l, "Drain") || strings.Contains(l, "Transfer") || strings.Contains(l, "Supply") {
			lines = append(lines, strings.TrimSpace(l))
		}
	}
	r.Extra["errcheck_cross_check"] = map[string]any{"what": "errcheck reports of unchecked spice operations in " + pkg + " (informational; the rule reports only the reachable Drain/Transfer drops)", "lines": lines}
	fmt.Printf("  errcheck cross-check (non-gating): %d unchecked spice operations reported\n", len(lines))
}
