package main

// C09 (well-formed DAG of self-authenticating vertices), C10 (sealing rules), C13 (orphan buffer),
// C14 (all-or-nothing sync) — structural parts, all in package accountant.

import (
	"fmt"
	"go/token"
	"go/types"
	"strings"

	"golang.org/x/tools/go/ssa"
)

// hashElemOrigins returns the access paths of the [32]byte values that may flow into a hash
// expression such as string(hash[:]) where hash ranges over a literal.
func hashElemOrigins(v ssa.Value) []string { return hashElemOriginsR(v, idRes) }

// hashElemOriginsR names the origins through a resolver (the expression may sit in a helper).
func hashElemOriginsR(v ssa.Value, res resolver) []string {
	// strip conversion / slicing down to the array value or its variable
	for i := 0; i < 6; i++ {
		switch x := v.(type) {
		case *ssa.Convert:
			v = x.X
			continue
		case *ssa.Slice:
			v = x.X
			continue
		case *ssa.ChangeType:
			v = x.X
			continue
		}
		break
	}
	var vals []ssa.Value
	if a, ok := v.(*ssa.Alloc); ok {
		for _, r := range *a.Referrers() {
			if st, ok := r.(*ssa.Store); ok && st.Addr == ssa.Value(a) {
				vals = append(vals, st.Val)
			}
		}
	} else {
		vals = []ssa.Value{v}
	}
	var out []string
	for _, x := range vals {
		for _, o := range origins(x) {
			out = append(out, res(o))
		}
	}
	return uniqStrings(out)
}

// hashElemOriginsD: the origins of a hash expression that sits in the function of deep call d, named in the top function:
// a parameter of a helper on the chain is followed to the argument at the call site.
func hashElemOriginsD(d dcall, v ssa.Value) []string {
	if len(d.chain) == 0 {
		return hashElemOriginsR(v, d.res())
	}
	for i := 0; i < 6; i++ {
		switch x := v.(type) {
		case *ssa.Convert:
			v = x.X
			continue
		case *ssa.Slice:
			v = x.X
			continue
		case *ssa.ChangeType:
			v = x.X
			continue
		}
		break
	}
	var vals []ssa.Value
	if a, ok := v.(*ssa.Alloc); ok {
		for _, r := range *a.Referrers() {
			if st, ok := r.(*ssa.Store); ok && st.Addr == ssa.Value(a) {
				vals = append(vals, st.Val)
			}
		}
	} else {
		vals = []ssa.Value{v}
	}
	var out []string
	for _, x := range vals {
		for _, o := range origins(x) {
			if prm, isPrm := o.(*ssa.Parameter); isPrm {
				if av := d.argValue(prm); av != ssa.Value(prm) {
					out = append(out, hashElemOriginsR(av, idRes)...)
					continue
				}
			}
			out = append(out, d.res()(o))
		}
	}
	return uniqStrings(out)
}

func init() {
	register("C09", []string{"./accountant"},
		"Structural necessary conditions of a well-formed ledger graph: every vertex is inserted under its own hash; every edge runs from a vertex fetched by (or equal to) a declared parent hash of the new vertex to the vertex just inserted; "+
			"a failed edge insertion rolls the new vertex and its index entry back; on the gossip path BOTH declared parents must be found before admission (the constant-length range is decided per element); "+
			"a locally created vertex gets calcNewWeight of the same two parents it references and NewVertex returns only a signed value whose hash and signature come from signer.Sign(initData()). "+
			"Acyclicity (heimdalr's AddEdge loop check), the arithmetic in calcNewWeight and the state after truncation are not decided.",
		runC09)
	register("C10", []string{"./accountant", "./gossip", "./notaryserver", "./wallet"},
		"Structural necessary conditions of the sealing rules: on every entry point the insertion (or the hand-over to the admission path) lies behind the rejecting edge of each rule's comparison, with operands bound by access path "+
			"(issuer vs. sealing node, issuer vs. genesis wallet, empty transaction, genesis receiver vs. issuer, DAG loaded), the loaded flag of a synced ledger is unreachable after any cancel, and the admission path has no other callers — "+
			"so everything replayed from the orphan buffer went through the same guards.",
		runC10)
	register("C13", []string{"./accountant", "./gossip"},
		"Structural necessary conditions of parking orphans: on the not-found edge of a declared parent every path parks the vertex (or rejects it) and returns ErrParentDoesNotExists / ErrLeafRejected without touching DAG or index; "+
			"the buffer's append lies behind its size and retry bounds with the retry counter incremented first; the retry loop re-enters addLeafMemorized (the function holding the verify/exists/parent guards) and nothing else inserts into the DAG. "+
			"That every delivery permutation converges to the parents-first ledger is a schedule property and not decided.",
		runC13)
	register("C14", []string{"./accountant", "./gossip"},
		"Structural necessary condition of all-or-nothing sync: in LoadDag the store dagLoaded = true is unreachable from any cancel call, every failing step (index reservation, vertex insertion, edge insertion, second self-sealed vertex, empty transaction, missing root, wrong type) "+
			"leads to cancel, and the genesis address originates from a root vertex's issuer. Equality of vertex sets, balances and follow-up behaviour are history properties and not decided.",
		runC14)
}

func runC09(w *World, r *Report) {
	r.NotDecided = []string{"acyclicity (heimdalr AddEdge loop check, trusted)", "arithmetic inside calcNewWeight", "graph shape after truncation", "recomputation of digests (C04 covers the verification chain)"}
	li := ComputeLocks(w, acctScope)
	_ = li
	// 1. stored under its own hash
	r.rule("id-is-own-hash", "AddVertexByID(id, v): id is string(v.Hash[:]) of the same v", 4)
	for _, s := range admissionSites(w) {
		_, a := callArgs(s)
		x, ok := vertexOfHashArg(a[0])
		v := pathOf(a[1])
		r.check(ok && pathOf(x) == v, "id-is-own-hash", shortFn(s.Parent())+"/AddVertexByID("+v+")", lineOf(w, s), "vertex is stored under its own hash", "id is "+pathOf(a[0]))
		r.seen(shortFn(s.Parent()))
	}

	// 2. edges: declared parent → new vertex
	r.rule("edge-binding", "AddEdge(src, dst): dst is the vertex inserted by the dominating AddVertexByID; src is fetched by / equal to a declared parent hash of that vertex", 6)
	loadDagSrcs := map[string]bool{}
	loadDagDst := ""
	for _, fnName := range []string{"addLeafMemorized", "CreateLeaf", "LoadDag"} {
		f := w.fx(r, "accountant", "AccountingBook", fnName)
		if f == nil {
			continue
		}
		adds := deepCalls(f.fn, func(c ssa.CallInstruction) bool { return calleeName(c) == nAddVertexByID }, deepDepth)
		if len(adds) != 1 {
			r.bad("edge-binding", fnName+"/AddVertexByID", w.Pos(f.fn.Pos()), "one insertion per admission function", fmt.Sprintf("%d", len(adds)))
			continue
		}
		_, aa := callArgs(adds[0].c)
		v := adds[0].path(aa[1])
		inserted := func(fn2 *ssa.Function, res resolver) []Edge {
			var es []Edge
			for _, s := range callsTo(fn2, nAddVertexByID) {
				_, sa := callArgs(s)
				if res(sa[1]) == v {
					es = append(es, passErrNil(s)...)
				}
			}
			return es
		}
		for _, ed := range deepCalls(f.fn, func(c ssa.CallInstruction) bool { return calleeName(c) == nAddEdge }, deepDepth) {
			e := ed.c
			_, a := callArgs(e)
			// dst
			dx, ok := vertexOfHashArg(a[1])
			dstOK := ok && (ed.path(dx) == v || fnName == "LoadDag")
			if fnName != "LoadDag" {
				dstOK = dstOK && behindDeepSite(ed, inserted)
			}
			r.check(dstOK, "edge-binding", fnName+"/AddEdge-dst", lineOf(w, e), "edge ends at the vertex that was just inserted, after its insertion succeeded", "dst is "+ed.path(a[1]))
			// src
			switch fnName {
			case "addLeafMemorized":
				sx, ok := vertexOfHashArg(a[0])
				srcOK := false
				why := "src not from the validated list"
				if ok {
					if ld, ok := sx.(*ssa.UnOp); ok {
						if ia, ok := ld.X.(*ssa.IndexAddr); ok {
							for _, ap := range appendsFeeding(ed.argValue(ia.X)) {
								for _, y := range sliceLitElems(ap.Call.Args[1]) {
									// the lookup may sit in a helper that hands the vertex it found back to the appending loop
									type lookup struct {
										o     ssa.Value
										chain []ssa.CallInstruction
									}
									var los []lookup
									for _, o := range origins(y) {
										if ex, isEx := o.(*ssa.Extract); isEx {
											if hc, isCall := ex.Tuple.(*ssa.Call); isCall {
												if h := samePkgHelper(ap.Parent(), hc); h != nil {
													for _, ret := range returnsOf(h) {
														if !successReturn(ret) {
															continue
														}
														vals, zero := resultVals(ret, ex.Index)
														if zero {
															continue
														}
														for _, rv := range vals {
															for _, o2 := range origins(rv) {
																los = append(los, lookup{o2, []ssa.CallInstruction{hc}})
															}
														}
													}
													continue
												}
											}
										}
										los = append(los, lookup{o, nil})
									}
									for _, lo := range los {
										ex, ok := lo.o.(*ssa.Extract)
										if !ok {
											why = "appended vertex is not a DAG lookup result"
											continue
										}
										gc, ok := ex.Tuple.(*ssa.Call)
										if !ok || calleeName(gc) != nGetVertex {
											why = "appended vertex is not a DAG lookup result"
											continue
										}
										_, ga := callArgs(gc)
										ps := hashElemOriginsD(dcall{c: gc, chain: lo.chain}, ga[0])
										want := []string{v + ".LeftParentHash", v + ".RightParentHash"}
										if strings.Join(ps, ",") == strings.Join(want, ",") {
											srcOK = true
										} else {
											why = "looked-up ids originate from " + strings.Join(ps, ",")
										}
									}
								}
							}
						}
					}
				}
				r.check(srcOK, "edge-binding", fnName+"/AddEdge-src", lineOf(w, e), "edge starts at a vertex looked up by a declared parent hash of the new vertex", why)
			case "LoadDag":
				ps := hashElemOrigins(a[0])
				dp := ""
				if dx != nil {
					dp = pathOf(dx)
				}
				// each edge starts at a declared parent of its destination; all edge sites together cover both parents
				subset := len(ps) > 0
				for _, p := range ps {
					if p != dp+".LeftParentHash" && p != dp+".RightParentHash" {
						subset = false
					}
					loadDagSrcs[p] = true
				}
				loadDagDst = dp
				r.check(subset, "edge-binding", fnName+"/AddEdge-src", lineOf(w, e), "edge starts at a declared parent hash of the destination vertex", "src originates from "+strings.Join(ps, ","))
			case "CreateLeaf":
				sx, ok := vertexOfHashArg(a[0])
				srcOK := false
				why := ""
				if ok {
					_, nv := newVertexSource(f.fn, v)
					if nv != nil {
						// the two hashes passed to NewVertex belong to the same two values the edges start from
						var parents []string
						for _, arg := range nv.Call.Args[1:3] {
							if px, ok := vertexOfHashArg(arg); ok {
								parents = append(parents, pathOf(px))
							} else if ld, ok := arg.(*ssa.UnOp); ok {
								if px, ok := vertexOfHashArg(ld.X); ok {
									parents = append(parents, pathOf(px))
								}
							}
						}
						var srcs []string
						if ld, ok := sx.(*ssa.UnOp); ok {
							if ia, ok := ld.X.(*ssa.IndexAddr); ok {
								for _, el := range sliceLitOrArrayElems(ia.X) {
									srcs = append(srcs, ed.path(el))
								}
							}
						}
						if prm, isParam := sx.(*ssa.Parameter); isParam && len(srcs) == 0 && prm.Parent().Parent() != nil {
							// the edge is added by a local function literal called once per parent: the arguments of those calls
							lit := prm.Parent()
							for k, p2 := range lit.Params {
								if p2 != prm {
									continue
								}
								instrsOf(lit.Parent(), func(in ssa.Instruction) {
									if c, ok := in.(ssa.CallInstruction); ok && closureOf(c.Common().Value) == lit && k < len(c.Common().Args) {
										srcs = append(srcs, pathOf(c.Common().Args[k]))
									}
								})
							}
						}
						srcOK = len(parents) == 2 && strings.Join(uniqStrings(srcs), ",") == strings.Join(uniqStrings(parents), ",")
						why = fmt.Sprintf("NewVertex parents %v, edge sources %v", parents, srcs)
					} else {
						why = "new vertex is not built by NewVertex"
					}
				}
				r.check(srcOK, "edge-binding", fnName+"/AddEdge-src", lineOf(w, e), "edges start at exactly the two vertices whose hashes were sealed into the new vertex", why)
			}
		}
	}

	r.check(loadDagSrcs[loadDagDst+".LeftParentHash"] && loadDagSrcs[loadDagDst+".RightParentHash"], "edge-binding", "LoadDag/both-parents-linked", "-", "the edges added for a loaded vertex start at its left and at its right declared parent", fmt.Sprintf("sources %v", loadDagSrcs))

	// the link to a declared parent is attempted whatever the graph holds: AddEdge's own failure is the test for a missing parent
	if f := w.fx(r, "accountant", "AccountingBook", "LoadDag"); f != nil {
		for _, ed := range deepCalls(f.fn, byName(nAddEdge), deepDepth) {
			host := ed.c.Parent()
			_, a := callArgs(ed.c)
			src := strings.Join(hashElemOrigins(a[0]), ",")
			gated := ""
			for _, lk := range callsTo(host, nGetVertex, dagM("IsLeaf"), dagM("IsRoot"), dagM("GetParents"), dagM("GetChildren")) {
				_, la := callArgs(lk)
				if len(la) == 0 || strings.Join(hashElemOrigins(la[0]), ",") != src {
					continue
				}
				if behind(ed.c.(ssa.Instruction), passErrNil(lk)) {
					gated = shortCallee(lk)
				}
			}
			r.check(gated == "", "edge-binding", "LoadDag/link-not-gated-by-lookup", lineOf(w, ed.c), "every declared parent of a loaded vertex is linked (or the load fails): no lookup decides to skip the link", "AddEdge is reached only when "+gated+" found the parent: a vertex whose parent is neither live nor checkpointed is accepted as an extra root")
		}
	}

	// 2a'. the graph changes only by inserting a vertex, linking it to a declared parent, or deleting a vertex: every other
	// library call that takes the graph lock exclusively (edge removal, transitive reduction, …) makes the edge set differ
	// from what the signed vertices declare
	r.rule("graph-mutators-are-the-three", "the only calls from the repository into the graph library that take its lock exclusively are AddVertexByID, AddEdge and DeleteVertex", 1)
	{
		writers := map[string]bool{}
		if dp := w.SSA[dagPkg]; dp != nil {
			for fn := range w.AllFuncs() {
				if fn.Pkg != dp || fn.Parent() != nil || fn.Object() == nil {
					continue
				}
				isW := false
				instrsOf(fn, func(in ssa.Instruction) {
					if c, ok := in.(*ssa.Call); ok {
						if op, m, id, ok := lockOp(c); ok && op == "lock" && m == "W" && id == "dag.DAG.muDAG" {
							isW = true
						}
					}
				})
				if isW {
					writers[fn.Object().(*types.Func).FullName()] = true
				}
			}
		}
		allowed := map[string]bool{nAddVertexByID: true, nAddEdge: true, nDeleteVertex: true}
		n, bad := 0, ""
		for _, fn := range w.RepoFuncs("accountant") {
			instrsOf(fn, func(in ssa.Instruction) {
				c, ok := in.(ssa.CallInstruction)
				if !ok {
					return
				}
				name := calleeName(c)
				if !writers[name] {
					return
				}
				n++
				if !allowed[name] {
					bad += " " + shortFn(fn) + " calls " + shortCallee(c) + " at " + lineOf(w, c) + ";"
				}
			})
		}
		r.check(len(writers) >= 3 && n >= 3 && bad == "", "graph-mutators-are-the-three", "accountant", "-", fmt.Sprintf("%d calls of %d exclusive-lock methods of the graph library, all of the three kinds", n, len(writers)), bad)
	}

	// 2b'. a vertex that arrives from a peer is stored only after its hash and seal were recomputed from its contents
	r.rule("received-vertex-self-authenticating", "gossip admission inserts a vertex only behind the success of leaf.verify(ab.verifier) for that very vertex on every path (no memo keyed by a claimed hash stands in for it)", 1)
	gossipVerifyBeforeAdmit(w, r, "received-vertex-self-authenticating")

	// 2c. a created vertex references only tips that were valid at that moment
	r.rule("created-vertex-references-valid-tips", "the parents CreateLeaf links a new vertex to originate only from getValidLeaves, which hands out a tip only behind validateLeaf(ctx, that tip) == nil (an aborted or failed validation never falls through to the selection)", 3)
	createdVertexParentsValidated(w, r, "created-vertex-references-valid-tips")

	// 3. roll back the new vertex when linking fails
	r.rule("rollback-vertex", "after a successful AddVertexByID every path to an error return passes DeleteVertex(new vertex)", 2)
	for _, fnName := range []string{"addLeafMemorized", "CreateLeaf"} {
		f := w.fx(r, "accountant", "AccountingBook", fnName)
		if f == nil {
			continue
		}
		for _, d := range deepCalls(f.fn, func(c ssa.CallInstruction) bool { return calleeName(c) == nAddVertexByID }, deepDepth) {
			s := d.c
			_, aa := callArgs(s)
			v := d.path(aa[1])
			bad := 0
			for _, e := range passErrNil(s) {
				dw := newDeepWalk(func(in ssa.Instruction, fr *frame) bool {
					if c, ok := in.(ssa.CallInstruction); ok && calleeName(c) == nDeleteVertex {
						_, da := callArgs(c)
						if x, ok := vertexOfHashArg(da[0]); ok && fr.cx.res(x) == v {
							return true
						}
					}
					if ret, ok := in.(*ssa.Return); ok && fr.top() {
						if !successReturn(ret) {
							bad++
						}
						return true
					}
					return false
				})
				dw.run(frameFor(f.fn, d.chain), e.To(), 0)
			}
			r.check(bad == 0 && len(passErrNil(s)) > 0, "rollback-vertex", fnName+"/DeleteVertex("+v+")", lineOf(w, s), "a vertex whose linking failed is removed again", fmt.Sprintf("%d error returns reachable with the vertex left in the DAG", bad))
		}
	}

	// 3b. only tips are ever deleted outside truncation
	r.rule("delete-only-tips", "DeleteVertex outside truncate removes only a vertex that cannot have children: the one just inserted, one taken from GetLeaves(), or one behind IsLeaf(same id) == true", 2)
	for _, fn := range w.RepoFuncs("accountant") {
		for _, d := range callsTo(fn, nDeleteVertex) {
			if truncateOwns(w, d) {
				continue
			}
			_, da := callArgs(d)
			x, ok := vertexOfHashArg(da[0])
			key := shortFn(fn) + "/DeleteVertex"
			if !ok {
				r.undecided("delete-only-tips", key, lineOf(w, d), "deleted vertex must be identifiable", pathOf(da[0]))
				continue
			}
			v := pathOf(x)
			good, why := deletesTip(w, fn, d.(ssa.Instruction), x)
			if prm, isPrm := strip(x).(*ssa.Parameter); !good && isPrm && fn.Parent() == nil && fn.Object() != nil && !fn.Object().Exported() {
				// a roll-back helper that is handed the vertex: decide per call site, with that site's arguments
				// (a constant flag may make the deletion unreachable for the site)
				sites := staticCallers(w, fn)
				okAll := len(sites) > 0
				for _, cs := range sites {
					reached := false
					dw := newDeepWalk(func(in ssa.Instruction, fr *frame) bool {
						if fr.top() {
							return true
						}
						if in == d.(ssa.Instruction) {
							reached = true
						}
						return reached
					})
					dw.run(frameFor(cs.Parent(), []ssa.CallInstruction{cs}), fn.Blocks[0], 0)
					if !reached {
						continue
					}
					var arg ssa.Value
					for k, p := range fn.Params {
						if p == prm && k < len(cs.Common().Args) {
							arg = cs.Common().Args[k]
						}
					}
					if arg == nil {
						okAll = false
						continue
					}
					if g2, why2 := deletesTip(w, cs.Parent(), cs.(ssa.Instruction), arg); !g2 {
						okAll = false
						why = "called at " + lineOf(w, cs) + ": " + why2
					}
				}
				good = okAll
			}
			r.check(good, "delete-only-tips", key+"("+v+")", lineOf(w, d), "only childless vertices are removed from the live DAG", why)
		}
	}

	// 3c. truncation deletes what it checkpointed, nothing else
	r.rule("pruned-are-checkpointed", "truncate deletes exactly the ids gathered by a walk from the cut the save walk started at: a vertex leaves the live DAG only together with its checkpoint record", 2)
	prunedAreCheckpointed(w, r, "pruned-are-checkpointed")

	// 4. both parents exist before admission
	parentsExist(w, r, "parents-exist")
	everyParentLinked(w, r, "every-looked-up-parent-is-linked")
	// a tip that is dropped takes its index entry along: a dangling entry keeps the vertex (and its transaction) out for good
	deleteWithIndex(w, r, "delete-with-index")

	// 5. weight and signing
	r.rule("weight-and-seal", "CreateLeaf seals calcNewWeight(l.Weight, r.Weight) of the two referenced parents; NewVertex returns only the candidate it signed; sign stores Hash/Signature from signer.Sign(initData())", 4)
	if f := w.fx(r, "accountant", "AccountingBook", "CreateLeaf"); f != nil {
		for _, c := range f.calls(cn("accountant", "", "NewVertex")) {
			_, a := callArgs(c)
			wc, ok := strip(a[3]).(*ssa.Call)
			okW := false
			why := "weight argument is not a call"
			if ok && calleeName(wc) == cn("accountant", "", "calcNewWeight") {
				var ws, hs []string
				for _, x := range wc.Call.Args {
					p := pathOf(x)
					ws = append(ws, strings.TrimSuffix(p, ".Weight"))
					if !strings.HasSuffix(p, ".Weight") {
						ws = append(ws, "!")
					}
				}
				for _, x := range a[1:3] {
					p := pathOf(x)
					hs = append(hs, strings.TrimSuffix(p, ".Hash"))
				}
				okW = strings.Join(uniqStrings(ws), ",") == strings.Join(uniqStrings(hs), ",")
				why = fmt.Sprintf("weights of %v, hashes of %v", ws, hs)
			}
			r.check(okW, "weight-and-seal", "CreateLeaf/NewVertex-weight", lineOf(w, c), "weight is calcNewWeight of the very parents whose hashes are sealed", why)
		}
	}
	if f := w.fx(r, "accountant", "", "NewVertex"); f != nil {
		signs := f.calls(cn("accountant", "*Vertex", "sign"))
		ok := len(signs) == 1
		if ok {
			recv, _ := callArgs(signs[0])
			for _, ret := range returnsOf(f.fn) {
				if !successReturn(ret) {
					continue
				}
				// returned value is loaded from the signed candidate after sign
				rv := ret.Results[0]
				ld, isLd := rv.(*ssa.UnOp)
				if !isLd || ld.Op != token.MUL || ld.X != strip(recv) {
					ok = false
				}
				if !(signs[0].Block().Dominates(ret.Block())) {
					ok = false
				}
			}
		}
		r.check(ok, "weight-and-seal", "NewVertex/sign-before-return", w.Pos(f.fn.Pos()), "every returned vertex was signed", "a return is not dominated by sign on the returned candidate")
	}
	if f := w.fx(r, "accountant", "Vertex", "sign"); f != nil {
		ok := false
		why := "no signer.Sign(initData()) feeding Hash and Signature"
		for _, c := range f.calls("(" + modPath + "/accountant.Signer).Sign") {
			_, a := callArgs(c)
			dc, isCall := strip(a[0]).(*ssa.Call)
			if !isCall || calleeName(dc) != cn("accountant", "*Vertex", "initData") {
				why = "signed bytes are not v.initData()"
				continue
			}
			stores := map[string]bool{}
			instrsOf(f.fn, func(in ssa.Instruction) {
				if st, ok := in.(*ssa.Store); ok {
					if ex, ok := st.Val.(*ssa.Extract); ok && ex.Tuple == ssa.Value(c.(*ssa.Call)) {
						stores[fmt.Sprintf("%s#%d", pathOf(st.Addr), ex.Index)] = true
					}
				}
			})
			rv := f.fn.Params[0].Name()
			ok = stores[rv+".Hash#0"] && stores[rv+".Signature#1"]
			if !ok {
				why = fmt.Sprintf("stores: %v", stores)
			}
		}
		r.check(ok, "weight-and-seal", "Vertex.sign", w.Pos(f.fn.Pos()), "Hash and Signature are the digest and signature of initData()", why)
	}
	if f := w.fx(r, "accountant", "", "calcNewWeight"); f != nil {
		// both parameters must contribute to the result (a necessary condition of max(l, r)+1)
		uses := map[string]bool{}
		instrsOf(f.fn, func(in ssa.Instruction) {
			for _, op := range in.Operands(nil) {
				if p, ok := (*op).(*ssa.Parameter); ok {
					uses[p.Name()] = true
				}
			}
		})
		r.check(len(uses) == 2, "weight-and-seal", "calcNewWeight/both-params", w.Pos(f.fn.Pos()), "both parent weights contribute to the new weight", fmt.Sprintf("used: %v", uses))
	}
}

func sliceLitOrArrayElems(v ssa.Value) []ssa.Value {
	if s, ok := v.(*ssa.Slice); ok {
		return sliceLitElems(s)
	}
	if a, ok := v.(*ssa.Alloc); ok {
		var out []ssa.Value
		for _, r := range *a.Referrers() {
			if ia, ok := r.(*ssa.IndexAddr); ok {
				for _, rr := range *ia.Referrers() {
					if st, ok := rr.(*ssa.Store); ok && st.Addr == ssa.Value(ia) {
						out = append(out, st.Val)
					}
				}
			}
		}
		return out
	}
	return nil
}

// genesisReceiverUsed matches the value that CreateGenesis hands to transaction.New as receiver address:
// the sealing rule must be evaluated on that very value, not on one it is later derived from.
func genesisReceiverUsed(fn *ssa.Function) func(ssa.Value) bool {
	news := deepCalls(fn, func(c ssa.CallInstruction) bool { return calleeName(c) == cn("transaction", "", "New") }, 1)
	return func(v ssa.Value) bool {
		for _, d := range news {
			a := d.c.Common().Args
			if len(a) < 4 {
				continue
			}
			if len(d.chain) == 0 && sameVal(a[3], v) {
				return true
			}
			if len(d.chain) > 0 && d.path(a[3]) == pathOf(v) {
				return true
			}
		}
		return false
	}
}

// ---------------------------------------------------------------------------------------------

func runC10(w *World, r *Report) {
	r.NotDecided = []string{"that the configured genesis wallet never signs (deployment)", "ledgers imported by means other than the three entry points"}
	// the sealing guards compare address strings: one wallet must have one address
	oneAddressPerKey(w, r, "one-address-per-key")
	handedOverVertexIsFresh(w, r, "handed-over-vertex-is-fresh")
	// "neither data nor spice" is decided from Data and Spice alone: the guards of all three entries call IsEmpty, so a
	// predicate that also looks at another field changes what every guard lets through
	r.rule("empty-means-no-data-and-no-spice", "Transaction.IsContract / IsSpiceTransfer / IsEmpty read no field of the transaction other than Data and Spice", 3)
	for _, name := range []string{"IsContract", "IsSpiceTransfer", "IsEmpty"} {
		pf := w.Func("transaction", "Transaction", name)
		if pf == nil {
			r.bad("empty-means-no-data-and-no-spice", name, "-", "predicate must resolve", "not found")
			continue
		}
		other := ""
		var visit func(fn *ssa.Function, depth int)
		seenFn := map[*ssa.Function]bool{}
		visit = func(fn *ssa.Function, depth int) {
			if fn == nil || seenFn[fn] || depth > 3 || len(fn.Blocks) == 0 {
				return
			}
			seenFn[fn] = true
			instrsOf(fn, func(in ssa.Instruction) {
				var base ssa.Value
				var fname string
				switch x := in.(type) {
				case *ssa.Field:
					base, fname = x.X, fieldName(x.X.Type(), x.Field)
				case *ssa.FieldAddr:
					base, fname = x.X, fieldName(x.X.Type(), x.Field)
				case ssa.CallInstruction:
					if cal := x.Common().StaticCallee(); cal != nil && isRepoFunc(cal) && cal.Signature.Recv() != nil && strings.HasSuffix(cal.Signature.Recv().Type().String(), "transaction.Transaction") {
						visit(cal, depth+1)
					}
					return
				default:
					return
				}
				if !strings.HasSuffix(deref(base.Type()).String(), "transaction.Transaction") {
					return
				}
				if fname != "Data" && fname != "Spice" {
					other += " " + shortFn(fn) + " reads ." + fname + " at " + lineOf(w, in) + ";"
				}
			})
		}
		visit(pf, 0)
		r.check(other == "", "empty-means-no-data-and-no-spice", name, w.Pos(pf.Pos()), "the predicate depends on Data and Spice only", other)
	}
	// the entries evaluate the genesis guard when DagLoaded() says so: whatever makes it true comes after the genesis
	// wallet was recorded
	r.rule("loaded-implies-genesis-known", "in LoadDag and CreateGenesis no write that turns the loaded flag on is followed, in a later block, by the assignment of genesisPublicAddress (a flag claimed early lets the guard compare against the empty address)", 2)
	for _, name := range []string{"LoadDag", "CreateGenesis"} {
		f := w.fx(r, "accountant", "AccountingBook", name)
		if f == nil {
			continue
		}
		for _, g := range WithAnon(f.fn) {
			var gen []ssa.Instruction
			for _, st := range storesToField(g, "genesisPublicAddress") {
				gen = append(gen, st)
			}
			var on []ssa.Instruction
			instrsOf(g, func(in ssa.Instruction) {
				switch x := in.(type) {
				case *ssa.Store:
					if fa, ok := x.Addr.(*ssa.FieldAddr); ok && fieldName(fa.X.Type(), fa.Field) == "dagLoaded" {
						if b, isB := boolConst(x.Val); !isB || b {
							on = append(on, x)
						}
					}
				case ssa.CallInstruction:
					n := calleeName(x)
					if !strings.HasPrefix(n, "(*sync/atomic.Bool).") {
						return
					}
					recv, a := callArgs(x)
					fa, ok := strip(recv).(*ssa.FieldAddr)
					if !ok || fieldName(fa.X.Type(), fa.Field) != "dagLoaded" {
						return
					}
					switch {
					case strings.HasSuffix(n, ".Store") || strings.HasSuffix(n, ".Swap"):
						if b, isB := boolConst(a[0]); !isB || b {
							on = append(on, x)
						}
					case strings.HasSuffix(n, ".CompareAndSwap"):
						if b, isB := boolConst(a[1]); !isB || b {
							on = append(on, x)
						}
					}
				}
			})
			for _, o := range on {
				// no way from the flag going on to a (later) assignment of the genesis address, except inside the one
				// straight-line block that does both under the ledger lock
				early := false
				after := reachable(o.Block().Succs, nil)
				for _, gs := range gen {
					if gs.Block() != o.Block() && after[gs.Block()] {
						early = true
					}
				}
				r.check(!early && len(gen) > 0, "loaded-implies-genesis-known", name+"/flag-on", lineOf(w, o), "the loaded flag goes on after the genesis wallet is known", "the flag is turned on on a path that assigns the genesis address only later: meanwhile the genesis guard compares against the empty address")
			}
		}
	}
	type guard struct {
		label string
		edges gspec
	}
	pathIsR := func(res resolver, p string) func(ssa.Value) bool {
		return func(v ssa.Value) bool { return res(v) == bp(p) }
	}
	isEmptyFalse := func(recvPath string) gspec {
		return func(fn *ssa.Function, res resolver) []Edge {
			var es []Edge
			for _, c := range callsTo(fn, cn("transaction", "Transaction", "IsEmpty")) {
				recv, _ := callArgs(c)
				if res(recv) == bp(recvPath) {
					es = append(es, passBool(c, 0, false)...)
				}
			}
			return es
		}
	}
	dagLoaded := func(fn *ssa.Function, _ resolver) []Edge {
		var es []Edge
		for _, c := range callsTo(fn, cn("accountant", "*AccountingBook", "DagLoaded")) {
			es = append(es, passBool(c, 0, true)...)
		}
		return es
	}
	signerAddr := isCallTo(").Address")
	r.rule("sealing-guards", "the protected effect lies behind the rejecting edge of every sealing rule of its entry point (operands bound by access path; guards and effect may sit in helpers)", 8)
	table := []struct {
		fn     string
		effect string // callee of the protected call
		guards []guard
	}{
		{"CreateLeaf", nAddVertexByID, []guard{
			{"transaction not empty", isEmptyFalse("trx")},
			{"issuer != sealing node", func(fn *ssa.Function, res resolver) []Edge {
				return cmpEdges(fn, pathIsR(res, "trx.IssuerAddress"), signerAddr, false)
			}},
			{"issuer != genesis wallet", func(fn *ssa.Function, res resolver) []Edge {
				return cmpEdges(fn, pathIsR(res, "trx.IssuerAddress"), pathIsR(res, "ab.genesisPublicAddress"), false)
			}},
			{"DAG loaded", dagLoaded},
		}},
		{"AddLeaf", cn("accountant", "*AccountingBook", "addLeafMemorized"), []guard{
			{"leaf != nil", func(fn *ssa.Function, res resolver) []Edge {
				return edgesWhere(fn, func(f fact) bool { return f.kind == fNotNil && res(f.x) == bp("leaf") })
			}},
			{"issuer != sealing node of the vertex", func(fn *ssa.Function, res resolver) []Edge {
				return cmpEdges(fn, pathIsR(res, "leaf.Transaction.IssuerAddress"), pathIsR(res, "leaf.SignerPublicAddress"), false)
			}},
			{"transaction not empty", isEmptyFalse("leaf.Transaction")},
			{"DAG loaded", dagLoaded},
		}},
		{"addLeafMemorized", nAddVertexByID, []guard{
			{"issuer != genesis wallet", func(fn *ssa.Function, res resolver) []Edge {
				return cmpEdges(fn, pathIsR(res, "m.vrx.Transaction.IssuerAddress"), pathIsR(res, "ab.genesisPublicAddress"), false)
			}},
		}},
		{"CreateGenesis", nAddVertexByID, []guard{
			{"genesis receiver != genesis issuer", func(fn *ssa.Function, _ resolver) []Edge {
				return cmpEdges(fn, genesisReceiverUsed(fn), signerAddr, false)
			}},
		}},
	}
	for _, row := range table {
		f := w.fx(r, "accountant", "AccountingBook", row.fn)
		if f == nil {
			continue
		}
		spec := map[string]string{"ab": "recv"}
		switch row.fn {
		case "CreateLeaf":
			spec["trx"] = "param:2"
		case "AddLeaf":
			spec["leaf"] = "param:2"
		case "addLeafMemorized":
			spec["m"] = "param:2"
		case "CreateGenesis":
			spec["receiverPublicAddress"] = "param:4"
		}
		curBinder = bindNames(f.fn, spec)
		effs := deepCalls(f.fn, byName(row.effect), deepDepth)
		if len(effs) == 0 {
			r.bad("sealing-guards", row.fn+"/effect", w.Pos(f.fn.Pos()), "protected effect must exist", "no call of "+row.effect)
			continue
		}
		for _, eff := range effs {
			for _, g := range row.guards {
				es := g.edges(f.fn, idRes)
				r.check(behindDeepSite(eff, g.edges), "sealing-guards", row.fn+"/"+g.label, lineOf(w, eff.c), shortCallee(eff.c)+" only behind: "+g.label,
					fmt.Sprintf("effect reachable without crossing the rejecting edge (%d candidate edges in %s itself)", len(es), row.fn))
			}
		}
	}
	// binding of the admitted value: AddLeaf hands the guarded leaf itself to the admission path
	if f := w.fx(r, "accountant", "AccountingBook", "AddLeaf"); f != nil {
		for _, c := range f.calls(cn("accountant", "*AccountingBook", "addLeafMemorized")) {
			_, a := callArgs(c)
			ok := false
			if nm, isCall := strip(a[1]).(*ssa.Call); isCall && calleeName(nm) == cn("accountant", "", "newMemory") {
				ok = pathOf(nm.Call.Args[0]) == f.fn.Params[2].Name()
			}
			r.check(ok, "sealing-guards", "AddLeaf/admits-the-guarded-leaf", lineOf(w, c), "the vertex handed to admission is the one the guards looked at", "argument is "+pathOf(a[1]))
		}
	}
	if f := w.fx(r, "accountant", "", "newMemory"); f != nil {
		ok := false
		for _, ret := range returnsOf(f.fn) {
			if strings.Contains(fmt.Sprint(ret.Results[0]), "") {
				for _, o := range origins(ret.Results[0]) {
					_ = o
				}
			}
		}
		// struct literal: field vrx is stored from the parameter
		instrsOf(f.fn, func(in ssa.Instruction) {
			if st, ok2 := in.(*ssa.Store); ok2 && strings.HasSuffix(pathOf(st.Addr), ".vrx") && pathOf(st.Val) == f.fn.Params[0].Name() {
				ok = true
			}
		})
		r.check(ok, "sealing-guards", "newMemory/wraps-its-argument", w.Pos(f.fn.Pos()), "memory.vrx is the vertex passed in", "vrx not stored from the parameter")
	}

	// sync guard
	r.rule("sync-guards", "LoadDag: a second self-sealed vertex and an empty transaction each lead to cancel; loaded flag unreachable after cancel (see C14)", 2)
	syncGuardObligations(w, r, "sync-guards")

	// closure facts
	r.rule("who-may-call", "AddVertexByID only from the four admission functions; addLeafMemorized only from AddLeaf and runLeafSubscriber; buffer.insert only from addLeafMemorized", 3)
	// callers are resolved to the entry functions they are reached from: an unexported helper that is only
	// called (never used as a value) counts as its own callers, so extracting part of an admission function
	// into a helper does not add a caller
	ownerOf := func(fn *ssa.Function) *ssa.Function {
		for fn.Parent() != nil {
			fn = fn.Parent()
		}
		return fn
	}
	usedAsValue := func(target *ssa.Function) bool {
		used := false
		for _, fn := range w.RepoFuncs("accountant") {
			instrsOf(fn, func(in ssa.Instruction) {
				for _, op := range in.Operands(nil) {
					if *op == ssa.Value(target) {
						if c, ok := in.(ssa.CallInstruction); ok && c.Common().Value == ssa.Value(target) {
							continue
						}
						used = true
					}
				}
			})
		}
		return used
	}
	var callersOfWant func(match func(ssa.CallInstruction) bool, want map[string]bool, depth int) []string
	callersOfWant = func(match func(ssa.CallInstruction) bool, want map[string]bool, depth int) []string {
		var out []string
		for _, fn := range w.RepoFuncs("accountant") {
			n := 0
			instrsOf(fn, func(in ssa.Instruction) {
				if c, ok := in.(ssa.CallInstruction); ok && match(c) {
					n++
				}
			})
			if n == 0 {
				continue
			}
			top := ownerOf(fn)
			if want[refName(top)] || depth >= 3 || top.Object() == nil || top.Object().Exported() || usedAsValue(top) {
				out = append(out, refName(top))
				continue
			}
			up := callersOfWant(func(c ssa.CallInstruction) bool { return c.Common().StaticCallee() == top }, want, depth+1)
			if len(up) == 0 {
				out = append(out, refName(top))
			}
			out = append(out, up...)
		}
		return uniqStrings(out)
	}
	callersOf := func(callee string, want []string) []string {
		wm := map[string]bool{}
		for _, x := range want {
			wm[x] = true
		}
		return callersOfWant(func(c ssa.CallInstruction) bool { return calleeName(c) == callee }, wm, 0)
	}
	for _, row := range []struct {
		callee string
		want   []string
	}{
		{nAddVertexByID, []string{"CreateGenesis", "CreateLeaf", "LoadDag", "addLeafMemorized"}},
		{cn("accountant", "*AccountingBook", "addLeafMemorized"), []string{"AddLeaf", "runLeafSubscriber"}},
		{cn("accountant", "*buffer", "insert"), []string{"addLeafMemorized"}},
		{dagM("AddVertex"), nil},
	} {
		got := callersOf(row.callee, row.want)
		r.check(strings.Join(got, ",") == strings.Join(row.want, ","), "who-may-call", row.callee[strings.LastIndex(row.callee, ".")+1:], "-",
			"callers are exactly "+strings.Join(row.want, ","), "callers are "+strings.Join(got, ","))
	}
	// the function value must not escape either
	for _, name := range []string{"addLeafMemorized"} {
		target := w.Func("accountant", "AccountingBook", name)
		esc := 0
		for _, fn := range w.RepoFuncs("accountant") {
			instrsOf(fn, func(in ssa.Instruction) {
				for _, op := range in.Operands(nil) {
					if *op == ssa.Value(target) {
						if c, ok := in.(ssa.CallInstruction); ok && c.Common().Value == ssa.Value(target) {
							continue
						}
						esc++
					}
				}
			})
		}
		r.check(esc == 0, "who-may-call", name+"/not-a-value", "-", "the admission function is never used as a value (no hidden callers)", fmt.Sprintf("%d value uses", esc))
	}
}

func cancelCallBlocks(fn *ssa.Function) map[*ssa.BasicBlock]bool {
	out := map[*ssa.BasicBlock]bool{}
	if len(fn.Params) < 2 {
		return out
	}
	instrsOf(fn, func(in ssa.Instruction) {
		if c, ok := in.(*ssa.Call); ok && c.Call.Value == ssa.Value(fn.Params[1]) {
			out[c.Block()] = true
		}
	})
	return out
}

func storesToField(fn *ssa.Function, field string) []*ssa.Store {
	var out []*ssa.Store
	instrsOf(fn, func(in ssa.Instruction) {
		if st, ok := in.(*ssa.Store); ok {
			if fa, ok := st.Addr.(*ssa.FieldAddr); ok && fieldName(fa.X.Type(), fa.Field) == field {
				out = append(out, st)
			}
		}
	})
	return out
}

// leadsOnlyToCancel: every path from edge e reaches a block with a cancel call before any exit and
// never a loaded-flag store.
func leadsOnlyToCancel(e Edge, cancel map[*ssa.BasicBlock]bool, loaded []*ssa.Store) bool {
	ok := true
	seen := map[*ssa.BasicBlock]bool{}
	var visit func(b *ssa.BasicBlock)
	visit = func(b *ssa.BasicBlock) {
		if seen[b] || !ok {
			return
		}
		seen[b] = true
		if cancel[b] {
			return
		}
		for _, st := range loaded {
			if st.Block() == b {
				ok = false
			}
		}
		if len(b.Succs) == 0 {
			ok = false // exit without cancel
			return
		}
		for _, s := range b.Succs {
			visit(s)
		}
	}
	visit(e.To())
	return ok
}

// ---------------------------------------------------------------------------------------------

func runC13(w *World, r *Report) {
	r.NotDecided = []string{"convergence of every delivery permutation to the parents-first ledger", "the 2-second ticker and the buffer's ordering quality (its comparator compares a with a; harmless for admission)", "gossip-side fetching of missing parents"}
	f := w.fx(r, "accountant", "AccountingBook", "addLeafMemorized")
	if f == nil {
		return
	}
	fn := f.fn
	r.rule("park-on-missing-parent", "on the not-found edge of a declared parent every path calls repeater.insert(m) and returns ErrParentDoesNotExists (ErrLeafRejected if parking failed) without touching DAG or index", 3)
	adds := deepCalls(fn, byName(nAddVertexByID), deepDepth)
	v := ""
	if len(adds) == 1 {
		_, aa := callArgs(adds[0].c)
		v = adds[0].path(aa[1])
	}
	nG := 0
	for _, gd := range deepCalls(fn, byName(nGetVertex), deepDepth) {
		g := gd.c
		_, ga := callArgs(g)
		if strings.Join(hashElemOriginsD(gd, ga[0]), ",") != v+".LeftParentHash,"+v+".RightParentHash" {
			continue
		}
		gFrame := frameFor(fn, gd.chain)
		nG++
		mutations, noInsert, wrongRet := 0, 0, 0
		mName := fn.Params[2].Name()
		isPark := func(in ssa.Instruction, fr *frame) bool {
			c, ok := in.(ssa.CallInstruction)
			if !ok || calleeName(c) != cn("accountant", "*buffer", "insert") {
				return false
			}
			_, ia := callArgs(c)
			return fr.cx.res(ia[0]) == mName
		}
		type parkSite struct {
			c  ssa.CallInstruction
			fr *frame
		}
		var parks []parkSite
		for _, fe := range failErrNonNil(g) {
			// every path (followed into helpers): insert(m) before the function returns; returns are the two
			// sentinels; no DAG/index mutation
			dw := newDeepWalk(func(in ssa.Instruction, fr *frame) bool {
				if c, ok := in.(ssa.CallInstruction); ok {
					switch calleeName(c) {
					case nAddVertexByID, nAddEdge, nDeleteVertex, nSaveTrx, nRemoveTrx:
						mutations++
					}
				}
				if isPark(in, fr) {
					parks = append(parks, parkSite{in.(ssa.CallInstruction), fr})
				}
				if ret, ok := in.(*ssa.Return); ok && fr.top() {
					d := describeExitDeep(ret, fr)
					if d != "return ErrParentDoesNotExists" && d != "return ErrLeafRejected" {
						wrongRet++
					}
				}
				return false
			})
			dw.run(gFrame, fe.To(), 0)
			dw = newDeepWalk(func(in ssa.Instruction, fr *frame) bool {
				if isPark(in, fr) {
					return true
				}
				if _, ok := in.(*ssa.Return); ok && fr.top() {
					noInsert++
				}
				return false
			})
			dw.run(gFrame, fe.To(), 0)
		}
		// parked successfully → the caller must be told the parent is missing; ErrLeafRejected only when the buffer refused
		for _, pk := range parks {
			for _, side := range []struct {
				edges []Edge
				want  string
			}{{passErrNil(pk.c), "return ErrParentDoesNotExists"}, {failErrNonNil(pk.c), "return ErrLeafRejected"}} {
				for _, e := range side.edges {
					dw := newDeepWalk(func(in ssa.Instruction, fr *frame) bool {
						if ret, ok := in.(*ssa.Return); ok && fr.top() {
							if describeExitDeep(ret, fr) != side.want {
								wrongRet++
							}
						}
						return false
					})
					dw.run(pk.fr, e.To(), 0)
				}
			}
		}
		if len(parks) == 0 {
			noInsert++
		}
		r.check(len(failErrNonNil(g)) > 0 && noInsert == 0, "park-on-missing-parent", "addLeafMemorized/insert", lineOf(w, g), "every path from the not-found edge parks the vertex (insert(m)) before returning", fmt.Sprintf("%d returns reachable without insert", noInsert))
		r.check(mutations == 0, "park-on-missing-parent", "addLeafMemorized/no-mutation", lineOf(w, g), "the not-found branch touches neither DAG nor index", fmt.Sprintf("%d mutating calls reachable", mutations))
		r.check(wrongRet == 0, "park-on-missing-parent", "addLeafMemorized/reported", lineOf(w, g), "the caller is told: ErrParentDoesNotExists when parked, ErrLeafRejected when the buffer refused", fmt.Sprintf("%d other returns", wrongRet))
	}
	if nG == 0 {
		r.bad("park-on-missing-parent", "addLeafMemorized/lookup", w.Pos(fn.Pos()), "parent lookup anchor", "not found")
	}

	r.rule("buffer-bounds", "buffer.insert: append lies behind len(members) != maxArraySize and repeated <= maxRepeats; the retry counter is incremented before the append", 3)
	if bi := w.fx(r, "accountant", "buffer", "insert"); bi != nil {
		var app *ssa.Call
		instrsOf(bi.fn, func(in ssa.Instruction) {
			if c, ok := in.(*ssa.Call); ok {
				if b, ok := c.Call.Value.(*ssa.Builtin); ok && b.Name() == "append" {
					app = c
				}
			}
		})
		if app == nil {
			r.bad("buffer-bounds", "insert/append", w.Pos(bi.fn.Pos()), "append anchor", "not found")
		} else {
			// the two bounds may be tested in insert itself or by a bool helper that returns the comparison
			// (`if b.full()`, `case exhausted(m)`): the helper's returned expression is looked at in its place
			condOf := func(v ssa.Value) (ssa.Value, bool) {
				neg := false
				for i := 0; i < 4; i++ {
					switch x := v.(type) {
					case *ssa.UnOp:
						if x.Op == token.NOT {
							neg = !neg
							v = x.X
							continue
						}
					case *ssa.Call:
						if h := samePkgHelper(bi.fn, x); h != nil {
							if rets := returnsOf(h); len(rets) == 1 && len(rets[0].Results) == 1 {
								v = rets[0].Results[0]
								continue
							}
						}
					}
					break
				}
				return v, neg
			}
			var sizeE, repE []Edge
			for _, b := range bi.fn.Blocks {
				if len(b.Instrs) == 0 || len(b.Succs) != 2 {
					continue
				}
				iff, ok := b.Instrs[len(b.Instrs)-1].(*ssa.If)
				if !ok {
					continue
				}
				cv, neg := condOf(iff.Cond)
				bo, ok := cv.(*ssa.BinOp)
				if !ok {
					continue
				}
				// len(members) ==/!= positive constant
				if bo.Op == token.EQL || bo.Op == token.NEQ {
					px, _, okx := lenExpr(bo.X)
					py, _, oky := lenExpr(bo.Y)
					c1, isC1 := intConst(bo.X)
					c2, isC2 := intConst(bo.Y)
					if (okx && strings.HasSuffix(px, ".members") && isC2 && c2 > 0) || (oky && strings.HasSuffix(py, ".members") && isC1 && c1 > 0) {
						notFullOnTrue := (bo.Op == token.NEQ) != neg
						if notFullOnTrue {
							sizeE = append(sizeE, Edge{b, 0})
						} else {
							sizeE = append(sizeE, Edge{b, 1})
						}
					}
				}
				// repeated > / >= constant: the append lies on the other side
				if bo.Op == token.GTR || bo.Op == token.GEQ {
					if _, isC := intConst(bo.Y); isC && strings.HasSuffix(pathOf(bo.X), ".repeated") {
						if neg {
							repE = append(repE, Edge{b, 0})
						} else {
							repE = append(repE, Edge{b, 1})
						}
					}
				}
			}
			r.check(behind(app, sizeE), "buffer-bounds", "insert/size-bound", lineOf(w, app), "append only when len(members) != maxArraySize (constant bound)", "no dominating size test")
			r.check(behind(app, repE), "buffer-bounds", "insert/retry-bound", lineOf(w, app), "append only when repeated <= maxRepeats", "no dominating retry test")
			// increment before append: a store to m.repeated of (load + 1) dominates the append and the appended value is loaded afterwards
			inc := false
			instrsOf(bi.fn, func(in ssa.Instruction) {
				if st, ok := in.(*ssa.Store); ok && strings.HasSuffix(pathOf(st.Addr), ".repeated") {
					if bo, ok := st.Val.(*ssa.BinOp); ok && bo.Op == token.ADD {
						if st.Block().Dominates(app.Block()) {
							inc = true
						}
					}
				}
			})
			r.check(inc, "buffer-bounds", "insert/increment-first", lineOf(w, app), "the retry counter is incremented before the vertex is parked again", "no dominating increment")
			// insert is the only way into the list: a second door would park without counting
			extra := ""
			for _, g := range w.RepoFuncs("accountant") {
				if g == bi.fn {
					continue
				}
				instrsOf(g, func(in ssa.Instruction) {
					if c, ok := in.(*ssa.Call); ok {
						if b, ok := c.Call.Value.(*ssa.Builtin); ok && b.Name() == "append" && len(c.Call.Args) > 0 && strings.HasSuffix(pathOf(c.Call.Args[0]), ".members") && strings.Contains(c.Call.Args[0].Type().String(), "memory") {
							extra += " " + shortFn(g) + " appends to the parked list at " + lineOf(w, c) + ";"
						}
					}
				})
			}
			r.check(extra == "", "buffer-bounds", "insert/only-door", lineOf(w, app), "the parked list grows only through insert (bounded size, counted retries)", extra)
			// parked means parked: insert reports success only when the vertex went into the list (the caller answers
			// "parent unknown, will retry" on the strength of it; a success that parks nothing loses the vertex for good)
			silent := 0
			for _, ret := range returnsOf(bi.fn) {
				if successReturn(ret) && !app.Block().Dominates(ret.Block()) {
					silent++
				}
			}
			r.check(silent == 0, "buffer-bounds", "insert/success-means-parked", lineOf(w, app), "every successful return of insert has appended the vertex", fmt.Sprintf("%d successful returns are reachable without the append", silent))
		}
	}

	// gossip side: ask peers for the missing parents, with a bounded number of fetch slots that are always released
	if gp := w.Pkg("gossip"); gp != nil {
		r.rule("fetch-missing-parents", "on ErrParentDoesNotExists the gossip side starts a fetch for the left parent and, when different, the right parent; a fetch slot taken is released on every path", 3)
		for _, name := range []string{"sendToAccountant", "processLackingParent"} {
			gf := w.fx(r, "gossip", "gossiper", name)
			if gf == nil {
				continue
			}
			sentinel := func(fn2 *ssa.Function, _ resolver) []Edge {
				var es []Edge
				for _, c := range callsTo(fn2, "errors.Is") {
					if describeErrVal(c.Common().Args[1]) == "ErrParentDoesNotExists" {
						es = append(es, passBool(c, 0, true)...)
					}
				}
				return es
			}
			var parents []string
			okGo := false
			for _, d := range deepCalls(gf.fn, func(c ssa.CallInstruction) bool {
				_, isGo := c.(*ssa.Go)
				return isGo && strings.HasSuffix(calleeName(c), ").processLackingParent")
			}, deepDepth) {
				okGo = behindDeepSite(d, sentinel)
				_, a := callArgs(d.c)
				for _, o := range origins(a[1]) {
					parents = append(parents, pathOf(o))
				}
			}
			parents = uniqStrings(parents)
			hasL, hasR := false, false
			for _, p := range parents {
				if strings.HasSuffix(p, ".LeftParentHash") {
					hasL = true
				}
				if strings.HasSuffix(p, ".RightParentHash") {
					hasR = true
				}
			}
			r.check(okGo && hasL && hasR, "fetch-missing-parents", name+"/both-parents", w.Pos(gf.fn.Pos()), "a fetch is started for both declared parents behind errors.Is(err, ErrParentDoesNotExists)", fmt.Sprintf("behind-sentinel=%v fetched=%v", okGo, parents))
		}
		if gf := w.fx(r, "gossip", "gossiper", "processLackingParent"); gf != nil {
			var incs, decs []ssa.CallInstruction
			for _, c := range callsBySuffix(gf.fn, "atomic.Int32).Add") {
				_, a := callArgs(c)
				if k, ok := intConst(a[0]); ok && k > 0 {
					incs = append(incs, c)
				} else if ok && k < 0 {
					decs = append(decs, c)
				}
			}
			leaks := 0
			for _, inc := range incs {
				leaks += len(exitsAvoiding(inc, nil, func(in ssa.Instruction) bool {
					for _, d := range decs {
						if in == d.(ssa.Instruction) {
							return true
						}
					}
					return false
				}))
			}
			r.check(len(incs) == 1 && len(decs) >= 1 && leaks == 0, "fetch-missing-parents", "processLackingParent/slot-released", w.Pos(gf.fn.Pos()), "the in-flight counter is decremented on every path after it was incremented", fmt.Sprintf("increments=%d decrements=%d leaking exits=%d", len(incs), len(decs), leaks))
		}
	}

	r.rule("retry-order", "the retry order never prefers a newer parked vertex over an older one (a child retried before its parked parent starves the parent until the child's retries are exhausted)", 1)
	popFn, popSites := bufferPop(w)
	if popFn == nil {
		r.bad("retry-order", "buffer.getNext/comparator", "-", "the ticker loop takes parked vertices from the buffer through one method", "no *buffer method returning a parked record is called from buffer.run")
	}
	if popFn != nil {
		gn := &fx{w, r, popFn}
		r.seen(shortFn(popFn))
		verdict, why := "fifo", "no comparator: arrival order"
		for _, c := range gn.calls("slices.SortStableFunc", "slices.SortFunc", "sort.Slice", "sort.SliceStable") {
			for _, arg := range c.Common().Args {
				cmp := closureOf(arg)
				if cmp == nil || len(cmp.Params) != 2 {
					continue
				}
				pa, pb := cmp.Params[0].Name(), cmp.Params[1].Name()
				root := func(v ssa.Value) string {
					p := pathOf(v)
					if i := strings.Index(p, "."); i >= 0 {
						return p[:i]
					}
					return p
				}
				instrsOf(cmp, func(in ssa.Instruction) {
					tc, ok := in.(*ssa.Call)
					if !ok {
						return
					}
					n := calleeName(tc)
					if n != "(time.Time).Compare" && n != "(time.Time).Before" && n != "(time.Time).After" {
						return
					}
					x, y := root(tc.Call.Args[0]), root(tc.Call.Args[1])
					if x == y {
						return // compares a value with itself: no reordering (stable sort keeps arrival order)
					}
					switch n {
					case "(time.Time).Compare":
						// used as the comparator's result: X.Compare(Y) ascending iff X is the first parameter
						for _, ret := range returnsOf(cmp) {
							if sameVal(ret.Results[0], tc) && x == pb && y == pa {
								verdict, why = "newest-first", "comparator returns b.Compare(a): descending creation time"
							}
						}
					case "(time.Time).Before", "(time.Time).After":
						// `if X.Before(Y) { return -1 }` ascending iff X is a; `if X.After(Y) { return -1 }` descending
						for _, te := range passBool(tc, 0, true) {
							walkFrom(nil, te.To(), nil, func(x2 ssa.Instruction) bool {
								if ret, ok := x2.(*ssa.Return); ok {
									if k, isK := intConst(ret.Results[0]); isK && k < 0 {
										asc := (n == "(time.Time).Before" && x == pa) || (n == "(time.Time).After" && x == pb)
										if !asc {
											verdict, why = "newest-first", "comparator puts the later creation time first"
										}
									}
									return true
								}
								return false
							})
						}
					}
				})
			}
		}
		r.check(verdict != "newest-first", "retry-order", "buffer.getNext/comparator", w.Pos(gn.fn.Pos()), "parked vertices are retried in arrival order or oldest first", why)
	}

	// the retry bound is a time budget: one replay per tick. A second wake-up source (an admission, a signal) spends a
	// parked vertex's repetitions without any time having passed for its parent to arrive.
	r.rule("replays-are-paced-by-the-ticker", "the loop that pops parked vertices waits on the ticker and on the context only (plus sends): no other channel wakes it", 1)
	if br := w.Func("accountant", "buffer", "run"); br != nil {
		n, bad := 0, ""
		for _, g := range withHelpers(br, 1) {
			instrsOf(g, func(in ssa.Instruction) {
				sel, ok := in.(*ssa.Select)
				if !ok {
					return
				}
				for _, st := range sel.States {
					if st.Dir != types.RecvOnly {
						continue
					}
					n++
					p := pathOf(st.Chan)
					isTicker := strings.HasSuffix(p, ".C") && strings.Contains(baseOf(st.Chan).Type().String(), "time.Ticker")
					isCtx := false
					if c, ok := strip(st.Chan).(*ssa.Call); ok && strings.HasSuffix(calleeName(c), "context.Context).Done") {
						isCtx = true
					}
					if !isTicker && !isCtx {
						bad += " the select at " + lineOf(w, sel) + " also waits on " + p + ";"
					}
				}
			})
		}
		r.check(n >= 2 && bad == "", "replays-are-paced-by-the-ticker", "buffer.run", w.Pos(br.Pos()), "ticker and context are the only wake-up sources of the pop loop", bad)
	}

	r.rule("popped-is-published", "buffer.run publishes every parked vertex it pops: from getNext() every path to the next tick sends that value on the subscription channel, except when the buffer was empty", 1)
	if br := w.fx(r, "accountant", "buffer", "run"); br != nil {
		pops := popSites
		if len(pops) == 0 {
			r.bad("popped-is-published", "buffer.run/getNext", w.Pos(br.fn.Pos()), "the ticker loop pops parked vertices with getNext", "no such call")
		}
		for _, pc := range pops {
			pv := resultAt(pc, 0)
			if pv == nil {
				pv = callValue(pc)
			}
			host := pc.Parent() // buffer.run, or the method of the buffer that holds the body of its ticker arm
			empty := edgesWhere(host, func(ft fact) bool {
				if ft.kind == fFalse { // `v, ok := pop(); if !ok`
					if ex, isEx := strip(ft.x).(*ssa.Extract); isEx && ex.Tuple == callValue(pc) && ex.Index > 0 {
						return true
					}
				}
				if ft.kind != fIsNil {
					return false
				}
				// v.vrx == nil where v is the popped value (field read of the call result)
				switch x := strip(ft.x).(type) {
				case *ssa.Field:
					return sameVal(x.X, pv)
				case *ssa.UnOp:
					if fa, ok := x.X.(*ssa.FieldAddr); ok {
						for _, o := range origins(fa.X) {
							if sameVal(o, pv) {
								return true
							}
						}
						if al, ok := fa.X.(*ssa.Alloc); ok {
							for _, ref := range *al.Referrers() {
								if st, ok := ref.(*ssa.Store); ok && st.Addr == ssa.Value(al) && sameVal(st.Val, pv) {
									return true
								}
							}
						}
						return pathOf(fa.X) == pathOf(pv)
					}
				}
				return false
			})
			isPublish := passesDeep(host, idRes, func(in ssa.Instruction, _ resolver) bool {
				switch x := in.(type) {
				case *ssa.Send:
					return strings.HasSuffix(pathOf(x.Chan), ".pub")
				case *ssa.Select:
					for _, st := range x.States {
						if st.Dir == types.SendOnly && strings.HasSuffix(pathOf(st.Chan), ".pub") {
							return true
						}
					}
				}
				return false
			}, 1)
			dropped := 0
			walkFrom(pc.(ssa.Instruction), nil, edgeSet(empty), func(in ssa.Instruction) bool {
				if isPublish(in) {
					return true
				}
				switch x := in.(type) {
				case *ssa.Select:
					for _, st := range x.States {
						if st.Dir == types.RecvOnly {
							dropped++ // back at the tick without having published
							return true
						}
					}
				case *ssa.Return:
					dropped++
					return true
				case ssa.CallInstruction:
					if x == pc {
						dropped++
						return true
					}
				}
				return false
			})
			r.check(len(empty) > 0 && dropped == 0, "popped-is-published", "buffer.run/publish", lineOf(w, pc), "a popped vertex is always handed to the subscriber (only an empty pop is skipped)", fmt.Sprintf("%d ways from getNext() to the next tick without publishing; empty-pop edges=%d", dropped, len(empty)))
		}
	}

	handedOverVertexIsFresh(w, r, "handed-over-vertex-is-fresh")

	r.rule("replayed-vertex-verified", "a parked vertex re-enters through addLeafMemorized, where the insertion lies behind verify on every path — whatever the retry counter says", 1)
	gossipVerifyBeforeAdmit(w, r, "replayed-vertex-verified")

	r.rule("retry-reenters-admission", "the retry loop hands every parked vertex to addLeafMemorized and nothing else inserts into the DAG (closure facts of C10)", 2)
	if rl := w.fx(r, "accountant", "AccountingBook", "runLeafSubscriber"); rl != nil {
		cs := deepCalls(rl.fn, byName(cn("accountant", "*AccountingBook", "addLeafMemorized")), 1)
		ok := len(cs) == 1
		why := fmt.Sprintf("%d calls", len(cs))
		if ok {
			_, a := callArgs(cs[0].c)
			// the argument is what was received from the buffer's channel
			fromSub := false
			for _, o := range origins(cs[0].argValue(a[1])) {
				if ex, isEx := o.(*ssa.Extract); isEx {
					if sel, isSel := ex.Tuple.(*ssa.Select); isSel {
						for _, st := range sel.States {
							if c, isCall := strip(st.Chan).(*ssa.Call); isCall && strings.HasSuffix(calleeName(c), ".subscribe") {
								fromSub = true
							}
						}
					}
				}
			}
			ok = fromSub
			why = "argument does not originate from the buffer subscription"
		}
		r.check(ok, "retry-reenters-admission", "runLeafSubscriber", w.Pos(rl.fn.Pos()), "replayed vertices take the normal admission path", why)
		// the replay runs under the ledger's own long-lived context (that of the loop), not under one remembered from the
		// delivery: a request context is over when the delivery returned, and a cancelled validation deletes the parent
		for _, d := range cs {
			_, a := callArgs(d.c)
			own := len(rl.fn.Params) > 1 && len(a) > 0 && sameVal(d.argValue(a[0]), rl.fn.Params[1])
			r.check(own, "retry-reenters-admission", "runLeafSubscriber/replay-context", lineOf(w, d.c), "the replay is admitted under the subscriber loop's own context", "context argument is "+d.path(a[0]))
		}
		// every vertex taken from the buffer is replayed: between receiving it and waiting for the next one the loop passes
		// the admission call (only an empty pop — nil vertex — is skipped). A vertex that is put aside without a replay has
		// lost its wake-up: nothing else will try it again.
		if len(cs) == 1 {
			d := cs[0]
			_, a := callArgs(d.c)
			var recvAt ssa.Instruction
			for _, o := range origins(d.argValue(a[1])) {
				if ex, isEx := o.(*ssa.Extract); isEx {
					if _, isSel := ex.Tuple.(*ssa.Select); isSel {
						recvAt = ex
					}
				}
			}
			site := d.c.(ssa.Instruction)
			if len(d.chain) > 0 {
				site = d.chain[0].(ssa.Instruction)
			}
			if recvAt != nil && recvAt.Parent() == site.Parent() {
				fnR := recvAt.Parent()
				var emptyPop []Edge
				for _, b := range fnR.Blocks {
					for i := range b.Succs {
						for _, ft := range edgeFacts(Edge{b, i}) {
							if ft.kind == fIsNil && strings.HasSuffix(pathOf(ft.x), ".vrx") {
								emptyPop = append(emptyPop, Edge{b, i})
							}
						}
					}
				}
				lost := 0
				sel := recvAt.(*ssa.Extract).Tuple.(*ssa.Select)
				walkFrom(recvAt, nil, edgeSet(emptyPop), func(x ssa.Instruction) bool {
					if x == site {
						return true
					}
					if x == ssa.Instruction(sel) {
						lost++
						return true
					}
					if _, isRet := x.(*ssa.Return); isRet {
						lost++
						return true
					}
					return false
				})
				r.check(lost == 0, "retry-reenters-admission", "runLeafSubscriber/received-is-replayed", lineOf(w, recvAt), "every vertex received from the buffer goes through the admission before the next one is awaited", fmt.Sprintf("%d ways from the receive to the next wait (or out) without replaying the vertex", lost))
			}
		}
		// neither the DAG nor the transaction index is touched by the retry loop itself (or by helpers it calls
		// beside the admission): whatever a replay returns, the state of admitted vertices belongs to the admission path
		admission := cn("accountant", "*AccountingBook", "addLeafMemorized")
		direct := 0
		where := ""
		for _, d := range deepCalls(rl.fn, byName(nAddVertexByID, nAddEdge, nDeleteVertex, nRemoveTrx, nSaveTrx), deepDepth) {
			through := false
			for _, cs := range d.chain {
				if calleeName(cs) == admission {
					through = true
				}
			}
			if !through {
				direct++
				where += " " + shortCallee(d.c) + "@" + lineOf(w, d.c)
			}
		}
		r.check(direct == 0, "retry-reenters-admission", "runLeafSubscriber/no-direct-insert", w.Pos(rl.fn.Pos()), "the retry loop never touches the DAG or the transaction index itself", fmt.Sprintf("%d direct calls:%s", direct, where))
	}
}

// ---------------------------------------------------------------------------------------------

func runC14(w *World, r *Report) {
	r.NotDecided = []string{"equality of vertex sets / parent links with the peer", "equality of balances and of follow-up accept/reject behaviour", "syncing from a truncated peer (AddEdge to a checkpointed parent fails: sync aborts)", "stream order produced by the peer"}
	f := w.fx(r, "accountant", "AccountingBook", "LoadDag")
	if f == nil {
		return
	}
	fn := f.fn
	cancel := cancelCallBlocks(fn)
	loaded := storesToField(fn, "dagLoaded")
	r.rule("loaded-flag-last", "the store dagLoaded = true is not reachable from any cancel call", 5)
	if len(loaded) != 1 {
		r.bad("loaded-flag-last", "LoadDag/dagLoaded", w.Pos(fn.Pos()), "exactly one store to dagLoaded", fmt.Sprintf("%d", len(loaded)))
		return
	}
	n := 0
	for b := range cancel {
		n++
		reach := reachable([]*ssa.BasicBlock{b}, nil)
		r.check(!reach[loaded[0].Block()], "loaded-flag-last", "LoadDag/cancel@"+blockCancelDesc(w, b), w.Pos(b.Instrs[0].Pos()), "after cancel the node is never marked loaded", "dagLoaded store reachable after this cancel")
	}
	r.Extra["cancel_sites"] = n
	// the store writes the constant true
	c, isC := loaded[0].Val.(*ssa.Const)
	r.check(isC && c.Value != nil && c.Value.String() == "true", "loaded-flag-last", "LoadDag/stores-true", lineOf(w, loaded[0]), "flag is set to true", "stored value is not the constant true")

	r.rule("failure-leads-to-cancel", "every failing step of the load leads to cancel before any exit: saveTrxInVertex, AddVertexByID, AddEdge, nil vertex, wrong type, no root", 3)
	for _, callee := range []string{nSaveTrx, nAddVertexByID, nAddEdge} {
		for _, d := range deepCalls(fn, byName(callee), deepDepth) {
			c := d.c
			// in a helper: the step's failure makes the helper fail (or the helper hands the step's result on) …
			ok := true
			at := c
			for lvl := len(d.chain); lvl > 0; lvl-- {
				hfn := at.Parent()
				propagated := false
				for _, ret := range returnsOf(hfn) {
					vals, _ := resultVals(ret, len(ret.Results)-1)
					for _, v := range vals {
						if ev := errResult(at); ev != nil && sameVal(v, ev) {
							propagated = true
						}
					}
				}
				fes := failErrNonNil(at)
				if len(fes) == 0 && !propagated {
					ok = false
				}
				for _, fe := range fes {
					walkFrom(nil, fe.To(), nil, func(x ssa.Instruction) bool {
						if ret, isRet := x.(*ssa.Return); isRet {
							if successReturn(ret) {
								ok = false
							}
							return true
						}
						return false
					})
				}
				at = d.chain[lvl-1]
			}
			// … and in LoadDag itself the failure leads to cancel
			if len(failErrNonNil(at)) == 0 {
				ok = false
			}
			for _, fe := range failErrNonNil(at) {
				if !leadsOnlyToCancel(fe, cancel, loaded) {
					ok = false
				}
			}
			r.check(ok, "failure-leads-to-cancel", "LoadDag/"+shortCallee(c), lineOf(w, c), "a failed "+shortCallee(c)+" aborts the load", "failure edge can reach an exit or the loaded flag without cancel")
		}
	}
	// roots: len(roots) == 0 → cancel
	okRoots := false
	for _, c := range f.calls(dagM("GetRoots")) {
		rv := callValue(c)
		for _, b := range fn.Blocks {
			for i := range b.Succs {
				for _, ft := range edgeFacts(Edge{b, i}) {
					if ft.kind == fEq {
						px, _, okx := lenExpr(ft.x)
						if k, isK := intConst(ft.y); okx && isK && k == 0 && rv != nil && px == pathOf(rv) {
							okRoots = leadsOnlyToCancel(Edge{b, i}, cancel, loaded)
						}
					}
				}
			}
		}
	}
	if !okRoots {
		// the roots are inspected by a helper: its len(roots) == 0 edge leads only to error returns, and the helper's
		// failure leads only to cancel in LoadDag
		for _, d := range deepCalls(fn, byName(dagM("GetRoots")), deepDepth) {
			if len(d.chain) == 0 {
				continue
			}
			h := d.c.Parent()
			rv := callValue(d.c)
			helperOK := false
			for _, b := range h.Blocks {
				for i := range b.Succs {
					for _, ft := range edgeFacts(Edge{b, i}) {
						if ft.kind != fEq {
							continue
						}
						px, _, okx := lenExpr(ft.x)
						if k, isK := intConst(ft.y); okx && isK && k == 0 && rv != nil && px == pathOf(rv) {
							helperOK = true
							walkFrom(nil, Edge{b, i}.To(), nil, func(x ssa.Instruction) bool {
								if ret, isRet := x.(*ssa.Return); isRet {
									if successReturn(ret) {
										helperOK = false
									}
									return true
								}
								return false
							})
						}
					}
				}
			}
			top := d.chain[0]
			callerOK := len(failErrNonNil(top)) > 0
			for _, fe := range failErrNonNil(top) {
				if !leadsOnlyToCancel(fe, cancel, loaded) {
					callerOK = false
				}
			}
			if helperOK && callerOK && len(d.chain) == 1 {
				okRoots = true
			}
		}
	}
	r.check(okRoots, "failure-leads-to-cancel", "LoadDag/no-root", w.Pos(fn.Pos()), "a stream without a root vertex aborts the load", "len(roots) == 0 does not lead to cancel")
	// already loaded → cancel
	okAlready := false
	for _, c := range f.calls(cn("accountant", "*AccountingBook", "DagLoaded")) {
		okAlready = true
		for _, te := range passBool(c, 0, true) {
			if !leadsOnlyToCancel(te, cancel, loaded) {
				okAlready = false
			}
		}
	}
	r.check(okAlready, "failure-leads-to-cancel", "LoadDag/already-loaded", w.Pos(fn.Pos()), "loading into a loaded node is refused", "DagLoaded() true edge does not lead to cancel")

	// serving side: the stream is complete or aborted, never silently partial
	r.rule("stream-complete", "StreamDAG: every vertex delivered by a walk is sent unless it is in the local visited set, and once a walk was abandoned (drained) nothing more is sent", 2)
	if sf := w.fx(r, "accountant", "AccountingBook", "StreamDAG"); sf != nil {
		for _, cl := range sf.fn.AnonFuncs {
			// the walk may sit in the goroutine itself or in a helper it calls per tip
			for _, d := range deepCalls(cl, byName(dagM("AncestorsWalker")), deepDepth) {
				wc := d.c
				host := wc.Parent()
				data := resultAt(wc, 0)
				recvs, _ := exhaustedEdges(host, data)
				isSendLocal := func(in ssa.Instruction, _ resolver) bool {
					switch x := in.(type) {
					case *ssa.Send:
						return !sameVal(x.Chan, data)
					case *ssa.Select:
						for _, st := range x.States {
							if st.Dir == types.SendOnly {
								return true
							}
						}
					}
					return false
				}
				// a call to a helper every path of which performs the send counts as the send
				isSend := passesDeep(host, idRes, isSendLocal, 1)
				for _, rv := range recvs {
					r.check(everyItemPasses(host, rv, isSend), "stream-complete", "StreamDAG/every-item-sent", lineOf(w, rv), "each walker item is sent (or skipped as already sent)", "a way back to the receive neither sends the vertex nor is the visited-set skip")
				}
				bad := 0
				instrsOf(host, func(in ssa.Instruction) {
					if !isDrainCallOf(in, data) {
						return
					}
					// from the drain onwards — through the helper's return into the goroutine, pruned by the value
					// it returns — no vertex is sent any more
					dw := newDeepWalk(func(x ssa.Instruction, fr *frame) bool {
						if x == in {
							return false
						}
						if isSendLocal(x, nil) {
							bad++
							return true
						}
						return false
					})
					dw.run(frameFor(cl, d.chain), in.Block(), indexIn(in.Block(), in)+1)
				})
				r.check(bad == 0, "stream-complete", "StreamDAG/abandoned-walk-aborts-stream", lineOf(w, wc), "after a walk was abandoned no further vertex is streamed", fmt.Sprintf("%d sends reachable after draining an abandoned walk: the stream would look complete while ancestors are missing", bad))
			}
		}
	}

	// every tip is walked: the loop over the tips ends because the tips are exhausted, the consumer went away, or a step
	// failed — not because a count says "that must have been all"
	r.rule("every-tip-is-walked", "in StreamDAG every branch that leaves the loop over dag.GetLeaves() is decided by the range itself (no more tips), by a select with a ctx.Done() arm, by the error of a call or by a failed type assertion: no exit depends on a computed quantity (a counter, a size)", 1)
	if sf := w.fx(r, "accountant", "AccountingBook", "StreamDAG"); sf != nil {
		nLoops := 0
		for _, g := range withHelpers(sf.fn, 1) {
			for _, cl := range WithAnon(g) {
				for _, hdr := range cl.Blocks {
					var next *ssa.Next
					for _, in := range hdr.Instrs {
						if nx, ok := in.(*ssa.Next); ok {
							if rg, ok := nx.Iter.(*ssa.Range); ok {
								for _, o := range origins(rg.X) {
									if oc, ok := o.(*ssa.Call); ok && calleeName(oc) == dagM("GetLeaves") {
										next = nx
									}
								}
							}
						}
					}
					if next == nil {
						continue
					}
					nLoops++
					inLoop := map[*ssa.BasicBlock]bool{}
					for _, b := range cl.Blocks {
						if onCycleWith(b, hdr) {
							inLoop[b] = true
						}
					}
					inLoop[hdr] = true
					bad := ""
					for b := range inLoop {
						iff, ok := b.Instrs[len(b.Instrs)-1].(*ssa.If)
						if !ok {
							continue
						}
						leaves := false
						for _, sc := range b.Succs {
							if !inLoop[sc] {
								leaves = true
							}
						}
						if !leaves {
							continue
						}
						okCond := false
						seen := map[ssa.Value]bool{}
						var walk func(v ssa.Value, d int)
						walk = func(v ssa.Value, d int) {
							if v == nil || seen[v] || d > 6 {
								return
							}
							seen[v] = true
							switch x := v.(type) {
							case *ssa.Extract:
								switch x.Tuple.(type) {
								case *ssa.Next, *ssa.Select, *ssa.TypeAssert:
									okCond = true
								}
								if isErrorType(x.Type()) {
									okCond = true
								}
							case *ssa.Call:
								if isErrorType(x.Type()) {
									okCond = true
								}
								// a helper that does the guarded send and reports whether the consumer is still there
								if cal := calleeOf(x); cal != nil && isRepoFunc(cal) && len(cal.Blocks) > 0 {
									instrsOf(cal, func(in ssa.Instruction) {
										if sel, ok := in.(*ssa.Select); ok && selectHasCtxArm(sel) {
											okCond = true
										}
									})
								}
							case *ssa.BinOp:
								walk(x.X, d+1)
								walk(x.Y, d+1)
							case *ssa.UnOp:
								walk(x.X, d+1)
							case *ssa.Phi:
								for _, e := range x.Edges {
									walk(e, d+1)
								}
							}
							if isErrorType(v.Type()) {
								okCond = true
							}
						}
						walk(iff.Cond, 0)
						if !okCond {
							bad += fmt.Sprintf(" the branch at %s leaves the loop over the tips on a computed condition;", lineOf(w, iff))
						}
					}
					r.check(bad == "", "every-tip-is-walked", shortFn(cl)+"/tips-loop", lineOf(w, next), "the tips loop ends only when the tips are exhausted, the consumer is gone or a step failed", bad+" tips that were not yet walked are left out of a stream that looks complete")
				}
			}
		}
		if nLoops == 0 {
			r.bad("every-tip-is-walked", "StreamDAG/tips-loop", w.Pos(sf.fn.Pos()), "the loop over dag.GetLeaves() is identifiable", "not found")
		}
	}

	r.rule("malformed-stream-refused", "a second self-sealed vertex and an empty transaction in the stream each lead to cancel (never to the loaded flag)", 2)
	syncGuardObligations(w, r, "malformed-stream-refused")

	reserveBeforeInsert(w, r, "duplicate-transaction-refused", "LoadDag", 1)
	linkSkipsArePerVertex(w, r, "link-skips-are-per-vertex")

	// what is streamed is one state of the ledger: the lock taken before the tips are listed is kept to the end
	r.rule("stream-is-one-snapshot", "the goroutine that serves StreamDAG releases the ledger lock only by its deferred unlock: between listing the tips and the last vertex sent the ledger cannot change", 1)
	if sd := w.fx(r, "accountant", "AccountingBook", "StreamDAG"); sd != nil {
		nLock, early := 0, ""
		for _, g := range withHelpers(sd.fn, 2) {
			for _, g2 := range WithAnon(g) {
				instrsOf(g2, func(in ssa.Instruction) {
					c, ok := in.(ssa.CallInstruction)
					if !ok {
						return
					}
					op, _, id, isLock := lockOp(c)
					if !isLock || !strings.HasSuffix(id, "AccountingBook.mux") {
						return
					}
					if op == "lock" {
						nLock++
						return
					}
					if _, deferred := c.(*ssa.Defer); !deferred && !runsOnlyDeferred(g2) {
						early += " " + shortFn(g2) + " releases the ledger lock at " + lineOf(w, c) + ";"
					}
				})
			}
		}
		r.check(nLock > 0 && early == "", "stream-is-one-snapshot", "StreamDAG/lock-kept", w.Pos(sd.fn.Pos()), "the ledger lock is held from the listing of the tips to the end of the stream", fmt.Sprintf("locks taken: %d;%s", nLock, early))
	}

	// what is streamed is read from the graph under the ledger lock of this very call
	r.rule("every-streamed-vertex-is-sent-under-the-ledger-lock", "in StreamDAG (its goroutine and helpers) every send of a vertex on the stream channel happens with AccountingBook.mux held: a vertex sent from anywhere else (a recorded earlier walk, a cache) is not part of the snapshot the lock protects", 1)
	if sd := w.fx(r, "accountant", "AccountingBook", "StreamDAG"); sd != nil {
		li14 := ComputeLocks(w, acctScope)
		nSend := 0
		for _, g := range withHelpers(sd.fn, 2) {
			for _, g2 := range WithAnon(g) {
				instrsOf(g2, func(in ssa.Instruction) {
					isVertexChan := func(ch ssa.Value) bool {
						ct, ok := ch.Type().Underlying().(*types.Chan)
						return ok && strings.HasSuffix(ct.Elem().String(), "accountant.Vertex")
					}
					sends := false
					switch x := in.(type) {
					case *ssa.Send:
						sends = isVertexChan(x.Chan)
					case *ssa.Select:
						for _, st := range x.States {
							if st.Dir == types.SendOnly && isVertexChan(st.Chan) {
								sends = true
							}
						}
					}
					if !sends {
						return
					}
					nSend++
					held := li14.At(in)
					r.check(held.Has(abMux, "R") || held.Has(abMux, "W"), "every-streamed-vertex-is-sent-under-the-ledger-lock", fmt.Sprintf("%s/send#%d", shortFn(sd.fn), nSend), lineOf(w, in),
						"the vertex is sent while the ledger lock is held", "lockset "+held.String()+": this send is outside the locked walk of the graph")
				})
			}
		}
	}

	// transport: a stream that broke is not mistaken for one that ended
	r.rule("transport-reports-failure", "serving handler: the error of stream.Send can reach the handler's result; loading client: the errors of stream.Recv and of the vertex mapping can reach updateDag's result (a broken stream is not reported as a clean end)", 2)
	transport := []struct{ fn, callee, what string }{
		{"LoadDag", "Send", "a vertex that could not be sent"},
		{"updateDag", "Recv", "a receive that failed"},
		{"updateDag", "mapProtoVertexToAccountantVertex", "a vertex that could not be decoded"},
	}
	for _, row := range transport {
		f := w.fx(r, "gossip", "gossiper", row.fn)
		if f == nil {
			continue
		}
		var sites []ssa.CallInstruction
		for _, d := range deepCalls(f.fn, func(c ssa.CallInstruction) bool {
			name := ""
			if c.Common().IsInvoke() {
				name = c.Common().Method.Name()
			} else if cal := c.Common().StaticCallee(); cal != nil {
				name = refName(cal)
			}
			return name == row.callee && errResult(c) != nil
		}, deepDepth) {
			sites = append(sites, d.c)
		}
		if len(sites) == 0 {
			r.bad("transport-reports-failure", row.fn+"/"+row.callee, w.Pos(f.fn.Pos()), "anchor call "+row.callee+" exists in "+row.fn, "not found")
			continue
		}
		for _, c := range sites {
			ev := errResult(c)
			flows := false
			for _, ret := range returnsOf(f.fn) {
				vals, _ := resultVals(ret, len(ret.Results)-1)
				for _, rv := range vals {
					for _, o := range originsDeep(rv, deepDepth) {
						if sameVal(o, ev) {
							flows = true
						}
					}
				}
			}
			r.check(flows, "transport-reports-failure", row.fn+"/"+row.callee, lineOf(w, c), row.what+" can be reported by "+row.fn, "the error of "+row.callee+" never reaches a return of "+row.fn+": the peer sees a clean end of a truncated stream")
		}
	}

	r.rule("genesis-from-root", "the genesis address stored by LoadDag is the issuer of a root vertex", 1)
	okGen := false
	for _, st := range storesToField(fn, "genesisPublicAddress") {
		// the stored value is <vertex>.Transaction.IssuerAddress (possibly handed back by a helper) and the vertex
		// originates from ranging GetRoots()
		for _, o := range originsDeep(st.Val, deepDepth) {
			ld, ok := o.(*ssa.UnOp)
			if !ok || !strings.HasSuffix(pathOf(o), ".Transaction.IssuerAddress") {
				continue
			}
			fa, ok := ld.X.(*ssa.FieldAddr)
			if !ok {
				continue
			}
			fa2, ok := fa.X.(*ssa.FieldAddr)
			if !ok {
				continue
			}
			for _, vo := range origins(fa2.X) {
				for _, ro := range rootedDeep(fn, vo) {
					if c, ok := ro.(*ssa.Call); ok && calleeName(c) == dagM("GetRoots") {
						okGen = true
					}
				}
			}
		}
	}
	r.check(okGen, "genesis-from-root", "LoadDag/genesisPublicAddress", w.Pos(fn.Pos()), "genesis wallet := issuer of a vertex obtained from GetRoots()", "stored value has another origin")
}

// rootedDeep: the origins of o; when o is a parameter of a helper of fn's package, the origins of the
// arguments passed for it at its call sites inside fn.
func rootedDeep(fn *ssa.Function, o ssa.Value) []ssa.Value {
	prm, ok := o.(*ssa.Parameter)
	if !ok || prm.Parent() == fn {
		return []ssa.Value{o}
	}
	h := prm.Parent()
	var out []ssa.Value
	for _, c := range helperCalls(fn) {
		if c.Common().StaticCallee() != h {
			continue
		}
		for k, p := range h.Params {
			if p == prm && k < len(c.Common().Args) {
				out = append(out, origins(c.Common().Args[k])...)
			}
		}
	}
	return out
}

// bufferPop: the method of the orphan buffer that the ticker loop (buffer.run) calls to take the next parked vertex — found
// by its role (a *buffer method called from run whose first result is the parked record), so that renaming it or giving it
// an extra `ok` result does not lose the anchor.
func bufferPop(w *World) (*ssa.Function, []ssa.CallInstruction) {
	run := w.Func("accountant", "buffer", "run")
	if run == nil {
		return nil, nil
	}
	var pop *ssa.Function
	var sites []ssa.CallInstruction
	// the body of the ticker arm may sit in a method of the buffer that run calls
	scan := func(in ssa.Instruction) {
		c, ok := in.(*ssa.Call)
		if !ok {
			return
		}
		cal := c.Call.StaticCallee()
		if cal == nil || cal.Signature.Recv() == nil || namedOf(cal.Signature.Recv().Type()) != "accountant.buffer" {
			return
		}
		res := cal.Signature.Results()
		if res.Len() == 0 || namedOf(res.At(0).Type()) != "accountant.memory" {
			return
		}
		if _, isPtr := res.At(0).Type().Underlying().(*types.Pointer); isPtr {
			return
		}
		pop = cal
		sites = append(sites, c)
	}
	for _, g := range withHelpers(run, 1) {
		instrsOf(g, scan)
	}
	return pop, sites
}

func blockCancelDesc(w *World, b *ssa.BasicBlock) string {
	for _, in := range b.Instrs {
		if c, ok := in.(*ssa.Call); ok && len(c.Call.Args) == 1 {
			if _, isParam := c.Call.Value.(*ssa.Parameter); isParam {
				return describeErrVal(c.Call.Args[0])
			}
		}
	}
	return b.Comment
}

func isBoolType(t types.Type) bool {
	b, ok := t.Underlying().(*types.Basic)
	return ok && b.Kind() == types.Bool
}

// syncGuardObligations: the malformed-stream tests of LoadDag (shared by C10 and C14).
func syncGuardObligations(w *World, r *Report, rule string) {
	if f := w.fx(r, "accountant", "AccountingBook", "LoadDag"); f != nil {
		fn := f.fn
		// the per-vertex checks may sit in a helper that answers with an error which LoadDag turns into cancel
		if h, sites := syncGuardHelper(fn); h != nil {
			syncGuardsInHelper(w, r, rule, fn, h, sites)
			return
		}
		cancelBlocks := cancelCallBlocks(fn)
		loadedStores := storesToField(fn, "dagLoaded")
		// self sealed twice
		selfE := edgesWhere(fn, func(ft fact) bool {
			return ft.kind == fEq && ((pathHasSuffix(pathOf(ft.x), "Transaction.IssuerAddress") && pathHasSuffix(pathOf(ft.y), "SignerPublicAddress")) ||
				(pathHasSuffix(pathOf(ft.y), "Transaction.IssuerAddress") && pathHasSuffix(pathOf(ft.x), "SignerPublicAddress")))
		})
		okSelf := len(selfE) > 0
		for _, e := range selfE {
			// on the self-sealed edge with the flag already set → must reach cancel and never the loaded store
			var flagTrue []Edge
			walkBlocks := reachable([]*ssa.BasicBlock{e.To()}, nil)
			for b := range walkBlocks {
				for i := range b.Succs {
					for _, ft := range edgeFacts(Edge{b, i}) {
						if ft.kind == fTrue {
							if phi, ok := strip(ft.x).(*ssa.Phi); ok && isBoolType(phi.Type()) {
								flagTrue = append(flagTrue, Edge{b, i})
							}
						}
					}
				}
			}
			if len(flagTrue) == 0 {
				okSelf = false
			}
			for _, te := range flagTrue {
				if !leadsOnlyToCancel(te, cancelBlocks, loadedStores) {
					okSelf = false
				}
			}
		}
		r.check(okSelf, rule, "LoadDag/second-self-sealed", w.Pos(fn.Pos()), "a second vertex whose issuer is its sealing node aborts the load", "self-sealed test missing or not leading to cancel")
		okEmpty := false
		for _, c := range f.calls(cn("transaction", "Transaction", "IsEmpty")) {
			okEmpty = true
			for _, te := range passBool(c, 0, true) {
				if !leadsOnlyToCancel(te, cancelBlocks, loadedStores) {
					okEmpty = false
				}
			}
		}
		r.check(okEmpty, rule, "LoadDag/empty-transaction", w.Pos(fn.Pos()), "an empty transaction aborts the load", "IsEmpty test missing or not leading to cancel")
		// every vertex of the stream is put to the emptiness test: an iteration of the checking loop reaches the next vertex
		// only through the IsEmpty call (whatever else the vertex is — self-sealed, heavy, …)
		for _, c := range f.calls(cn("transaction", "Transaction", "IsEmpty")) {
			hdr := enclosingRangeHeader(c.Block())
			if hdr == nil || len(hdr.Succs) != 2 {
				r.undecided(rule, "LoadDag/every-vertex-tested-for-emptiness", lineOf(w, c), "the emptiness test sits in the loop over the loaded vertices", "no enclosing range loop")
				continue
			}
			skipped := 0
			walkFrom(nil, hdr.Succs[0], nil, func(x ssa.Instruction) bool {
				if x == c.(ssa.Instruction) {
					return true
				}
				if x.Block() == hdr {
					skipped++
					return true
				}
				if _, isRet := x.(*ssa.Return); isRet {
					return true
				}
				return false
			})
			r.check(skipped == 0, rule, "LoadDag/every-vertex-tested-for-emptiness", lineOf(w, c), "no vertex of the stream gets past the checking loop without the IsEmpty test", fmt.Sprintf("%d ways to the next vertex without the emptiness test (a check that is taken only when another one did not match)", skipped))
		}
	}

}

// deletesTip: the vertex x removed at instruction at (a DeleteVertex call, or the call of a helper that performs it)
// cannot have children: it was just inserted, it was taken from GetLeaves(), or the site lies behind
// IsLeaf(id) == true for the id the vertex was looked up with.
func deletesTip(w *World, fn *ssa.Function, at ssa.Instruction, x ssa.Value) (bool, string) {
	v := pathOf(x)
	// (a) just inserted in this function
	justInserted := func(fn2 *ssa.Function, res resolver) []Edge {
		var es []Edge
		for _, s := range callsTo(fn2, nAddVertexByID) {
			_, sa := callArgs(s)
			if res(sa[1]) == v {
				es = append(es, passErrNil(s)...)
			}
		}
		return es
	}
	if behindAll(w, at, idMap, justInserted, 2) {
		return true, ""
	}
	// (b) taken from GetLeaves()
	for _, o := range origins(x) {
		if c, isCall := o.(*ssa.Call); isCall && calleeName(c) == dagM("GetLeaves") {
			return true, ""
		}
	}
	// (c) behind IsLeaf(id) == true where id is the id the vertex was looked up with
	var lookupArg string
	for _, o := range origins(x) {
		if ex, isEx := o.(*ssa.Extract); isEx {
			if gc, isCall := ex.Tuple.(*ssa.Call); isCall && calleeName(gc) == nGetVertex {
				_, ga := callArgs(gc)
				lookupArg = pathOf(ga[0])
			}
		}
	}
	var leafE []Edge
	for _, c := range callsTo(fn, dagM("IsLeaf")) {
		_, la := callArgs(c)
		if lookupArg != "" && pathOf(la[0]) == lookupArg {
			leafE = append(leafE, passBool(c, 0, true)...)
		}
	}
	if behind(at, leafE) {
		return true, ""
	}
	return false, fmt.Sprintf("vertex %s looked up by %q is deleted without IsLeaf(%s) == true on the path: its children would keep a parent that is neither live nor checkpointed", v, lookupArg, lookupArg)
}

// handedOverVertexIsFresh: the ledger keeps the pointer it is given (a vertex whose parent is unknown is parked and
// replayed later WITHOUT the entry guards of AddLeaf, on the strength of having passed them once). The object handed to
// AddLeaf must therefore be storage that nobody reuses: a variable or allocation of the calling function (possibly
// passed down through helpers), never an object taken from a pool, a package-level variable or a field of a long-lived
// struct.
func handedOverVertexIsFresh(w *World, r *Report, rule string) {
	r.rule(rule, "every *Vertex handed to AddLeaf from the serving packages is storage allocated by the calling operation itself (followed up through helper parameters): not a pooled object, a global or a field of a long-lived struct — the ledger parks and replays the very pointer it was given", 2)
	n := 0
	for _, fn := range w.RepoFuncs("gossip", "notaryserver", "accountant") {
		instrsOf(fn, func(in ssa.Instruction) {
			c, ok := in.(ssa.CallInstruction)
			if !ok {
				return
			}
			name := calleeName(c)
			if !strings.HasSuffix(name, ").AddLeaf") {
				return
			}
			_, a := callArgs(c)
			if len(a) < 2 {
				return
			}
			if pt, ok := a[1].Type().Underlying().(*types.Pointer); !ok || !strings.HasSuffix(pt.Elem().String(), "accountant.Vertex") {
				return
			}
			n++
			bad := freshPointer(w, a[1], 3, map[ssa.Value]bool{})
			r.check(bad == "", rule, shortFn(fn)+"/AddLeaf", lineOf(w, c), "the vertex handed to the ledger is the caller's own fresh storage", bad)
		})
	}
	if n == 0 {
		r.bad(rule, "AddLeaf", "-", "calls handing a vertex to the ledger are found", "none")
	}
}

// freshPointer returns "" when every origin of pointer v is an allocation of the operation; otherwise what it is.
func freshPointer(w *World, v ssa.Value, up int, seen map[ssa.Value]bool) string {
	if v == nil || seen[v] {
		return ""
	}
	seen[v] = true
	switch x := v.(type) {
	case *ssa.Alloc:
		return ""
	case *ssa.ChangeType:
		return freshPointer(w, x.X, up, seen)
	case *ssa.MakeInterface:
		return freshPointer(w, x.X, up, seen)
	case *ssa.Phi:
		for _, e := range x.Edges {
			if b := freshPointer(w, e, up, seen); b != "" {
				return b
			}
		}
		return ""
	case *ssa.Const:
		return ""
	case *ssa.TypeAssert:
		return freshPointer(w, x.X, up, seen)
	case *ssa.Extract:
		return freshPointer(w, x.Tuple, up, seen)
	case *ssa.Parameter:
		fn := x.Parent()
		if up <= 0 || fn.Object() == nil {
			return "parameter " + x.Name() + " of " + shortFn(fn) + " (callers not followed further)"
		}
		if fn.Object().Exported() {
			return "" // handed in by the user of the package: its own responsibility (AddLeaf itself is such an entry)
		}
		for _, cs := range staticCallers(w, fn) {
			for k, p := range fn.Params {
				if p == x && k < len(cs.Common().Args) {
					if b := freshPointer(w, cs.Common().Args[k], up-1, seen); b != "" {
						return b
					}
				}
			}
		}
		return ""
	case *ssa.Call:
		cal := x.Call.StaticCallee()
		if cal != nil && isRepoFunc(cal) && len(cal.Blocks) > 0 && up > 0 {
			// a repo constructor: what it returns
			for _, ret := range returnsOf(cal) {
				for _, rv := range ret.Results {
					if _, isPtr := rv.Type().Underlying().(*types.Pointer); isPtr {
						if b := freshPointer(w, rv, up-1, seen); b != "" {
							return b
						}
					}
				}
			}
			return ""
		}
		return "the result of " + shortCallee(x) + " (an object that outlives the call, e.g. taken from a pool)"
	case *ssa.UnOp:
		return "loaded from " + pathOf(x) + " (shared storage)"
	case *ssa.FieldAddr, *ssa.IndexAddr, *ssa.Global:
		return "the address of " + pathOf(v) + " (shared storage)"
	}
	return fmt.Sprintf("%T %s", v, pathOf(v))
}

// ---------------------------------------------------------------------------------------------
// C14: what lets LoadDag skip the link to a declared parent is scoped to one vertex

// onCycleWith: blocks a and b of one function lie on a common cycle (each reachable from the other).
func onCycleWith(a, b *ssa.BasicBlock) bool {
	ra := reachable(a.Succs, nil)
	if !ra[b] && a != b {
		return false
	}
	rb := reachable(b.Succs, nil)
	return rb[a]
}

// skipStateOf collects the mutable local state (variables, maps) the condition value depends on.
func skipStateOf(v ssa.Value, seen map[ssa.Value]bool, out *[]ssa.Value) {
	if v == nil || seen[v] {
		return
	}
	seen[v] = true
	switch x := v.(type) {
	case *ssa.BinOp:
		skipStateOf(x.X, seen, out)
		skipStateOf(x.Y, seen, out)
	case *ssa.UnOp:
		if x.Op == token.MUL {
			switch c := x.X.(type) {
			case *ssa.Alloc:
				if isSourceVar(c) {
					*out = append(*out, c)
				}
				return
			case *ssa.FreeVar:
				*out = append(*out, c)
				return
			}
		}
		skipStateOf(x.X, seen, out)
	case *ssa.Extract:
		skipStateOf(x.Tuple, seen, out)
	case *ssa.Lookup:
		skipStateOf(x.X, seen, out)
	case *ssa.MakeMap:
		*out = append(*out, x)
	case *ssa.Phi:
		hb := x.Block()
		for i, e := range x.Edges {
			if i < len(hb.Preds) && hb.Dominates(hb.Preds[i]) && e != ssa.Value(x) {
				if _, isConst := e.(*ssa.Const); !isConst {
					*out = append(*out, x) // a value carried round the loop this block heads
				}
			}
		}
		for _, e := range x.Edges {
			skipStateOf(e, seen, out)
		}
	case *ssa.ChangeType:
		skipStateOf(x.X, seen, out)
	case *ssa.Convert:
		skipStateOf(x.X, seen, out)
	case *ssa.Parameter:
		if _, isMap := x.Type().Underlying().(*types.Map); isMap {
			*out = append(*out, x)
		} else if _, isPtr := x.Type().Underlying().(*types.Pointer); isPtr {
			*out = append(*out, x)
		}
	case *ssa.Call:
		if b, ok := x.Call.Value.(*ssa.Builtin); ok && b.Name() == "len" {
			skipStateOf(x.Call.Args[0], seen, out)
		}
	}
}

func linkSkipsArePerVertex(w *World, r *Report, rule string) {
	r.rule(rule, "in LoadDag a branch that can bypass AddEdge for a declared parent depends only on state that is created anew for every loaded vertex (the left == right dedupe); state that lives across vertices would drop the second edge of a fork", 1)
	f := w.fx(r, "accountant", "AccountingBook", "LoadDag")
	if f == nil {
		return
	}
	n := 0
	for _, d := range deepCalls(f.fn, byName(nAddEdge), deepDepth) {
		// levels: the host of AddEdge and every function on the chain, each with the instruction that leads to the edge
		// and the vertex being linked as that function names it
		type level struct {
			fn   *ssa.Function
			site ssa.Instruction
			dest ssa.Value
		}
		_, ea := callArgs(d.c)
		dest, okDest := vertexOfHashArg(ea[1])
		if !okDest {
			r.undecided(rule, "LoadDag/AddEdge-dst", lineOf(w, d.c), "the vertex being linked must be identifiable", pathOf(ea[1]))
			continue
		}
		levels := []level{{d.c.Parent(), d.c.(ssa.Instruction), dest}}
		for i := len(d.chain) - 1; i >= 0; i-- {
			cs := d.chain[i]
			var up ssa.Value
			if prm, ok := baseOf(levels[len(levels)-1].dest).(*ssa.Parameter); ok {
				if cal := cs.Common().StaticCallee(); cal != nil {
					for k, p := range cal.Params {
						if p == prm && k < len(cs.Common().Args) {
							up = cs.Common().Args[k]
						}
					}
				}
			}
			levels = append(levels, level{cs.Parent(), cs.(ssa.Instruction), up})
		}
		// perVertex(li, b): block b of level li is executed anew for every vertex that is linked
		perVertex := func(li int, b *ssa.BasicBlock) bool {
			for k := li; k < len(levels); k++ {
				base := baseOf(levels[k].dest)
				if base == nil {
					return false
				}
				if _, isPrm := base.(*ssa.Parameter); isPrm {
					if k == li {
						continue // the whole function runs for one vertex: look where it is called from
					}
					continue
				}
				in, ok := base.(ssa.Instruction)
				if !ok {
					return false
				}
				if k == li {
					return in.Block().Dominates(b)
				}
				return true // the vertex is taken inside a caller: this whole call belongs to it
			}
			return false
		}
		bad := ""
		var judge func(li int, st ssa.Value, iff *ssa.If, seen map[ssa.Value]bool)
		judge = func(li int, st ssa.Value, iff *ssa.If, seen map[ssa.Value]bool) {
			if st == nil || seen[st] {
				return
			}
			seen[st] = true
			lv := levels[li]
			switch x := st.(type) {
			case *ssa.Alloc:
				if !perVertex(li, x.Block()) {
					bad += fmt.Sprintf(" variable %s, created once at %s, decides the branch at %s that bypasses the link;", x.Comment, w.Pos(x.Pos()), lineOf(w, iff))
				}
			case *ssa.MakeMap:
				if !perVertex(li, x.Block()) {
					bad += fmt.Sprintf(" a map created once at %s decides the branch at %s that bypasses the link;", w.Pos(x.Pos()), lineOf(w, iff))
				}
			case *ssa.Phi:
				if !perVertex(li, x.Block()) {
					bad += fmt.Sprintf(" %s (%s) is carried from one vertex to the next and decides the branch at %s that bypasses the link;", x.Name(), x.Comment, lineOf(w, iff))
				}
			case *ssa.Parameter:
				if li+1 < len(levels) {
					if cs, ok := levels[li+1].site.(ssa.CallInstruction); ok {
						for k, p := range lv.fn.Params {
							if p == x && k < len(cs.Common().Args) {
								var sts []ssa.Value
								skipStateOf(cs.Common().Args[k], map[ssa.Value]bool{}, &sts)
								if a, isAlloc := cs.Common().Args[k].(*ssa.Alloc); isAlloc {
									sts = append(sts, a)
								}
								for _, s2 := range sts {
									judge(li+1, s2, iff, seen)
								}
							}
						}
					}
				} else {
					bad += fmt.Sprintf(" %s is handed into %s, which runs once per load, and decides the branch at %s;", x.Name(), shortFn(lv.fn), lineOf(w, iff))
				}
			case *ssa.FreeVar:
				if cv := capturedCell(x); cv != nil && lv.fn.Parent() != nil {
					// the cell lives in the enclosing function: judge it there if that function is a level, else by creation
					for k := range levels {
						if levels[k].fn == cv.Parent() {
							judge(k, cv, iff, seen)
							return
						}
					}
				}
			}
		}
		for li, lv := range levels {
			siteB := lv.site.Block()
			for _, b := range lv.fn.Blocks {
				iff, ok := b.Instrs[len(b.Instrs)-1].(*ssa.If)
				if !ok || len(b.Succs) != 2 {
					continue
				}
				// a skip-branch: the link is reachable from one successor but not from the other, not counting ways
				// that come back through this very test (the next parent / the next vertex)
				cut := map[Edge]bool{{b, 0}: true, {b, 1}: true}
				reach := func(s *ssa.BasicBlock) bool {
					if s == siteB {
						return true
					}
					return reachable([]*ssa.BasicBlock{s}, cut)[siteB]
				}
				r0, r1 := reach(b.Succs[0]), reach(b.Succs[1])
				if r0 == r1 || !onCycleWith(b, siteB) {
					continue
				}
				skipSide := b.Succs[0]
				if r0 {
					skipSide = b.Succs[1]
				}
				if skipSide != b && !reachable([]*ssa.BasicBlock{skipSide}, nil)[b] {
					continue // the other side gives the load up (cancel, return): nothing is skipped, the load fails
				}
				n++
				var states []ssa.Value
				skipStateOf(iff.Cond, map[ssa.Value]bool{}, &states)
				seen := map[ssa.Value]bool{}
				for _, st := range states {
					judge(li, st, iff, seen)
				}
			}
		}
		r.check(bad == "", rule, "LoadDag/AddEdge", lineOf(w, d.c), "what can skip a parent link does not outlive the vertex being linked", bad)
	}
	r.Extra["loaddag_skip_branches"] = n
}

// baseOf strips loads, field and element accesses: the value a path is rooted at.
func baseOf(v ssa.Value) ssa.Value {
	for i := 0; i < 20 && v != nil; i++ {
		switch x := v.(type) {
		case *ssa.UnOp:
			v = x.X
		case *ssa.FieldAddr:
			v = x.X
		case *ssa.Field:
			v = x.X
		case *ssa.IndexAddr:
			v = x.X
		case *ssa.ChangeType:
			v = x.X
		case *ssa.MakeInterface:
			v = x.X
		default:
			return v
		}
	}
	return v
}

// capturedCell: the variable of the enclosing function a free variable stands for.
func capturedCell(fv *ssa.FreeVar) *ssa.Alloc {
	fn := fv.Parent()
	par := fn.Parent()
	if par == nil {
		return nil
	}
	idx := -1
	for i, f := range fn.FreeVars {
		if f == fv {
			idx = i
		}
	}
	var out *ssa.Alloc
	instrsOf(par, func(in ssa.Instruction) {
		if mc, ok := in.(*ssa.MakeClosure); ok && mc.Fn == ssa.Value(fn) && idx >= 0 && idx < len(mc.Bindings) {
			if a, ok := mc.Bindings[idx].(*ssa.Alloc); ok {
				out = a
			}
		}
	})
	return out
}

// parentsExist: gossip admission inserts a vertex only after a loop over both declared parent hashes in which every
// iteration crossed the found-edge of the graph lookup for its element (shared by C09 — every vertex has an edge from each
// declared parent — and C01: a vertex admitted without its parents has no edges, is a root, and validateLeaf exempts roots
// from the funds check).
func parentsExist(w *World, r *Report, rule string) {
	r.rule(rule, "addLeafMemorized: the insertion is reachable only after the loop over {Left,Right}ParentHash completed, and every iteration crosses the found-edge of GetVertex for its element", 3)
	if f := w.fx(r, "accountant", "AccountingBook", "addLeafMemorized"); f != nil {
		fn := f.fn
		adds := deepCalls(fn, byName(nAddVertexByID), deepDepth)
		if len(adds) == 1 {
			_, aa := callArgs(adds[0].c)
			v := adds[0].path(aa[1])
			found := false
			for _, gd := range deepCalls(fn, byName(nGetVertex), deepDepth) {
				g := gd.c
				gfn := g.Parent()
				_, ga := callArgs(g)
				ps := hashElemOriginsD(gd, ga[0])
				if strings.Join(ps, ",") != v+".LeftParentHash,"+v+".RightParentHash" {
					continue
				}
				found = true
				// the lookup may sit in a helper that is called once per parent: the loop is the one around the call
				// that leads to it, the found-edges are the success edges of that call (ensures-summary of the helper)
				var site ssa.Instruction = g.(ssa.Instruction)
				foundEdges := passErrNil(g)
				if len(gd.chain) > 0 && enclosingRangeHeader(g.Block()) == nil { // (a helper that holds the whole loop is judged where the loop is)
					site = gd.chain[0].(ssa.Instruction)
					spec := func(fn2 *ssa.Function, _ resolver) []Edge {
						var es []Edge
						for _, c := range callsTo(fn2, nGetVertex) {
							if c == g {
								if guardCallSink != nil {
									*guardCallSink = append(*guardCallSink, guardHit{c, "errnil"})
								}
								es = append(es, passErrNil(c)...)
							}
						}
						return es
					}
					foundEdges = deepEdges(fn, idRes, spec, deepDepth)
				}
				h := enclosingRangeHeader(site.Block())
				if h == nil {
					r.bad(rule, "addLeafMemorized/loop", lineOf(w, g), "parent lookup must be inside the loop over both parent hashes", "no enclosing range loop")
					continue
				}
				r.ok(rule, "addLeafMemorized/elements", lineOf(w, g), "the ranged literal is exactly {leaf.LeftParentHash, leaf.RightParentHash}")
				// header: If cond goto body else done
				var bodyE, doneE *Edge
				for i := range h.Succs {
					e := Edge{h, i}
					if i == 0 {
						bodyE = &e
					} else {
						doneE = &e
					}
				}
				if bodyE == nil || doneE == nil {
					r.undecided(rule, "addLeafMemorized/loop-shape", lineOf(w, g), "range loop header must branch to body/done", "unexpected shape")
					continue
				}
				okIter := !reachable([]*ssa.BasicBlock{bodyE.To()}, edgeSet(foundEdges, []Edge{*doneE}))[h]
				_ = gfn
				r.check(okIter && len(foundEdges) > 0, rule, "addLeafMemorized/every-iteration", lineOf(w, g), "no way back to the loop header (next parent) without the found-edge of GetVertex", "an iteration can continue without having found its parent")
				// with the loop's normal exit cut, the insertion must be unreachable (the loop may sit in a helper: its
				// successful return is then behind that exit, and the walk is pruned by the return it came back through)
				reached := false
				dw := newDeepWalk(func(in ssa.Instruction, _ *frame) bool {
					if in == adds[0].c.(ssa.Instruction) {
						reached = true
					}
					return reached
				})
				dw.cutFixed = edgeSet([]Edge{*doneE})
				dw.run(topFrame(fn), fn.Blocks[0], 0)
				r.check(!reached, rule, "addLeafMemorized/insert-after-loop", lineOf(w, adds[0].c), "insertion reachable only through the loop's normal exit (all parents processed)", "insertion reachable by leaving the loop early or bypassing it")
			}
			if !found {
				r.bad(rule, "addLeafMemorized/lookup", w.Pos(fn.Pos()), "a GetVertex lookup over both declared parent hashes must exist", "not found")
			}
		}
	}
}

// runsOnlyDeferred: fn is a function literal whose every use is the operand of a defer (`defer func() { … }()`).
func runsOnlyDeferred(fn *ssa.Function) bool {
	par := fn.Parent()
	if par == nil {
		return false
	}
	n, all := 0, true
	instrsOf(par, func(in ssa.Instruction) {
		for _, op := range in.Operands(nil) {
			if *op == nil {
				continue
			}
			if closureOf(*op) == fn || *op == ssa.Value(fn) {
				if _, isMC := in.(*ssa.MakeClosure); isMC {
					continue // creation; the uses of the closure value are what counts
				}
				n++
				if _, isDefer := in.(*ssa.Defer); !isDefer {
					all = false
				}
			}
		}
	})
	return n > 0 && all
}

// everyParentLinked: the list the edge loop of the gossip admission ranges over grows on every turn of the loop that looked
// the declared parents up — a turn that comes back to the head of the loop with the list unchanged leaves the admitted
// vertex without the edge to that parent (its ancestry, and every balance walked through it, then misses the history below).
func everyParentLinked(w *World, r *Report, rule string) {
	r.rule(rule, "addLeafMemorized: the list of edge sources (the value ranged by the AddEdge loop) is built by appends inside the loop over the declared parents, and no path through the loop body comes back to the loop head with the list as it was — whether the parent still is a tip decides only whether it is validated, not whether the new vertex is linked to it", 1)
	f := w.fx(r, "accountant", "AccountingBook", "addLeafMemorized")
	if f == nil {
		return
	}
	n := 0
	for _, ed := range deepCalls(f.fn, byName(nAddEdge), deepDepth) {
		_, a := callArgs(ed.c)
		sx, ok := vertexOfHashArg(a[0])
		if !ok {
			continue
		}
		ld, ok := sx.(*ssa.UnOp)
		if !ok {
			continue
		}
		ia, ok := ld.X.(*ssa.IndexAddr)
		if !ok {
			continue
		}
		for _, ap := range appendsFeeding(ed.argValue(ia.X)) {
			h, ok := ap.Call.Args[0].(*ssa.Phi)
			if !ok {
				continue
			}
			n++
			var unchanged func(v ssa.Value, seen map[ssa.Value]bool) bool
			unchanged = func(v ssa.Value, seen map[ssa.Value]bool) bool {
				if v == ssa.Value(h) {
					return true
				}
				if seen[v] {
					return false
				}
				seen[v] = true
				if p, ok := v.(*ssa.Phi); ok {
					for _, e := range p.Edges {
						if unchanged(e, seen) {
							return true
						}
					}
				}
				return false
			}
			bad := ""
			for k, e := range h.Edges {
				if !h.Block().Dominates(h.Block().Preds[k]) {
					continue // the value the list has before the loop
				}
				if unchanged(e, map[ssa.Value]bool{}) {
					bad = fmt.Sprintf("the loop over the declared parents can come back to its head with the list of edge sources unchanged: the append at %s is skipped on that path, the vertex is admitted without the edge to that parent", lineOf(w, ap))
				}
			}
			r.check(bad == "", rule, shortFn(ap.Parent())+"/edge-sources", lineOf(w, ap), "every completed turn of the parent loop adds its parent to the edge sources", bad)
		}
	}
	if n == 0 {
		r.undecided(rule, "addLeafMemorized/edge-sources", w.Pos(f.fn.Pos()), "the list of edge sources must be identifiable", "no append inside a loop feeds the AddEdge loop")
	}
}

// syncGuardHelper: the same-package helper called from LoadDag that holds the self-sealed comparison (nil when the
// comparison sits in LoadDag itself).
func syncGuardHelper(fn *ssa.Function) (*ssa.Function, []ssa.CallInstruction) {
	isSelf := func(ft fact) bool {
		return ft.kind == fEq && ((pathHasSuffix(pathOf(ft.x), "Transaction.IssuerAddress") && pathHasSuffix(pathOf(ft.y), "SignerPublicAddress")) ||
			(pathHasSuffix(pathOf(ft.y), "Transaction.IssuerAddress") && pathHasSuffix(pathOf(ft.x), "SignerPublicAddress")))
	}
	if len(edgesWhere(fn, isSelf)) > 0 {
		return nil, nil
	}
	for _, c := range helperCalls(fn) {
		h := samePkgHelper(fn, c)
		if h != nil && errIndex(h) >= 0 && len(edgesWhere(h, isSelf)) > 0 {
			var sites []ssa.CallInstruction
			for _, c2 := range helperCalls(fn) {
				if samePkgHelper(fn, c2) == h {
					sites = append(sites, c2)
				}
			}
			return h, sites
		}
	}
	return nil, nil
}

// syncGuardsInHelper: the sync guards when they live in helper h (answering with an error) called from LoadDag at sites.
func syncGuardsInHelper(w *World, r *Report, rule string, fn, h *ssa.Function, sites []ssa.CallInstruction) {
	cancelBlocks := cancelCallBlocks(fn)
	loadedStores := storesToField(fn, "dagLoaded")
	// a failing helper leads only to cancel
	okCall := len(sites) > 0
	for _, c := range sites {
		fes := failErrNonNil(c)
		if len(fes) == 0 {
			okCall = false
		}
		for _, fe := range fes {
			if !leadsOnlyToCancel(fe, cancelBlocks, loadedStores) {
				okCall = false
			}
		}
	}
	onlyErrorReturns := func(e Edge) bool {
		ok, n := true, 0
		walkFrom(nil, e.To(), nil, func(x ssa.Instruction) bool {
			if ret, isRet := x.(*ssa.Return); isRet {
				n++
				if successReturn(ret) {
					ok = false
				}
				return true
			}
			return false
		})
		return ok && n > 0
	}
	selfE := edgesWhere(h, func(ft fact) bool {
		return ft.kind == fEq && ((pathHasSuffix(pathOf(ft.x), "Transaction.IssuerAddress") && pathHasSuffix(pathOf(ft.y), "SignerPublicAddress")) ||
			(pathHasSuffix(pathOf(ft.y), "Transaction.IssuerAddress") && pathHasSuffix(pathOf(ft.x), "SignerPublicAddress")))
	})
	okSelf := okCall && len(selfE) > 0
	for _, e := range selfE {
		var flagTrue []Edge
		for b := range reachable([]*ssa.BasicBlock{e.To()}, nil) {
			for i := range b.Succs {
				for _, ft := range edgeFacts(Edge{b, i}) {
					if ft.kind == fTrue && isBoolType(strip(ft.x).Type()) {
						switch strip(ft.x).(type) {
						case *ssa.Phi, *ssa.UnOp, *ssa.Parameter:
							flagTrue = append(flagTrue, Edge{b, i})
						}
					}
				}
			}
		}
		if len(flagTrue) == 0 {
			okSelf = false
		}
		for _, te := range flagTrue {
			if !onlyErrorReturns(te) {
				okSelf = false
			}
		}
	}
	// the memory of "a self-sealed vertex was already seen" outlives the call: it is written through a pointer the caller
	// handed in (a pointer parameter or a pointer receiver), not into a copy that dies with the call
	persists := false
	instrsOf(h, func(in ssa.Instruction) {
		st, ok := in.(*ssa.Store)
		if !ok {
			return
		}
		if bv, isB := boolConst(st.Val); !isB || !bv {
			return
		}
		if prm, isPrm := baseOf(st.Addr).(*ssa.Parameter); isPrm {
			if _, isPtr := prm.Type().Underlying().(*types.Pointer); isPtr {
				persists = true
			}
		}
	})
	if !persists {
		okSelf = false
	}
	r.check(okSelf, rule, "LoadDag/second-self-sealed", w.Pos(fn.Pos()), "a second vertex whose issuer is its sealing node aborts the load", fmt.Sprintf("self-sealed test missing, not leading to cancel, or its memory does not outlive the call of %s (flag written through a caller's pointer: %v)", shortFn(h), persists))
	okEmpty := false
	empties := callsTo(h, cn("transaction", "Transaction", "IsEmpty"))
	for _, c := range empties {
		okEmpty = okCall
		for _, te := range passBool(c, 0, true) {
			if !onlyErrorReturns(te) {
				okEmpty = false
			}
		}
	}
	r.check(okEmpty, rule, "LoadDag/empty-transaction", w.Pos(fn.Pos()), "an empty transaction aborts the load", "IsEmpty test missing or not leading to cancel (through "+shortFn(h)+")")
	// every vertex is tested: no success return of the helper without the IsEmpty call, and no turn of LoadDag's checking
	// loop without the helper
	for _, c := range empties {
		skipped := 0
		walkFrom(nil, h.Blocks[0], nil, func(x ssa.Instruction) bool {
			if x == c.(ssa.Instruction) {
				return true
			}
			if ret, isRet := x.(*ssa.Return); isRet {
				if successReturn(ret) {
					skipped++
				}
				return true
			}
			return false
		})
		for _, site := range sites {
			hdr := enclosingRangeHeader(site.Block())
			if hdr == nil || len(hdr.Succs) != 2 {
				r.undecided(rule, "LoadDag/every-vertex-tested-for-emptiness", lineOf(w, site), "the checking helper is called in the loop over the loaded vertices", "no enclosing range loop")
				continue
			}
			walkFrom(nil, hdr.Succs[0], nil, func(x ssa.Instruction) bool {
				if x == site.(ssa.Instruction) {
					return true
				}
				if x.Block() == hdr {
					skipped++
					return true
				}
				if _, isRet := x.(*ssa.Return); isRet {
					return true
				}
				return false
			})
		}
		r.check(skipped == 0, rule, "LoadDag/every-vertex-tested-for-emptiness", lineOf(w, c), "no vertex of the stream gets past the checking loop without the IsEmpty test", fmt.Sprintf("%d ways to the next vertex without the emptiness test", skipped))
	}
}
