package main

// C16 — contracts need the receiver; reads need proof of key ownership (structural part).

import (
	"fmt"
	"go/token"
	"strings"

	"golang.org/x/tools/go/ssa"
)

// callsBySuffix returns call sites in fn (and closures) whose resolved callee name ends with suffix.
func callsBySuffix(fn *ssa.Function, suffix string) []ssa.CallInstruction {
	var out []ssa.CallInstruction
	for _, f := range WithAnon(fn) {
		instrsOf(f, func(in ssa.Instruction) {
			if c, ok := in.(ssa.CallInstruction); ok && strings.HasSuffix(calleeName(c), suffix) {
				out = append(out, c)
			}
		})
	}
	return out
}

// callEdges: the pass edges ("errnil", "true", "false") of all calls matching suffix and bind.
func callEdges(fn *ssa.Function, suffix, pass string, bind func(recv ssa.Value, args []ssa.Value) bool) []Edge {
	var es []Edge
	for _, c := range callsTo2(fn, suffix) {
		recv, args := callArgs(c)
		if bind != nil && !bind(recv, args) {
			continue
		}
		switch pass {
		case "errnil":
			es = append(es, passErrNil(c)...)
		case "true":
			es = append(es, passBool(c, 0, true)...)
		case "false":
			es = append(es, passBool(c, 0, false)...)
		}
	}
	return es
}

func callsTo2(fn *ssa.Function, suffix string) []ssa.CallInstruction {
	var out []ssa.CallInstruction
	instrsOf(fn, func(in ssa.Instruction) {
		if c, ok := in.(ssa.CallInstruction); ok && strings.HasSuffix(calleeName(c), suffix) {
			out = append(out, c)
		}
	})
	return out
}

func argPaths(ps ...string) func(recv ssa.Value, args []ssa.Value) bool {
	return func(_ ssa.Value, args []ssa.Value) bool {
		for i, p := range ps {
			if p == "_" {
				continue
			}
			if i >= len(args) || pathOf(args[i]) != bp(p) {
				return false
			}
		}
		return true
	}
}

func recvPath(p string) func(recv ssa.Value, args []ssa.Value) bool {
	return func(recv ssa.Value, _ []ssa.Value) bool { return recv != nil && pathOf(recv) == bp(p) }
}

func init() {
	register("C16", []string{"./notaryserver", "./cache", "./dataprovider", "./transaction", "./wallet"},
		"Structural necessary conditions of the notary's authorisation rules: in every handler the protected effect (seal into the ledger, store as awaiting, remove from awaiting, read waiting list / history / balance) lies behind the success edge of the "+
			"right check applied to the same request fields — issuer signature for proposals, the contract/non-contract split, issuer+receiver signatures and a successful receiver-keyed removal for confirmation, a signature of the removed hash by the removing address for rejection, "+
			"the server-issued unexpired challenge plus a signature under the queried address for reads — and ValidateData accepts only an existing, unexpired, byte-equal challenge. At-most-once under concurrent duplicates beyond the atomic removal (C17) and the ledger index (C03) is not decided.",
		runC16)
}

func runC16(w *World, r *Report) {
	r.NotDecided = []string{"the full call-sequence state machine against a reference model", "at-most-once under concurrent duplicates beyond C17 (atomic removal) and C03 (index)", "expiry timing of challenges"}
	// a waiting list holds what was listed for that address: a list built from another address's list discloses its contracts
	listUpdateIterationLocal(w, r, "list-update-is-iteration-local")
	type g struct {
		label string
		edges gspec
	}
	verifyReq := callSpec(").Verify", "errnil", argPathsR("in.Data", "in.Signature", "in.Hash", "in.Address")) // verifier.Verify(in.Data, in.Signature, [32]byte(in.Hash), in.Address)
	challenge := callSpec(").ValidateData", "true", argPathsR("in.Address", "in.Data"))
	dataIsAddress := func(fn *ssa.Function, res resolver) []Edge {
		is := func(p string) func(ssa.Value) bool { return func(v ssa.Value) bool { return res(v) == bp(p) } }
		return cmpEdges(fn, is("in.Data"), is("in.Address"), true)
	}
	rows := []struct {
		handler string
		effect  string
		bind    func(res resolver, recv ssa.Value, args []ssa.Value) bool
		guards  []g
	}{
		{"Propose", ").CreateLeaf", argPathsR("_", "trx"), []g{
			{"request converted by ProtoTrxToTrx(in)", callSpec(".ProtoTrxToTrx", "errnil", argPathsR("in"))},
			{"issuer signature verified on the converted transaction", callSpec(").VerifyIssuer", "errnil", recvPathR("trx"))},
			{"transaction carries no data (pure transfer)", callSpec(").IsContract", "false", recvPathR("trx"))},
		}},
		{"Propose", ").SaveAwaitedTransaction", argPathsR("trx"), []g{
			{"issuer signature verified", callSpec(").VerifyIssuer", "errnil", recvPathR("trx"))},
			{"transaction carries data (contract)", callSpec(").IsContract", "true", recvPathR("trx"))},
			{"data size within the configured limit", func(fn *ssa.Function, res resolver) []Edge {
				var es []Edge
				for _, b := range fn.Blocks {
					if len(b.Instrs) == 0 {
						continue
					}
					if iff, ok := b.Instrs[len(b.Instrs)-1].(*ssa.If); ok {
						if bo, ok := iff.Cond.(*ssa.BinOp); ok && bo.Op == token.GTR {
							if c, isCall := bo.X.(*ssa.Call); isCall {
								if bi, isB := c.Call.Value.(*ssa.Builtin); isB && bi.Name() == "len" && res(c.Call.Args[0]) == bp("trx.Data") && strings.HasSuffix(pathOf(bo.Y), ".dataSize") {
									es = append(es, Edge{b, 1})
								}
							}
						}
					}
				}
				return es
			}},
		}},
		{"Confirm", ").CreateLeaf", argPathsR("_", "trx"), []g{
			{"request converted by ProtoTrxToTrx(in)", callSpec(".ProtoTrxToTrx", "errnil", argPathsR("in"))},
			{"issuer and receiver signatures verified", callSpec(").VerifyIssuerReceiver", "errnil", recvPathR("trx"))},
			{"it was awaiting here and was removed for its receiver", callSpec(").RemoveAwaitedTransaction", "errnil", argPathsR("trx.Hash", "trx.ReceiverAddress"))},
		}},
		{"Confirm", ").RemoveAwaitedTransaction", argPathsR("trx.Hash", "trx.ReceiverAddress"), []g{
			{"issuer and receiver signatures verified", callSpec(").VerifyIssuerReceiver", "errnil", recvPathR("trx"))},
		}},
		{"Reject", ").RemoveAwaitedTransaction", argPathsR("in.Data", "in.Address"), []g{
			{"request signed by the removing address over the transaction hash", verifyReq},
		}},
		{"Reject", ").CreateLeaf", nil, []g{
			{"request signed", verifyReq},
			{"awaiting transaction removed for the signer", callSpec(").RemoveAwaitedTransaction", "errnil", argPathsR("in.Data", "in.Address"))},
		}},
		{"Waiting", ").ReadTransactions", argPathsR("in.Address"), []g{{"unexpired server challenge for this address", challenge}, {"challenge signed under the queried address", verifyReq}}},
		{"TransactionsInDAG", ").ReadDAGTransactionsByAddress", argPathsR("_", "in.Address"), []g{{"unexpired server challenge for this address", challenge}, {"challenge signed under the queried address", verifyReq}}},
		{"Balance", ").CalculateBalance", argPathsR("_", "in.Address"), []g{
			{"signed data is the address itself", dataIsAddress},
			{"signed under the queried address", verifyReq},
		}},
		{"Balance", ").ReadBalance", argPathsR("in.Address"), []g{
			{"signed data is the address itself", dataIsAddress},
			{"signed under the queried address", verifyReq},
		}},
		{"Saved", ").ReadTransactionByHash", argPathsR("_", "in.Data"), []g{{"request signed over the requested hash", verifyReq}}},
	}
	r.rule("effect-behind-authorisation", "the protected effect of each notary handler lies behind the success edge of every required check, applied to the same request fields", 14)
	for _, row := range rows {
		f := w.fx(r, "notaryserver", "server", row.handler)
		if f == nil {
			continue
		}
		trxFrom := "result:.ProtoTrxToTrx"
		if row.handler == "Reject" {
			trxFrom = "result:).RemoveAwaitedTransaction"
		}
		curBinder = bindNames(f.fn, map[string]string{"in": "param:2", "trx": trxFrom})
		var effs []dcall
		for _, d := range deepCalls(f.fn, bySuffix(row.effect), deepDepth) {
			if d.c.Parent().Parent() != nil && len(d.chain) == 0 {
				continue // inside a function literal of the handler (asynchronous clean-up): not the handler's own effect
			}
			recv, args := callArgs(d.c)
			if row.bind == nil || row.bind(d.res(), recv, args) {
				effs = append(effs, d)
			}
		}
		name := row.effect[2:]
		if len(effs) == 0 {
			r.bad("effect-behind-authorisation", row.handler+"/"+name, w.Pos(f.fn.Pos()), "the effect call with the expected arguments must exist", "no call "+name+" bound to the expected request fields")
			continue
		}
		for _, eff := range effs {
			for _, gd := range row.guards {
				es := gd.edges(f.fn, idRes)
				r.check(behindDeepSite(eff, gd.edges), "effect-behind-authorisation", row.handler+"/"+name+"/"+gd.label, lineOf(w, eff.c), name+" only behind: "+gd.label,
					fmt.Sprintf("effect reachable without crossing the check's success edge (%d candidate edges in the handler itself)", len(es)))
			}
		}
	}
	// Reject: the sealed transaction is the one returned by the removal
	if f := w.fx(r, "notaryserver", "server", "Reject"); f != nil {
		for _, d := range deepCalls(f.fn, bySuffix(").CreateLeaf"), deepDepth) {
			c := d.c
			_, args := callArgs(c)
			ok := false
			// &trx where trx is assigned from RemoveAwaitedTransaction's result #0
			if al, isAl := strip(d.argValue(args[1])).(*ssa.Alloc); isAl {
				for _, ref := range *al.Referrers() {
					if st, isSt := ref.(*ssa.Store); isSt && st.Addr == ssa.Value(al) {
						if ex, isEx := st.Val.(*ssa.Extract); isEx && ex.Index == 0 {
							if rc, isC := ex.Tuple.(*ssa.Call); isC && strings.HasSuffix(calleeName(rc), ").RemoveAwaitedTransaction") {
								ok = true
							}
						}
					}
				}
			}
			r.check(ok, "effect-behind-authorisation", "Reject/CreateLeaf/seals-the-removed-transaction", lineOf(w, c), "the transaction sealed by Reject is the result of the removal", "argument has another origin")
		}
	}
	// every effectful awaiting/ledger call in the notary handlers is one of the table's rows (closure)
	r.rule("no-unlisted-effects", "notary handlers contain no ledger / awaiting-cache effect outside the authorisation table", 5)
	listed := map[string]bool{}
	for _, row := range rows {
		listed[row.handler+row.effect] = true
	}
	for _, h := range handlersOf(w)["NotaryAPIServer"] {
		for _, suf := range []string{").CreateLeaf", ").SaveAwaitedTransaction", ").RemoveAwaitedTransaction", ").ReadTransactions", ").ReadDAGTransactionsByAddress", ").CalculateBalance", ").ReadBalance", ").ReadTransactionByHash"} {
			for _, d := range deepCalls(h, bySuffix(suf), deepDepth) {
				r.check(listed[h.Name()+suf], "no-unlisted-effects", h.Name()+"/"+suf[2:], lineOf(w, d.c), "effect is covered by an authorisation row", "effect without a rule")
			}
		}
	}

	// what a caller is sent was assembled for that caller alone: a response built in storage that the next request reuses
	// is overwritten before it is serialised (gRPC marshals after the handler and its defers returned)
	r.rule("responses-built-in-private-storage", "no notary handler (nor a helper it calls) uses package-level mutable state — pools, scratch buffers, memo tables — while assembling its response", 8)
	for _, h := range handlersOf(w)["NotaryAPIServer"] {
		statelessObligation(w, r, "responses-built-in-private-storage", h)
	}

	// taking a transaction out of awaiting is the gate to sealing it: it must happen exactly once
	r.rule("removal-atomic", "RemoveAwaitedTransaction reads, checks and deletes the entry under one exclusive lock and fails when the entry is already gone (so of several overlapping confirm/reject calls only one seals)", 2)
	if f := w.fx(r, "cache", "Hippocampus", "RemoveAwaitedTransaction"); f != nil {
		li := ComputeLocks(w, func(fn *ssa.Function) bool { return fn.Pkg != nil && fn.Pkg.Pkg.Path() == modPath+"/cache" })
		var del ssa.CallInstruction
		okLock := true
		n := 0
		for _, d := range deepCalls(f.fn, func(c ssa.CallInstruction) bool { return strings.HasPrefix(calleeName(c), "(*"+bigPkg+".BigCache).") }, deepDepth) {
			c := d.c
			n++
			if !li.At(c).Has(hipMux, "W") {
				okLock = false
			}
			if strings.HasSuffix(calleeName(c), ").Delete") && del == nil && len(d.chain) == 0 {
				del = c
			}
		}
		r.check(okLock && n >= 3, "removal-atomic", "RemoveAwaitedTransaction/one-critical-section", w.Pos(f.fn.Pos()), "lookup, receiver check and delete share one exclusive critical section", fmt.Sprintf("%d cache calls, all under the lock: %v", n, okLock))
		okDel := del != nil
		if del != nil {
			for _, ret := range returnsOf(f.fn) {
				if successReturn(ret) && !behind(ret, passErrNil(del)) {
					okDel = false
				}
			}
		}
		r.check(okDel, "removal-atomic", "RemoveAwaitedTransaction/delete-must-succeed", w.Pos(f.fn.Pos()), "the transaction is handed to the caller only if this call deleted the entry", "a success return is reachable although Delete reported an error (entry already taken by another call)")
	}

	// challenge validation
	r.rule("challenge-validation", "ValidateData returns true only behind: entry exists for the address, not expired, bytes.Equal(data, stored)", 1)
	if f := w.fx(r, "dataprovider", "Cache", "ValidateData"); f != nil {
		fn := f.fn
		addr, data := fn.Params[1].Name(), fn.Params[2].Name()
		// exists: lookup c.data[address],ok → true edge
		var existsE, freshE, eqE []Edge
		var entry ssa.Value
		instrsOf(fn, func(in ssa.Instruction) {
			if l, ok := in.(*ssa.Lookup); ok && l.CommaOk && pathOf(l.Index) == addr && strings.HasSuffix(pathOf(l.X), ".data") {
				for _, ref := range *l.Referrers() {
					if e, ok := ref.(*ssa.Extract); ok {
						if e.Index == 1 {
							existsE = append(existsE, trueEdges(fn, e)...)
						} else {
							entry = e
						}
					}
				}
			}
		})
		// not expired: false edge of (d.timestamp < now)
		for _, b := range fn.Blocks {
			if len(b.Instrs) == 0 {
				continue
			}
			if iff, ok := b.Instrs[len(b.Instrs)-1].(*ssa.If); ok {
				if bo, ok := iff.Cond.(*ssa.BinOp); ok && strings.HasSuffix(pathOf(bo.X), ".timestamp") {
					if c, isCall := strip(bo.Y).(*ssa.Call); isCall && strings.HasSuffix(calleeName(c), ").UnixNano") {
						freshE = append(freshE, Edge{b, 1})
					}
				}
			}
		}
		var eqCall *ssa.Call
		for _, c := range f.calls("bytes.Equal") {
			a := c.Common().Args
			pa, pb := pathOf(a[0]), pathOf(a[1])
			if (pa == data && strings.HasSuffix(pb, ".raw")) || (pb == data && strings.HasSuffix(pa, ".raw")) {
				eqCall = c.(*ssa.Call)
				eqE = append(eqE, passBool(c, 0, true)...)
			}
		}
		ok := entry != nil
		n := 0
		for _, ret := range returnsOf(fn) {
			vals, _ := resultVals(ret, 0)
			for _, v := range vals {
				if bv, isC := boolConst(v); isC && !bv {
					continue
				}
				n++
				// a non-false return: either the equality result itself behind exists+fresh, or behind all three
				if eqCall != nil && sameVal(v, eqCall) {
					if !(behind(ret, existsE) && behind(ret, freshE)) {
						ok = false
					}
				} else if !(behind(ret, existsE) && behind(ret, freshE) && behind(ret, eqE)) {
					ok = false
				}
			}
		}
		r.check(ok && n > 0 && eqCall != nil, "challenge-validation", "dataprovider.Cache.ValidateData", w.Pos(fn.Pos()),
			"true only for an existing, unexpired, byte-equal challenge of that address", fmt.Sprintf("exists-edges=%d fresh-edges=%d equal-call=%v non-false returns=%d", len(existsE), len(freshE), eqCall != nil, n))
	}
	// the challenge is stored per address under the exclusive lock with an expiry in the future
	r.rule("challenge-issue", "ProvideData stores fresh random bytes under the caller's address with timestamp now+longevity", 1)
	if f := w.fx(r, "dataprovider", "Cache", "ProvideData"); f != nil {
		ok := false
		instrsOf(f.fn, func(in ssa.Instruction) {
			if mu, isMU := in.(*ssa.MapUpdate); isMU && pathOf(mu.Key) == f.fn.Params[1].Name() && strings.HasSuffix(pathOf(mu.Map), ".data") {
				ok = true
			}
		})
		randCalls := deepCalls(f.fn, byName("crypto/rand.Read"), deepDepth)
		rnd := len(randCalls) == 1
		r.check(ok && rnd, "challenge-issue", "dataprovider.Cache.ProvideData", w.Pos(f.fn.Pos()), "challenge = crypto/rand bytes stored under the address", fmt.Sprintf("stored-under-address=%v random=%v", ok, rnd))
		// every record written by ProvideData carries bytes drawn in THIS call: an old challenge is never
		// re-stored (with a new deadline), so a challenge lives for one longevity period at most
		var randBufs []ssa.Value
		for _, d := range randCalls {
			randBufs = append(randBufs, origins(d.c.Common().Args[0])...)
		}
		fromRand := func(v ssa.Value) bool {
			for _, o := range originsDeep(v, deepDepth) {
				for _, rb := range randBufs {
					if sameVal(o, rb) {
						return true
					}
				}
			}
			return false
		}
		instrsOf(f.fn, func(in ssa.Instruction) {
			mu, isMU := in.(*ssa.MapUpdate)
			if !isMU || !strings.HasSuffix(pathOf(mu.Map), ".data") {
				return
			}
			fresh := false
			if ld, isLd := mu.Value.(*ssa.UnOp); isLd {
				if al, isAl := ld.X.(*ssa.Alloc); isAl {
					for _, ref := range *al.Referrers() {
						if fa, isFA := ref.(*ssa.FieldAddr); isFA && fieldName(fa.X.Type(), fa.Field) == "raw" {
							for _, r2 := range *fa.Referrers() {
								if st, isSt := r2.(*ssa.Store); isSt && st.Addr == ssa.Value(fa) && fromRand(st.Val) {
									fresh = true
								}
							}
						}
					}
					// a whole-struct store (a record read back from the map) makes the bytes old again
					for _, ref := range *al.Referrers() {
						if st, isSt := ref.(*ssa.Store); isSt && st.Addr == ssa.Value(al) {
							fresh = false
						}
					}
				}
			}
			r.check(fresh, "challenge-issue", "dataprovider.Cache.ProvideData/record-is-fresh", lineOf(w, mu), "the stored challenge bytes were drawn from crypto/rand in this call", "a record whose bytes were not drawn in this call is stored (an old challenge gets a new deadline)")
		})
	}

	// every authorisation check above ends in wallet.Helper.Verify: it must itself be genuine for the address given
	// (an "already verified" shortcut that forgets the address lets one party's signature stand in for another's)
	r.rule("signature-check-is-genuine", "wallet.Helper.Verify reports success only behind the digest equality, the decoding of the given address and ed25519.Verify under that key", 1)
	walletVerifyChain(w, r, "signature-check-is-genuine")
}
