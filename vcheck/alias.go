package main

// Rename tolerance. The rule tables name the repository's own unexported functions, types and fields
// (saveTrxInVertex, buffer.members, …). A maintainer may rename any of them without changing behaviour.
// reference.json (written by `vcheck -fingerprint` from the tree the rules were confirmed on) records, for
// every declared function, named type and struct field of the repository, a shape fingerprint that a pure
// rename cannot change. When a referenced name is missing from the current tree, it is matched against the
// names that are new in the current tree by fingerprint; a unique match becomes an alias. Everything that
// PRODUCES names for the rules (calleeName, fieldName, refName, World.Func) translates through the aliases,
// so the rules keep reading the reference names. An entity that disappeared without a unique match stays
// missing and is reported as such ("anchor function must resolve").

import (
	_ "embed"
	"encoding/json"
	"fmt"
	"go/types"
	"path/filepath"
	"sort"
	"strings"

	"golang.org/x/tools/go/ssa"
)

//go:embed reference.json
var referenceJSON []byte

type fpFunc struct {
	Pkg    string   `json:"pkg"`
	Recv   string   `json:"recv"` // receiver type name, "" for functions
	Ptr    bool     `json:"ptr"`
	Name   string   `json:"name"`
	Sig    string   `json:"sig"`
	Blocks int      `json:"blocks"`
	Instrs int      `json:"instrs"`
	Ext    []string `json:"ext"` // callees outside the module and exported callees inside it, in order
	File   string   `json:"file"`
	Ord    int      `json:"ord"`
}

type fpField struct {
	Name string `json:"name"`
	Type string `json:"type"`
}

type fpType struct {
	Pkg     string    `json:"pkg"`
	Name    string    `json:"name"`
	Kind    string    `json:"kind"`
	Fields  []fpField `json:"fields,omitempty"`
	Methods int       `json:"methods"`
}

type fingerprints struct {
	Funcs []fpFunc `json:"funcs"`
	Types []fpType `json:"types"`
}

type aliasSet struct {
	// current → reference
	typeRev  map[string]string // pkg|cur → ref
	funcRev  map[string]string // pkg|refRecv|cur → ref
	fieldRev map[string]string // pkg|refType|cur → ref
	// reference → current
	typeFwd map[string]string
	funcFwd map[string]string
	refFns  map[string]bool // pkg|recv|name of every function of the reference tree
	Log     []string
}

var curAliases *aliasSet

func relPkg(path string) string { return strings.TrimPrefix(strings.TrimPrefix(path, modPath), "/") }

func isRepoPath(path string) bool { return strings.HasPrefix(path, modPath) }

// normType prints a type with the names of unexported repository types blanked (they may be renamed).
func normType(t types.Type) string {
	return types.TypeString(t, func(p *types.Package) string { return p.Name() })
}

func normTypeBlank(t types.Type) string {
	s := normType(t)
	// blank unexported identifiers qualified by a repository package: pkg.name → pkg.·
	var b strings.Builder
	for i := 0; i < len(s); {
		j := i
		for j < len(s) && (isIdent(s[j])) {
			j++
		}
		if j > i && j < len(s) && s[j] == '.' && j+1 < len(s) && s[j+1] >= 'a' && s[j+1] <= 'z' && repoPkgNames[s[i:j]] {
			k := j + 1
			for k < len(s) && isIdent(s[k]) {
				k++
			}
			b.WriteString(s[i:j] + ".·")
			i = k
			continue
		}
		if j == i {
			j = i + 1
		}
		b.WriteString(s[i:j])
		i = j
	}
	return b.String()
}

func isIdent(c byte) bool {
	return c == '_' || c >= 'a' && c <= 'z' || c >= 'A' && c <= 'Z' || c >= '0' && c <= '9'
}

var repoPkgNames = map[string]bool{}

func collectFingerprints(w *World) fingerprints {
	var fp fingerprints
	for _, p := range w.Prog.AllPackages() {
		if isRepoPath(p.Pkg.Path()) {
			repoPkgNames[p.Pkg.Name()] = true
		}
	}
	type posFn struct {
		f   *ssa.Function
		off int
	}
	perFile := map[string][]posFn{}
	for fn := range w.AllFuncs() {
		if fn.Pkg == nil || !isRepoPath(fn.Pkg.Pkg.Path()) || fn.Object() == nil || fn.Parent() != nil || len(fn.Blocks) == 0 || fn.Synthetic != "" {
			continue
		}
		if strings.HasSuffix(fn.Pkg.Pkg.Path(), "protobufcompiled") {
			continue
		}
		pos := w.Fset.Position(fn.Pos())
		perFile[pos.Filename] = append(perFile[pos.Filename], posFn{fn, pos.Offset})
	}
	for file, fns := range perFile {
		sort.Slice(fns, func(i, j int) bool { return fns[i].off < fns[j].off })
		for ord, pf := range fns {
			fn := pf.f
			rec := fpFunc{Pkg: relPkg(fn.Pkg.Pkg.Path()), Name: fn.Name(), File: filepath.Base(file), Ord: ord}
			sig := fn.Signature
			if r := sig.Recv(); r != nil {
				t := r.Type()
				if pt, ok := t.(*types.Pointer); ok {
					rec.Ptr = true
					t = pt.Elem()
				}
				if nt, ok := t.(*types.Named); ok {
					rec.Recv = nt.Obj().Name()
				}
			}
			rec.Sig = normTypeBlank(types.NewSignatureType(nil, nil, nil, sig.Params(), sig.Results(), sig.Variadic()))
			rec.Blocks = len(fn.Blocks)
			for _, ff := range WithAnon(fn) {
				instrsOf(ff, func(in ssa.Instruction) {
					rec.Instrs++
					if c, ok := in.(ssa.CallInstruction); ok {
						cc := c.Common()
						if cc.IsInvoke() {
							if cc.Method.Exported() || !isRepoPath(pkgPathOf(cc.Method)) {
								rec.Ext = append(rec.Ext, "invoke."+cc.Method.Name())
							}
							return
						}
						if cal := cc.StaticCallee(); cal != nil && cal.Object() != nil {
							if !isRepoPath(pkgPathOf(cal.Object())) || cal.Object().Exported() {
								rec.Ext = append(rec.Ext, cal.Object().Name())
							}
						}
					}
				})
			}
			fp.Funcs = append(fp.Funcs, rec)
		}
	}
	for _, p := range w.Prog.AllPackages() {
		if !isRepoPath(p.Pkg.Path()) || strings.HasSuffix(p.Pkg.Path(), "protobufcompiled") {
			continue
		}
		sc := p.Pkg.Scope()
		for _, n := range sc.Names() {
			tn, ok := sc.Lookup(n).(*types.TypeName)
			if !ok || tn.IsAlias() {
				continue
			}
			nt, ok := tn.Type().(*types.Named)
			if !ok {
				continue
			}
			rec := fpType{Pkg: relPkg(p.Pkg.Path()), Name: n, Methods: nt.NumMethods()}
			switch u := nt.Underlying().(type) {
			case *types.Struct:
				rec.Kind = "struct"
				for i := 0; i < u.NumFields(); i++ {
					rec.Fields = append(rec.Fields, fpField{u.Field(i).Name(), normTypeBlank(u.Field(i).Type())})
				}
			case *types.Interface:
				rec.Kind = "interface"
			default:
				rec.Kind = normTypeBlank(u)
			}
			fp.Types = append(fp.Types, rec)
		}
	}
	sort.Slice(fp.Funcs, func(i, j int) bool {
		a, b := fp.Funcs[i], fp.Funcs[j]
		if a.Pkg != b.Pkg {
			return a.Pkg < b.Pkg
		}
		if a.File != b.File {
			return a.File < b.File
		}
		return a.Ord < b.Ord
	})
	sort.Slice(fp.Types, func(i, j int) bool {
		if fp.Types[i].Pkg != fp.Types[j].Pkg {
			return fp.Types[i].Pkg < fp.Types[j].Pkg
		}
		return fp.Types[i].Name < fp.Types[j].Name
	})
	return fp
}

func pkgPathOf(o types.Object) string {
	if o == nil || o.Pkg() == nil {
		return ""
	}
	return o.Pkg().Path()
}

func (t fpType) shape() string {
	var fs []string
	for _, f := range t.Fields {
		fs = append(fs, f.Type)
	}
	return fmt.Sprintf("%s|%s|%d|%s", t.Pkg, t.Kind, t.Methods, strings.Join(fs, ";"))
}

func (f fpFunc) shape(recv string) string {
	return fmt.Sprintf("%s|%s|%v|%s|%d|%d|%s", f.Pkg, recv, f.Ptr, f.Sig, f.Blocks, f.Instrs, strings.Join(f.Ext, ","))
}

// buildAliases matches reference entities that are missing from the current tree with new ones.
func buildAliases(w *World) *aliasSet {
	as := &aliasSet{typeRev: map[string]string{}, funcRev: map[string]string{}, fieldRev: map[string]string{}, typeFwd: map[string]string{}, funcFwd: map[string]string{}}
	var ref fingerprints
	if len(referenceJSON) == 0 || json.Unmarshal(referenceJSON, &ref) != nil || len(ref.Funcs) == 0 {
		return as
	}
	cur := collectFingerprints(w)
	loaded := map[string]bool{}
	for _, t := range cur.Types {
		loaded[t.Pkg] = true
	}
	for _, f := range cur.Funcs {
		loaded[f.Pkg] = true
	}
	// ---- types
	curTypes := map[string]fpType{}
	for _, t := range cur.Types {
		curTypes[t.Pkg+"|"+t.Name] = t
	}
	refTypes := map[string]fpType{}
	for _, t := range ref.Types {
		refTypes[t.Pkg+"|"+t.Name] = t
	}
	missT := map[string][]fpType{}
	newT := map[string][]fpType{}
	for k, t := range refTypes {
		if _, ok := curTypes[k]; !ok && loaded[t.Pkg] {
			missT[t.shape()] = append(missT[t.shape()], t)
		}
	}
	for k, t := range curTypes {
		if _, ok := refTypes[k]; !ok {
			newT[t.shape()] = append(newT[t.shape()], t)
		}
	}
	for sh, ms := range missT {
		ns := newT[sh]
		if len(ms) == 1 && len(ns) == 1 {
			as.typeFwd[ms[0].Pkg+"|"+ms[0].Name] = ns[0].Name
			as.typeRev[ns[0].Pkg+"|"+ns[0].Name] = ms[0].Name
			as.Log = append(as.Log, fmt.Sprintf("type %s.%s is now %s", ms[0].Pkg, ms[0].Name, ns[0].Name))
		}
	}
	curTypeOf := func(pkg, refName string) (fpType, bool) {
		if n, ok := as.typeFwd[pkg+"|"+refName]; ok {
			refName = n
		}
		t, ok := curTypes[pkg+"|"+refName]
		return t, ok
	}
	// ---- fields (same position, same type, old name gone)
	for _, rt := range ref.Types {
		if rt.Kind != "struct" {
			continue
		}
		ct, ok := curTypeOf(rt.Pkg, rt.Name)
		if !ok || len(ct.Fields) != len(rt.Fields) {
			continue
		}
		have := map[string]bool{}
		for _, f := range ct.Fields {
			have[f.Name] = true
		}
		for i, rf := range rt.Fields {
			cf := ct.Fields[i]
			if cf.Name != rf.Name && cf.Type == rf.Type && !have[rf.Name] {
				as.fieldRev[rt.Pkg+"|"+rt.Name+"|"+cf.Name] = rf.Name
				as.Log = append(as.Log, fmt.Sprintf("field %s.%s.%s is now %s", rt.Pkg, rt.Name, rf.Name, cf.Name))
			}
		}
	}
	// ---- functions
	refRecvOf := func(pkg, curRecv string) string {
		if r, ok := as.typeRev[pkg+"|"+curRecv]; ok {
			return r
		}
		return curRecv
	}
	curFuncs := map[string]fpFunc{}
	for _, f := range cur.Funcs {
		curFuncs[f.Pkg+"|"+refRecvOf(f.Pkg, f.Recv)+"|"+f.Name] = f
	}
	refFuncs := map[string]fpFunc{}
	as.refFns = map[string]bool{}
	for _, f := range ref.Funcs {
		refFuncs[f.Pkg+"|"+f.Recv+"|"+f.Name] = f
		as.refFns[f.Pkg+"|"+f.Recv+"|"+f.Name] = true
	}
	missF := map[string][]fpFunc{}
	newF := map[string][]fpFunc{}
	for k, f := range refFuncs {
		if _, ok := curFuncs[k]; !ok && loaded[f.Pkg] {
			missF[f.shape(f.Recv)] = append(missF[f.shape(f.Recv)], f)
		}
	}
	for k, f := range curFuncs {
		if _, ok := refFuncs[k]; !ok {
			sh := f.shape(refRecvOf(f.Pkg, f.Recv))
			newF[sh] = append(newF[sh], f)
		}
	}
	for sh, ms := range missF {
		ns := newF[sh]
		if len(ms) != len(ns) || len(ms) == 0 {
			continue
		}
		byPos := func(x []fpFunc) {
			sort.Slice(x, func(i, j int) bool {
				if x[i].File != x[j].File {
					return x[i].File < x[j].File
				}
				return x[i].Ord < x[j].Ord
			})
		}
		byPos(ms)
		byPos(ns)
		for i := range ms {
			as.funcFwd[ms[i].Pkg+"|"+ms[i].Recv+"|"+ms[i].Name] = ns[i].Name
			as.funcRev[ns[i].Pkg+"|"+ms[i].Recv+"|"+ns[i].Name] = ms[i].Name
			as.Log = append(as.Log, fmt.Sprintf("func %s.%s.%s is now %s", ms[i].Pkg, ms[i].Recv, ms[i].Name, ns[i].Name))
		}
	}
	// second pass for functions that were renamed AND edited a little: same receiver and signature, same multiset of
	// external callees; accepted only when the match is unique in both directions
	loose := func(f fpFunc, recv string) string {
		ext := append([]string{}, f.Ext...)
		sort.Strings(ext)
		return fmt.Sprintf("%s|%s|%v|%s|%s", f.Pkg, recv, f.Ptr, f.Sig, strings.Join(ext, ","))
	}
	missL := map[string][]fpFunc{}
	newL := map[string][]fpFunc{}
	for k, f := range refFuncs {
		if _, ok := curFuncs[k]; !ok && loaded[f.Pkg] {
			if _, done := as.funcFwd[f.Pkg+"|"+f.Recv+"|"+f.Name]; !done {
				missL[loose(f, f.Recv)] = append(missL[loose(f, f.Recv)], f)
			}
		}
	}
	for k, f := range curFuncs {
		if _, ok := refFuncs[k]; !ok {
			rr := refRecvOf(f.Pkg, f.Recv)
			if _, done := as.funcRev[f.Pkg+"|"+rr+"|"+f.Name]; !done {
				newL[loose(f, rr)] = append(newL[loose(f, rr)], f)
			}
		}
	}
	for sh, ms := range missL {
		ns := newL[sh]
		if len(ms) == 1 && len(ns) == 1 {
			as.funcFwd[ms[0].Pkg+"|"+ms[0].Recv+"|"+ms[0].Name] = ns[0].Name
			as.funcRev[ns[0].Pkg+"|"+ms[0].Recv+"|"+ns[0].Name] = ms[0].Name
			as.Log = append(as.Log, fmt.Sprintf("func %s.%s.%s is now %s (body edited)", ms[0].Pkg, ms[0].Recv, ms[0].Name, ns[0].Name))
		}
	}
	sort.Strings(as.Log)
	return as
}

// ---- translation used by the name producers

func (as *aliasSet) refTypeName(pkgPath, cur string) string {
	if as == nil {
		return cur
	}
	if r, ok := as.typeRev[relPkg(pkgPath)+"|"+cur]; ok {
		return r
	}
	return cur
}

func (as *aliasSet) curTypeName(pkg, ref string) string {
	if as == nil {
		return ref
	}
	if c, ok := as.typeFwd[pkg+"|"+ref]; ok {
		return c
	}
	return ref
}

func (as *aliasSet) curFuncName(pkg, refRecv, ref string) string {
	if as == nil {
		return ref
	}
	if c, ok := as.funcFwd[pkg+"|"+refRecv+"|"+ref]; ok {
		return c
	}
	return ref
}

// refFuncFullName renders a types.Func like (*types.Func).FullName(), with reference names.
func refFuncFullName(f *types.Func) string {
	as := curAliases
	if as == nil || f.Pkg() == nil || !isRepoPath(f.Pkg().Path()) || (len(as.funcRev) == 0 && len(as.typeRev) == 0) {
		return f.FullName()
	}
	pkg := relPkg(f.Pkg().Path())
	sig, _ := f.Type().(*types.Signature)
	if sig == nil || sig.Recv() == nil {
		name := f.Name()
		if r, ok := as.funcRev[pkg+"||"+name]; ok {
			name = r
		}
		return f.Pkg().Path() + "." + name
	}
	t := sig.Recv().Type()
	ptr := false
	if pt, ok := t.(*types.Pointer); ok {
		ptr = true
		t = pt.Elem()
	}
	nt, ok := t.(*types.Named)
	if !ok {
		return f.FullName()
	}
	if _, isIface := nt.Underlying().(*types.Interface); isIface {
		return f.FullName()
	}
	recv := as.refTypeName(f.Pkg().Path(), nt.Obj().Name())
	name := f.Name()
	if r, ok := as.funcRev[pkg+"|"+recv+"|"+name]; ok {
		name = r
	}
	if ptr {
		return "(*" + f.Pkg().Path() + "." + recv + ")." + name
	}
	return "(" + f.Pkg().Path() + "." + recv + ")." + name
}

// refName is fn.Name() in reference terms.
func refName(fn *ssa.Function) string {
	if fn == nil {
		return ""
	}
	if f, ok := fn.Object().(*types.Func); ok && curAliases != nil {
		full := refFuncFullName(f)
		if i := strings.LastIndex(full, "."); i >= 0 {
			return full[i+1:]
		}
	}
	return fn.Name()
}

// refFieldName translates a field of a (possibly renamed) repository struct to its reference name.
func refFieldName(named *types.Named, field string) string {
	as := curAliases
	if as == nil || named == nil || named.Obj().Pkg() == nil || len(as.fieldRev) == 0 {
		return field
	}
	pkg := relPkg(named.Obj().Pkg().Path())
	tn := as.refTypeName(named.Obj().Pkg().Path(), named.Obj().Name())
	if r, ok := as.fieldRev[pkg+"|"+tn+"|"+field]; ok {
		return r
	}
	return field
}

// inReference: did this function (under its reference name) exist in the tree the rules were confirmed on?
// Helpers introduced later are "new": findings inside them are attributed to the nearest caller that is not.
func inReference(fn *ssa.Function) bool {
	as := curAliases
	if as == nil || len(as.refFns) == 0 || fn == nil || fn.Pkg == nil {
		return true
	}
	f, ok := fn.Object().(*types.Func)
	if !ok {
		return true
	}
	recv := ""
	if sig, _ := f.Type().(*types.Signature); sig != nil && sig.Recv() != nil {
		t := sig.Recv().Type()
		if pt, ok := t.(*types.Pointer); ok {
			t = pt.Elem()
		}
		if nt, ok := t.(*types.Named); ok {
			recv = as.refTypeName(f.Pkg().Path(), nt.Obj().Name())
		}
	}
	return as.refFns[relPkg(f.Pkg().Path())+"|"+recv+"|"+refName(fn)]
}
