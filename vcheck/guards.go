package main

// Helpers shared by the guard-dominance rules (C01, C03, C04, C09, C10, C11, C12, C13, C14, C16).

import (
	"fmt"
	"strings"

	"golang.org/x/tools/go/ssa"
)

type fx struct {
	w  *World
	r  *Report
	fn *ssa.Function
}

func (w *World) fx(r *Report, pkg, recv, name string) *fx {
	fn := w.Func(pkg, recv, name)
	if fn == nil || len(fn.Blocks) == 0 {
		r.bad("analyser", pkg+"."+recv+"."+name, "-", "anchor function must resolve", "not found in the current tree")
		return nil
	}
	r.seen(shortFn(fn))
	return &fx{w, r, fn}
}

// calls returns the call sites of any of the callees in fn and its closures.
func (f *fx) calls(names ...string) []ssa.CallInstruction { return callsToDeep(f.fn, names...) }

// one returns the unique call site of callee; reports otherwise.
func (f *fx) one(rule, callee string) ssa.CallInstruction {
	cs := f.calls(callee)
	if len(cs) != 1 {
		f.r.bad(rule, shortFn(f.fn)+"/"+callee[strings.LastIndex(callee, ".")+1:], f.w.Pos(f.fn.Pos()), "exactly one call of "+callee+" expected (anchor of the rule)", fmt.Sprintf("found %d", len(cs)))
		return nil
	}
	return cs[0]
}

// passErrNil: the edges on which the error result of c is nil.
func passErrNil(c ssa.CallInstruction) []Edge {
	ev := errResult(c)
	if ev == nil {
		return nil
	}
	return errNilEdges(c.Parent(), ev)
}

func failErrNonNil(c ssa.CallInstruction) []Edge {
	ev := errResult(c)
	if ev == nil {
		return nil
	}
	return errNonNilEdges(c.Parent(), ev)
}

// passBool: edges on which result #i of c is true (want=true) or false.
func passBool(c ssa.CallInstruction, i int, want bool) []Edge {
	v := resultAt(c, i)
	if v == nil {
		return nil
	}
	if want {
		return trueEdges(c.Parent(), v)
	}
	return falseEdges(c.Parent(), v)
}

// behind: every path from the function entry to the instruction crosses one of the edges.
func behind(target ssa.Instruction, edges []Edge) bool {
	return len(edges) > 0 && mustCross(target.Parent(), target.Block(), edges)
}

// cmpEdges returns the edges on which a comparison between two values matching the predicates
// has the wanted outcome (equal / not equal).
func cmpEdges(fn *ssa.Function, a, b func(ssa.Value) bool, wantEqual bool) []Edge {
	return edgesWhere(fn, func(f fact) bool {
		if wantEqual && f.kind != fEq || !wantEqual && f.kind != fNeq {
			return false
		}
		return (a(f.x) && b(f.y)) || (a(f.y) && b(f.x))
	})
}

func pathIs(p string) func(ssa.Value) bool {
	return func(v ssa.Value) bool { return pathOf(v) == bp(p) }
}

func pathEnds(suf string) func(ssa.Value) bool {
	return func(v ssa.Value) bool { return pathHasSuffix(pathOf(v), suf) }
}

func isCallTo(suffix string) func(ssa.Value) bool {
	return func(v ssa.Value) bool {
		if c, ok := strip(v).(*ssa.Call); ok {
			return strings.HasSuffix(calleeName(c), suffix)
		}
		return false
	}
}

// vertexOfHashArg extracts the vertex value X from an expression string(X.Hash[:]) / X.Hash[:].
func vertexOfHashArg(v ssa.Value) (ssa.Value, bool) {
	for i := 0; i < 6; i++ {
		switch x := v.(type) {
		case *ssa.Convert:
			v = x.X
		case *ssa.Slice:
			v = x.X
		case *ssa.ChangeType:
			v = x.X
		case *ssa.FieldAddr:
			if fieldName(x.X.Type(), x.Field) == "Hash" {
				return x.X, true
			}
			return nil, false
		case *ssa.Alloc:
			// local copy of the hash array: follow its single store
			var src ssa.Value
			n := 0
			for _, r := range *x.Referrers() {
				if st, ok := r.(*ssa.Store); ok && st.Addr == ssa.Value(x) {
					src = st.Val
					n++
				}
			}
			if n != 1 {
				return nil, false
			}
			v = src
		case *ssa.UnOp:
			v = x.X
		default:
			return nil, false
		}
	}
	return nil, false
}

// newVertexSource: if vertex variable path V is assigned from NewVertex(t, …) in fn, returns the path of t.
func newVertexSource(fn *ssa.Function, vpath string) (string, *ssa.Call) {
	for _, c := range callsTo(fn, cn("accountant", "", "NewVertex")) {
		call, ok := c.(*ssa.Call)
		if !ok {
			continue
		}
		res := resultAt(c, 0)
		if res == nil {
			continue
		}
		for _, ref := range *res.Referrers() {
			if st, ok := ref.(*ssa.Store); ok && st.Val == res {
				if pathOf(st.Addr) == vpath {
					return pathOf(call.Call.Args[0]), call
				}
			}
		}
	}
	return "", nil
}

// trxHashPathOK: is path p the transaction hash of the vertex named vpath in fn?
func trxHashPathOK(fn *ssa.Function, vpath, p string) bool {
	if p == vpath+".Transaction.Hash" {
		return true
	}
	if t, _ := newVertexSource(fn, vpath); t != "" && p == t+".Hash" {
		return true
	}
	return false
}

// trxHashPathOKUp is trxHashPathOK that, inside an unexported helper which receives both the vertex and the
// transaction, establishes the binding at every call site of the helper.
func trxHashPathOKUp(w *World, fn *ssa.Function, vpath, p string, up int) bool {
	if trxHashPathOK(fn, vpath, p) {
		return true
	}
	if fn.Parent() != nil { // function literal: captured variables keep their names in the enclosing function
		return trxHashPathOKUp(w, fn.Parent(), vpath, p, up)
	}
	if up <= 0 || fn.Object() == nil || fn.Object().Exported() {
		return false
	}
	callers := staticCallers(w, fn)
	if len(callers) == 0 {
		return false
	}
	for _, cs := range callers {
		args := cs.Common().Args
		tr := func(q string) string {
			for k, prm := range fn.Params {
				if k < len(args) {
					if x, ok := substPrefix(q, prm.Name(), pathOf(args[k])); ok {
						return x
					}
				}
			}
			return q
		}
		if !trxHashPathOKUp(w, cs.Parent(), tr(vpath), tr(p), up-1) {
			return false
		}
	}
	return true
}

// loopHeaderOf finds the rangeindex/rangechan loop header block that contains instruction-defining block b
// in its natural loop; returns the header block whose comment starts with "range" and that reaches b and is reached from b.
func enclosingRangeHeader(b *ssa.BasicBlock) *ssa.BasicBlock {
	fn := b.Parent()
	var best *ssa.BasicBlock
	for _, h := range fn.Blocks {
		if !strings.HasPrefix(h.Comment, "range") || !strings.HasSuffix(h.Comment, ".loop") {
			continue
		}
		if !h.Dominates(b) {
			continue
		}
		if !reachable(b.Succs, nil)[h] {
			continue
		}
		if best == nil || best.Dominates(h) {
			best = h
		}
	}
	return best
}

// ---------------------------------------------------------------------------------------------
// identifier binding: rule tables are written with logical names ("in", "trx", "leaf"); before a row
// is evaluated they are bound to the actual identifiers of the function under analysis, so that
// renaming a parameter or local variable never changes a verdict.

type binder struct {
	m map[string]string
}

var curBinder *binder

// bindNames builds a binder: spec maps a logical name to "param:N" (N counts the receiver as 0),
// "recv", or "result:<callee suffix>" (the variable holding result #0 of the first such call).
func bindNames(fn *ssa.Function, spec map[string]string) *binder {
	b := &binder{m: map[string]string{}}
	for logical, how := range spec {
		switch {
		case how == "recv":
			if len(fn.Params) > 0 {
				b.m[logical] = fn.Params[0].Name()
			}
		case strings.HasPrefix(how, "param:"):
			var n int
			fmt.Sscanf(how, "param:%d", &n)
			if n < len(fn.Params) {
				b.m[logical] = fn.Params[n].Name()
			}
		case strings.HasPrefix(how, "result:"):
			suf := strings.TrimPrefix(how, "result:")
			for _, c := range callsTo2(fn, suf) {
				rv := resultAt(c, 0)
				if rv == nil {
					continue
				}
				name := pathOf(rv)
				for _, ref := range *rv.Referrers() {
					if st, ok := ref.(*ssa.Store); ok && st.Val == rv {
						name = pathOf(st.Addr)
					}
				}
				b.m[logical] = name
				break
			}
		}
	}
	return b
}

// P substitutes the leading logical name of a path template.
func (b *binder) P(tmpl string) string {
	if b == nil {
		return tmpl
	}
	head, rest := tmpl, ""
	if i := strings.Index(tmpl, "."); i >= 0 {
		head, rest = tmpl[:i], tmpl[i:]
	}
	if actual, ok := b.m[head]; ok {
		return actual + rest
	}
	return tmpl
}

func bp(tmpl string) string { return curBinder.P(tmpl) }

// ---------------------------------------------------------------------------------------------
// helper extraction: rules anchored at a function must keep holding when part of its body moves into
// an unexported helper of the same package.

// dcall is a call found in fn or (through static same-package calls) in a helper, with the chain of
// call sites leading to it.
type dcall struct {
	c     ssa.CallInstruction
	chain []ssa.CallInstruction
}

// deepCalls returns the calls matching pred in fn, its function literals and, up to depth levels,
// in same-package functions it calls statically.
func deepCalls(fn *ssa.Function, pred func(ssa.CallInstruction) bool, depth int) []dcall {
	var out []dcall
	// a helper is visited once per call site that leads to it (a parametric helper called twice gives two contexts);
	// recursion is cut by never re-entering a function that is already on the chain
	seen := map[string]bool{}
	var visit func(f *ssa.Function, chain []ssa.CallInstruction, d int)
	visit = func(f *ssa.Function, chain []ssa.CallInstruction, d int) {
		key := f.String()
		for _, cs := range chain {
			key += fmt.Sprintf("<%p", cs)
			if cs.Parent() == f {
				return
			}
		}
		if seen[key] {
			return
		}
		seen[key] = true
		for _, ff := range WithAnon(f) {
			instrsOf(ff, func(in ssa.Instruction) {
				c, ok := in.(ssa.CallInstruction)
				if !ok {
					return
				}
				if pred(c) {
					out = append(out, dcall{c, append([]ssa.CallInstruction{}, chain...)})
				}
				if _, isGo := in.(*ssa.Go); isGo {
					return // a goroutine started here is not part of this function's own control flow
				}
				if d < depth {
					if cal := calleeOf(c); cal != nil && cal.Pkg == fn.Pkg && len(cal.Blocks) > 0 && cal != fn {
						visit(cal, append(append([]ssa.CallInstruction{}, chain...), c), d+1)
					}
				}
			})
		}
	}
	visit(fn, nil, 0)
	return out
}

// path resolves the access path of v (a value in the function containing d.c) into the context of
// the top-level function by substituting helper parameters with the actual arguments up the chain.
func (d dcall) path(v ssa.Value) string {
	p := pathOf(v)
	for i := len(d.chain) - 1; i >= 0; i-- {
		cs := d.chain[i]
		cal := calleeOf(cs)
		if cal == nil {
			break
		}
		args := cs.Common().Args
		for k, prm := range cal.Params {
			n := prm.Name()
			if k < len(args) && (p == n || strings.HasPrefix(p, n+".")) {
				p = pathOf(args[k]) + strings.TrimPrefix(p, n)
				break
			}
		}
	}
	return p
}

// argValue follows v, when it is a parameter of the helper the deep call sits in, to the argument passed
// for it (up the chain of call sites).
func (d dcall) argValue(v ssa.Value) ssa.Value {
	for i := len(d.chain) - 1; i >= 0; i-- {
		prm, ok := strip(v).(*ssa.Parameter)
		if !ok {
			return v
		}
		cs := d.chain[i]
		cal := calleeOf(cs)
		if cal == nil {
			return v
		}
		found := false
		for k, p := range cal.Params {
			if p == prm && k < len(cs.Common().Args) {
				v = cs.Common().Args[k]
				found = true
			}
		}
		if !found {
			return v
		}
	}
	return v
}

// delegateFor: fn hands value p to a same-package helper; returns the helper, its parameter that
// receives p and the call site.
func delegateFor(fn *ssa.Function, p ssa.Value) (*ssa.Function, *ssa.Parameter, ssa.CallInstruction) {
	var rf *ssa.Function
	var rp *ssa.Parameter
	var rc ssa.CallInstruction
	instrsOf(fn, func(in ssa.Instruction) {
		c, ok := in.(ssa.CallInstruction)
		if !ok || rf != nil {
			return
		}
		cal := calleeOf(c)
		if cal == nil || cal.Pkg != fn.Pkg || len(cal.Blocks) == 0 {
			return
		}
		for k, a := range c.Common().Args {
			if sameVal(a, p) && k < len(cal.Params) {
				rf, rp, rc = cal, cal.Params[k], c
			}
		}
	})
	return rf, rp, rc
}

// delegateForPath is delegateFor for a value identified by its access path (e.g. string(h)).
func delegateForPath(fn *ssa.Function, path string) (*ssa.Function, *ssa.Parameter, ssa.CallInstruction) {
	var rf *ssa.Function
	var rp *ssa.Parameter
	var rc ssa.CallInstruction
	instrsOf(fn, func(in ssa.Instruction) {
		c, ok := in.(ssa.CallInstruction)
		if !ok || rf != nil {
			return
		}
		cal := calleeOf(c)
		if cal == nil || cal.Pkg != fn.Pkg || len(cal.Blocks) == 0 {
			return
		}
		for k, a := range c.Common().Args {
			if pathOf(a) == path && k < len(cal.Params) {
				rf, rp, rc = cal, cal.Params[k], c
			}
		}
	})
	return rf, rp, rc
}
