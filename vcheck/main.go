package main

// vcheck -p <property> [-tier quick|thorough]
//
// Decides the structural (static) necessary conditions of one property on /repo's current tree,
// writes /verif/evidence/<id>.json, prints KNOWN-FINDING / VIOLATION lines, exit 0/1.

import (
	"bufio"
	"encoding/json"
	"flag"
	"fmt"
	"os"
	"path/filepath"
	"runtime/debug"
	"sort"
	"strconv"
	"strings"
	"time"
)

type Ob struct {
	Rule      string `json:"rule"`
	Key       string `json:"construct"`
	Pos       string `json:"pos"`
	Desc      string `json:"obligation"`
	OK        bool   `json:"discharged"`
	Undecided bool   `json:"undecided,omitempty"`
	Detail    string `json:"detail,omitempty"`
	Known     bool   `json:"known_finding,omitempty"`
}

type Report struct {
	Prop        string
	Tier        string
	Obs         []Ob
	floors      map[string]int
	ruleDoc     map[string]string
	Assumptions []string
	Explanation string
	NotDecided  []string
	Extra       map[string]any
	FuncsSeen   map[string]bool
	w           *World
}

func (r *Report) rule(name, doc string, floor int) {
	r.floors[name] = floor
	r.ruleDoc[name] = doc
}

func (r *Report) add(o Ob) {
	// keys must be unique per rule: disambiguate repeated constructs by ordinal
	base := o.Key
	n := 1
	for {
		dup := false
		for _, x := range r.Obs {
			if x.Rule == o.Rule && x.Key == o.Key {
				dup = true
				break
			}
		}
		if !dup {
			break
		}
		n++
		o.Key = fmt.Sprintf("%s#%d", base, n)
	}
	r.Obs = append(r.Obs, o)
}

func (r *Report) ok(rule, key, pos, desc string) {
	r.add(Ob{Rule: rule, Key: key, Pos: pos, Desc: desc, OK: true})
}
func (r *Report) bad(rule, key, pos, desc, detail string) {
	r.add(Ob{Rule: rule, Key: key, Pos: pos, Desc: desc, Detail: detail})
}
func (r *Report) undecided(rule, key, pos, desc, detail string) {
	r.add(Ob{Rule: rule, Key: key, Pos: pos, Desc: desc, Detail: detail, Undecided: true})
}
func (r *Report) check(cond bool, rule, key, pos, desc, detail string) bool {
	if cond {
		r.ok(rule, key, pos, desc)
	} else {
		r.bad(rule, key, pos, desc, detail)
	}
	return cond
}
func (r *Report) seen(fn string) { r.FuncsSeen[fn] = true }

type knownFinding struct {
	prop, rule, construct, text string
}

func verifDir() string {
	if d := os.Getenv("VERIF_DIR"); d != "" {
		return d
	}
	return "/verif"
}

func loadKnown() ([]knownFinding, error) {
	f, err := os.Open(filepath.Join(verifDir(), "known_findings.txt"))
	if err != nil {
		if os.IsNotExist(err) {
			return nil, nil
		}
		return nil, err
	}
	defer f.Close()
	var out []knownFinding
	sc := bufio.NewScanner(f)
	sc.Buffer(make([]byte, 1<<20), 1<<20)
	for sc.Scan() {
		line := strings.TrimSpace(sc.Text())
		if !strings.HasPrefix(line, "known:") {
			continue // comments, blank lines and "fixed:" entries suppress nothing
		}
		fields := strings.Fields(strings.TrimPrefix(line, "known:"))
		k := knownFinding{}
		rest := []string{}
		for _, f := range fields {
			switch {
			case strings.HasPrefix(f, "property=") && k.prop == "":
				k.prop = strings.TrimPrefix(f, "property=")
			case strings.HasPrefix(f, "rule=") && k.rule == "":
				k.rule = strings.TrimPrefix(f, "rule=")
			case strings.HasPrefix(f, "construct=") && k.construct == "":
				k.construct = strings.TrimPrefix(f, "construct=")
			default:
				rest = append(rest, f)
			}
		}
		k.text = strings.Join(rest, " ")
		if k.prop == "" || k.rule == "" || k.construct == "" {
			return nil, fmt.Errorf("malformed known_findings line: %q", line)
		}
		out = append(out, k)
	}
	return out, sc.Err()
}

type propDef struct {
	pkgs []string // patterns to load
	run  func(w *World, r *Report)
	expl string
}

var props = map[string]*propDef{}

func register(id string, pkgs []string, expl string, run func(w *World, r *Report)) {
	props[id] = &propDef{pkgs: pkgs, run: run, expl: expl}
}

func main() {
	prop := flag.String("p", "", "property id (C01…C20)")
	tier := flag.String("tier", "", "quick|thorough (default: $VERIF_TIER or quick)")
	list := flag.Bool("list", false, "list properties with checks")
	verbose := flag.Bool("v", false, "print every obligation")
	dump := flag.String("dump", "", "debug: print SSA of pkg:recv:name (loads that package only)")
	fingerprint := flag.Bool("fingerprint", false, "print the shape fingerprints of the current tree (the content of reference.json)")
	aliases := flag.Bool("aliases", false, "print the renames detected between reference.json and the current tree")
	flag.Parse()
	if *fingerprint || *aliases {
		if *fingerprint {
			os.Setenv("VCHECK_NO_ALIAS", "1")
		}
		w, err := Load("./...")
		if err != nil {
			fmt.Fprintln(os.Stderr, err)
			os.Exit(2)
		}
		if *aliases {
			for _, l := range curAliases.Log {
				fmt.Println(l)
			}
			return
		}
		fp := collectFingerprints(w)
		b, _ := json.MarshalIndent(fp, "", " ")
		os.Stdout.Write(b)
		return
	}
	if *dump != "" {
		parts := strings.Split(*dump, ":")
		pat := "./" + parts[0]
		if strings.Contains(parts[0], ".") {
			pat = parts[0]
		}
		w, err := Load(pat)
		if err != nil {
			fmt.Fprintln(os.Stderr, err)
			os.Exit(2)
		}
		fn := w.Func(parts[0], parts[1], parts[2])
		if fn == nil {
			fmt.Fprintln(os.Stderr, "not found")
			os.Exit(2)
		}
		for _, f := range WithAnon(fn) {
			f.WriteTo(os.Stdout)
		}
		return
	}
	if *list {
		var ids []string
		for id := range props {
			ids = append(ids, id)
		}
		sort.Strings(ids)
		fmt.Println(strings.Join(ids, " "))
		return
	}
	if *tier == "" {
		*tier = os.Getenv("VERIF_TIER")
	}
	if *tier != "thorough" {
		*tier = "quick"
	}
	def, ok := props[*prop]
	if !ok {
		fmt.Fprintf(os.Stderr, "vcheck: no check for property %q\n", *prop)
		os.Exit(2)
	}
	verboseObs = *verbose
	os.Exit(runProp(*prop, *tier, def))
}

func runProp(id, tier string, def *propDef) (code int) {
	start := time.Now()
	seed, _ := strconv.Atoi(os.Getenv("VERIF_SEED"))
	rep := &Report{Prop: id, Tier: tier, floors: map[string]int{}, ruleDoc: map[string]string{}, Extra: map[string]any{}, FuncsSeen: map[string]bool{}, Explanation: def.expl}
	evPath := filepath.Join(verifDir(), "evidence", id+".json")
	violPath := filepath.Join(verifDir(), "evidence", id+".violation.json")
	os.MkdirAll(filepath.Dir(evPath), 0o755)
	os.Remove(violPath)

	fail := func(msg string) int {
		// analyser failure: unresolved anchors, load errors, panics — never a silent pass
		rep.bad("analyser", "internal", "-", "the analyser must load and resolve every anchor", msg)
		return finish(rep, nil, seed, start, evPath, violPath)
	}
	w, err := Load(def.pkgs...)
	if err != nil {
		return fail(err.Error())
	}
	rep.w = w
	if curAliases != nil && len(curAliases.Log) > 0 {
		// renames relative to the tree the rule tables were confirmed on (vcheck/reference.json); the rules go on
		// reading the reference names
		rep.Extra["renames_detected"] = curAliases.Log
		for _, l := range curAliases.Log {
			fmt.Println("  renamed: " + l)
		}
	}
	defer func() {
		if p := recover(); p != nil {
			code = fail(fmt.Sprintf("panic: %v\n%s", p, debug.Stack()))
		}
	}()
	known, err := loadKnown()
	if err != nil {
		return fail(err.Error())
	}
	rep.rule("engine-selftest", "every analysis engine fires on the broken canary example and is silent on the correct one (stdlib-only package loaded on every run)", 1)
	if failed, n := selfTest(); len(failed) > 0 {
		for _, f := range failed {
			rep.bad("engine-selftest", f, "vcheck/canary/canary.go", "engine behaves as specified on the canary", f)
		}
	} else {
		rep.ok("engine-selftest", fmt.Sprintf("%d expectations", n), "vcheck/canary/canary.go", "guard dominance, path obligations, locksets, length/nil facts, bounds, origins and error discipline all fire on the broken miniature and not on the correct one")
	}
	def.run(w, rep)
	if tier == "thorough" {
		if t, ok := thorough[id]; ok {
			t(w, rep)
		}
	}
	return finish(rep, known, seed, start, evPath, violPath)
}

var verboseObs bool

var thorough = map[string]func(w *World, r *Report){}

func finish(rep *Report, known []knownFinding, seed int, start time.Time, evPath, violPath string) int {
	// vacuity floors
	counts := map[string]int{}
	for _, o := range rep.Obs {
		counts[o.Rule]++
	}
	var rules []string
	for rule := range rep.floors {
		rules = append(rules, rule)
	}
	sort.Strings(rules)
	for _, rule := range rules {
		if counts[rule] < rep.floors[rule] {
			rep.bad("floor", rule, "-", fmt.Sprintf("rule %s must match at least %d instances (confirmed by hand on the pinned tree)", rule, rep.floors[rule]),
				fmt.Sprintf("matched %d", counts[rule]))
		}
	}
	var viol []Ob
	knownHit := []string{}
	discharged := 0
	for i := range rep.Obs {
		o := &rep.Obs[i]
		if o.OK {
			discharged++
			continue
		}
		for _, k := range known {
			if k.prop == rep.Prop && k.rule == o.Rule && k.construct == o.Key {
				o.Known = true
				knownHit = append(knownHit, fmt.Sprintf("KNOWN-FINDING: property=%s rule=%s construct=%s %s", rep.Prop, o.Rule, o.Key, k.text))
				break
			}
		}
		if !o.Known {
			viol = append(viol, *o)
		}
	}
	// print
	fmt.Printf("vcheck %s tier=%s: %d obligations, %d discharged, %d known findings, %d violations (%.1fs)\n",
		rep.Prop, rep.Tier, len(rep.Obs), discharged, len(knownHit), len(viol), time.Since(start).Seconds())
	for _, rule := range rules {
		fmt.Printf("  rule %-28s instances=%-3d floor=%d\n", rule, counts[rule], rep.floors[rule])
	}
	if verboseObs {
		for _, o := range rep.Obs {
			fmt.Printf("  [%v] %s :: %s @ %s — %s\n", o.OK, o.Rule, o.Key, o.Pos, o.Desc)
		}
	}
	for _, l := range knownHit {
		fmt.Println(l)
	}
	for _, o := range viol {
		tag := "violated"
		if o.Undecided {
			tag = "undecided"
		}
		fmt.Printf("  %s: rule=%s construct=%s at %s\n      obligation: %s\n      detail: %s\n", tag, o.Rule, o.Key, o.Pos, o.Desc, o.Detail)
	}
	// evidence
	samples := []any{}
	perRule := map[string]int{}
	for _, o := range rep.Obs {
		if perRule[o.Rule] < 2 && len(samples) < 24 {
			perRule[o.Rule]++
			samples = append(samples, o)
		}
	}
	ruleInfo := map[string]any{}
	for _, rule := range rules {
		ruleInfo[rule] = map[string]any{"doc": rep.ruleDoc[rule], "instances": counts[rule], "floor": rep.floors[rule]}
	}
	var fns []string
	for f := range rep.FuncsSeen {
		fns = append(fns, f)
	}
	sort.Strings(fns)
	cov := map[string]any{
		"explanation":        rep.Explanation,
		"obligations":        len(rep.Obs),
		"discharged":         discharged,
		"known_findings":     knownHit,
		"rules":              ruleInfo,
		"samples":            samples,
		"functions_analysed": fns,
		"not_decided":        rep.NotDecided,
		"exhaustive":         true,
		"checker_cmd":        fmt.Sprintf("/verif/bin/vcheck -p %s -tier %s", rep.Prop, rep.Tier),
	}
	if rep.w != nil {
		cov["packages_loaded_with_syntax"] = rep.w.NPkgsAll
		cov["repo_packages_matched"] = len(rep.w.Pkgs)
	}
	for k, v := range rep.Extra {
		cov[k] = v
	}
	ev := map[string]any{
		"property_id": rep.Prop,
		"tier":        rep.Tier,
		"seed":        seed,
		"level":       "other",
		"coverage":    cov,
		"assumptions": append([]string{"go/ssa and go/types model the compiled program faithfully", "third-party library behaviour is trusted unless a rule says it is derived from source"}, rep.Assumptions...),
		"wall_s":      time.Since(start).Seconds(),
		"violations":  len(viol),
	}
	buf, _ := json.MarshalIndent(ev, "", " ")
	if err := os.WriteFile(evPath, buf, 0o644); err != nil {
		fmt.Fprintln(os.Stderr, "cannot write evidence:", err)
		return 1
	}
	if len(viol) > 0 {
		vb, _ := json.MarshalIndent(map[string]any{
			"property_id": rep.Prop,
			"rerun":       fmt.Sprintf("/verif/bin/vcheck -p %s -tier %s", rep.Prop, rep.Tier),
			"violations":  viol,
		}, "", " ")
		os.WriteFile(violPath, vb, 0o644)
		fmt.Printf("VIOLATION property=%s replay=%s\n", rep.Prop, violPath)
		return 1
	}
	return 0
}
